"""entry point: ./check <ID> --tier quick|thorough [--replay FILE] [--no-build]"""
import argparse
import importlib
import json
import os
import sys
import traceback

from harness import common


def main():
    ap = argparse.ArgumentParser()
    ap.add_argument('pid')
    ap.add_argument('--tier', default=os.environ.get('VERIF_TIER', 'quick'), choices=['quick', 'thorough'])
    ap.add_argument('--replay', default=None)
    ap.add_argument('--no-build', action='store_true')
    a = ap.parse_args()
    pid = a.pid.upper()
    seed = int(os.environ.get('VERIF_SEED', '0') or 0)
    try:
        mod = importlib.import_module('harness.props.' + pid.lower())
    except ModuleNotFoundError:
        print('no check for', pid, file=sys.stderr)
        return 2
    try:
        if a.no_build:
            build_ok, build_log = True, ''
        else:
            build_ok, build_log, _ = common.lean_build(pid)
        audit_res = common.audit(pid) if build_ok else None
        ctx = common.Ctx(pid, a.tier, seed, replay=a.replay)
        if a.replay:
            rp = json.load(open(a.replay))
            mod.replay(ctx, rp) if hasattr(mod, 'replay') else mod.run(ctx)
        else:
            mod.run(ctx)
        if a.tier == 'thorough' and build_ok and not a.no_build and hasattr(common, 'leanchecker'):
            common.leanchecker(ctx, pid)
        return ctx.finish(build_ok, build_log, audit_res)
    except subprocess_timeout() as e:  # pragma: no cover
        print('TIMEOUT', e, file=sys.stderr)
        return 2
    except Exception as e:
        tb = traceback.extract_tb(e.__traceback__)
        repo = os.path.realpath(common.REPO)
        in_impl = any(os.path.realpath(fr.filename).startswith(repo + os.sep) for fr in tb) or ('File "%s%s' % (repo, os.sep)) in traceback.format_exc()
        traceback.print_exc()
        if in_impl:
            # the implementation raised on an input the harness considers valid and the property harness did not
            # anticipate it: on the unchanged tree this does not happen, so the tie between model and code is broken;
            # no failing input of the property itself was isolated
            os.makedirs(common.REPLAY_DIR, exist_ok=True)
            path = os.path.join(common.REPLAY_DIR, '%s_%s_%d_exception.json' % (pid, a.tier, seed))
            json.dump(dict(property=pid, seed=seed, tier=a.tier, kind='no-failing-input-found',
                           no_longer_checks=[dict(kind='implementation-exception', exception='%s: %s' % (type(e).__name__, str(e)[:500]),
                                                  traceback=traceback.format_exc()[-4000:])],
                           how_to_run='./check %s --tier %s' % (pid, a.tier)), open(path, 'w'), indent=1)
            print('VIOLATION property=%s replay=%s no-failing-input-found' % (pid, os.path.relpath(path, common.VERIF)))
            return 1
        print('INFRASTRUCTURE-ERROR in check %s (exit 2, not a verdict)' % pid, file=sys.stderr)
        return 2


def subprocess_timeout():
    import subprocess
    return subprocess.TimeoutExpired


if __name__ == '__main__':
    sys.exit(main())
