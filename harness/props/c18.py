"""
C18 — ExpectileGAM fits the requested expectile; fit_quantile reaches its quantile.

Theorems: lean/PyGam/Props/C18.lean (asymmetric weights; expectile balance from the intercept row of the normal
equations incl. the sqrt(eps) ridge term; expectile 1/2 <=> LinearGAM normal equations with doubled penalty; bisection:
argument rejection, bracket invariant, direction of every step, strictly inside (0,1), at most max_iter re-fits,
post-condition withinTol or n_iter = max_iter).

Correspondence (model executed by the Lean driver, `C18 <op>`):
  np.balance            model asym / balance on exact rationals (incl. ties y = mu) vs NumPy                      (exact)
  intercept.fixed-point ExpectileGAM(intercept only).fit(X, y, weights) vs the model's exact PIRLS fixed point
                        (interceptFit, ridge 2^-26) — ties `_W`'s asymmetric weight to `asym`                     (1e-9)
  fit.balance           converged ExpectileGAM fits: tau*sum_{r>0} w r - (1-tau)*sum_{r<=0} w|r| (NumPy and the model's
                        `balance` at the exact observed residuals) vs sqrt(eps)*beta_0                            (1e-7 rel.)
  half.linear           ExpectileGAM(expectile=0.5, lam) vs LinearGAM(2 lam) predictions                          (1e-6)
  fit_quantile.trace    traced fit_quantile (expectile of every re-fit, ratio of every model) vs the model bisection
                        driven by the observed ratios: doubles bit for bit (`bisectf`), exact rationals (`bisect`);
                        oracle: post-condition, direction of every step, strictly inside (0,1), <= max_iter re-fits
                        + the model RETURNED by fit_quantile(..., weights=w) (theorem fitQuantileW_returns_weighted_expectile_fit):
                        balances the w-weighted residuals at the expectile it reports (oracle, 1e-7 rel.), equals an
                        independent ExpectileGAM(expectile=returned).fit(X, y, weights=w) and, for integer weights, the
                        unweighted fit of the row-replicated data; every traced fit received the weights that were passed
  fit_quantile.intercept  fit_quantile(X, y, q, weights=w) of the intercept-only model vs the model search with the fit made
                        explicit (`fitQuantileW` on `interceptModelFit w`, exact rationals, ridge 2^-26): expectile and
                        coefficient of every re-fit, number of re-fits, returned coefficient; oracle: weighted balance of
                        the returned coefficient
  fit_quantile.containers  the same values handed over in other containers / shapes / dtypes (y as column, row, list, list of lists,
                        tuple, int; X as list of lists, 1-D, int, Fortran; weights likewise) vs canonical float64 arrays: identical
                        search trace and returned model; the trace vs the model bisection driven by the per-sample ratios
  malformed             argument rejection of fit_quantile and the expectile range check vs the model (exception class)

Everything goes through pyGAM's public API (ExpectileGAM / LinearGAM methods and attributes; the trace is taken by a
subclass that overrides the public `fit`).
"""
import ast
import contextlib
import inspect
import io
import math
import random
import textwrap
from fractions import Fraction

import numpy as np

from harness import common
from harness.common import f2bits, bits2f, q2s, s2q, f2q

PID = 'C18'
SQRT_EPS = float(np.sqrt(np.finfo(float).eps))      # 2**-26, the ridge `_pirls` adds to the diagonal


def _subrng(seed, *key):
    return random.Random('%s-%d-%s' % (PID, seed, '-'.join(map(str, key))))


def _vec_q(v):
    return ' '.join(q2s(f2q(float(x))) for x in v)


def _vec_b(v):
    return ' '.join(f2bits(float(x)) for x in v)


def harvest_literals(pygam):
    E = pygam.ExpectileGAM
    lits = set()
    for name in ('_W', '_get_quantile_ratio', 'fit_quantile', '_validate_params'):
        f = getattr(E, name, None)
        if f is None:
            continue
        try:
            tree = ast.parse(textwrap.dedent(inspect.getsource(f)))
        except Exception:  # noqa
            continue
        for node in ast.walk(tree):
            if isinstance(node, ast.Constant) and isinstance(node.value, (int, float)) and not isinstance(node.value, bool):
                v = float(node.value)
                if math.isfinite(v):
                    lits.add(abs(v))
    return sorted(lits)


# --------------------------------------------------------------------------------------------
# generators
# --------------------------------------------------------------------------------------------
TERM_MIXES = ['s0', 's0+l1', 'l0+l1', 's0+f2', 'te01', 'f2', 's0mono+l1', 's0+s1', 's0by1']
WEIGHT_KINDS = ['none', 'ones', 'int', 'dyadic', 'f32', 'zeros']
TAUS = [0.5, 0.1, 0.9, 0.25, 0.75, 0.01, 0.99, 0.3, 0.625]
# extreme expectiles: the statement is for every tau in (0,1); a floor / cap on the asymmetric weight only shows out here
EXTREME_TAUS = [1e-6, 2e-4, 5e-4, 0.9995, 0.9998, 1 - 1e-6]


def tau_pool(lits):
    """moderate + extreme + literal-seeded expectiles: every numeric literal x in (0,1) of the functions under test, x/2, 2x and
    their complements 1 - (.) (a threshold planted in `_W` / `fit_quantile` brings its own test points)"""
    pool = list(TAUS) + list(EXTREME_TAUS)
    for x in lits:
        if 0 < x < 1:
            for v in (x, x / 2, 2 * x):
                for t in (v, 1 - v):
                    if 0 < t < 1 and t not in pool:
                        pool.append(t)
    return pool


def build_terms(pygam, mix, lam, ns, mult=1.0):
    from pygam import s, l, f, te
    lam = lam * mult
    if mix == 's0':
        return s(0, n_splines=ns, lam=lam)
    if mix == 's0+l1':
        return s(0, n_splines=ns, lam=lam) + l(1, lam=lam)
    if mix == 'l0+l1':
        return l(0, lam=lam) + l(1, lam=lam)
    if mix == 's0+f2':
        return s(0, n_splines=ns, lam=lam) + f(2, lam=lam)
    if mix == 'te01':
        return te(0, 1, n_splines=4, lam=lam)
    if mix == 'f2':
        return f(2, lam=lam)
    if mix == 's0mono+l1':
        return s(0, n_splines=ns, lam=lam, constraints='monotonic_inc') + l(1, lam=lam)
    if mix == 's0+s1':
        return s(0, n_splines=ns, lam=lam) + s(1, n_splines=ns, lam=lam)
    if mix == 's0by1':
        return s(0, by=1, n_splines=ns, lam=lam)
    raise KeyError(mix)


# weight kinds of the fit_quantile streams: the shared ones + integers that are strongly non-uniform, tied to the response
# and contain zeros (a fit that loses them is a visibly different fit)
FQ_WEIGHT_KINDS = ['skewint', 'int', 'zeros', 'dyadic', 'f32', 'skewint', 'ones', 'none']


def gen_weights(kind, n, rs, y=None):
    if kind == 'skewint':
        hi = float(rs.randint(6, 21))
        above = np.asarray(y, dtype=float) > np.median(y) if y is not None else rs.rand(n) < 0.5
        if rs.rand() < 0.5:
            above = ~above
        v = np.where(above, hi, 1.0)
        v[rs.rand(n) < 0.15] = 0.0
        if not v.any():
            v[0] = 1.0
        return v
    if kind == 'none':
        return None
    if kind == 'ones':
        return np.ones(n)
    if kind == 'int':
        return rs.randint(1, 9, n).astype(float)
    if kind == 'dyadic':
        return rs.randint(1, 64, n) / 16.0
    if kind == 'f32':
        return np.exp(rs.uniform(np.log(0.05), np.log(20.0), n)).astype('f').astype(float)
    if kind == 'zeros':
        v = rs.randint(1, 5, n).astype(float)
        v[rs.rand(n) < 0.2] = 0.0
        if not v.any():
            v[0] = 1.0
        return v
    raise KeyError(kind)


def gen_data(rs, n, ykind):
    X = np.c_[rs.rand(n), rs.rand(n) * 2 - 1, rs.randint(0, 4, n).astype(float)]
    if n >= 4:
        X[:4, 2] = [0, 1, 2, 3]
    f = rs.uniform(-2, 2) + rs.uniform(0.5, 2) * np.sin(rs.uniform(2, 6) * X[:, 0]) + rs.uniform(-1, 1) * X[:, 1] + rs.uniform(-0.5, 0.5) * X[:, 2]
    if ykind == 'normal':
        y = f + rs.randn(n) * rs.uniform(0.1, 1.0)
    elif ykind == 'hetero':
        y = f + rs.randn(n) * (0.1 + X[:, 0])
    elif ykind == 'heavy':
        y = f + rs.standard_t(2.5, n) * 0.5
    elif ykind == 'integer':
        y = np.round(3 * f + rs.randn(n) * 2)
    elif ykind == 'skew':
        y = f + rs.exponential(1.0, n)
    else:
        raise KeyError(ykind)
    return X, y


YKINDS = ['normal', 'hetero', 'heavy', 'integer', 'skew']
BALANCE_UNITS = [1.0, 1.0, 1e-6, 1.0, 1e-3, 1e4, 1e-9]


def make_case(seed, stream, idx, tier, force=None, taus=None):
    taus = taus or TAUS
    r = _subrng(seed, stream, idx)
    rs = np.random.RandomState(r.getrandbits(32))
    force = force or {}
    mix = force.get('mix', TERM_MIXES[idx % len(TERM_MIXES)])
    tau = force.get('tau', taus[idx % len(taus)] if idx % 5 else round(r.uniform(0.02, 0.98), 3))
    wk = force.get('wk', WEIGHT_KINDS[r.randrange(len(WEIGHT_KINDS))])
    n = force.get('n', [20, 40, 80, 150][r.randrange(4)] if tier == 'quick' else [20, 40, 80, 150, 300][r.randrange(5)])
    lam = force.get('lam', [0.05, 0.6, 0.6, 5.0, 40.0][r.randrange(5)])
    ns = force.get('ns', [5, 6, 8, 10][r.randrange(4)])
    yk = force.get('yk', YKINDS[r.randrange(len(YKINDS))])
    X, y = gen_data(rs, n, yk)
    w = gen_weights(wk, n, rs, y)
    # unit of the response (balance stream): the criterion is homogeneous in y, the code must not carry an absolute scale
    # (a residual compared with tol, a floor on the weights, ...); the other streams keep unit 1
    unit = force.get('unit', BALANCE_UNITS[(idx // 2) % len(BALANCE_UNITS)] if stream == 'fit.balance' else 1.0)
    y = y * unit
    return dict(stream=stream, idx=idx, mix=mix, tau=tau, wk=wk, n=n, lam=lam, ns=ns, yk=yk, X=X, y=y, w=w, rs=rs, r=r, unit=unit)


def case_sig(c, **extra):
    d = dict(mix=c['mix'], tau=c['tau'], wk=c['wk'], n=c['n'], lam=c['lam'], ns=c['ns'], yk=c['yk'], idx=c['idx'])
    if c.get('unit', 1.0) != 1.0:
        d['unit'] = c['unit']
    d.update(extra)
    return d


def case_replay(seed, c, **extra):
    d = dict(seed=seed, stream=c['stream'], idx=c['idx'],
             force=dict(mix=c['mix'], tau=c['tau'], wk=c['wk'], n=c['n'], lam=c['lam'], ns=c['ns'], yk=c['yk'], unit=c.get('unit', 1.0)))
    d.update(extra)
    return d


def eff(v, n):
    return np.ones(n) if v is None else np.asarray(v, dtype=float)


def w_eff(w, n):
    """the sample weights the PIRLS weights actually use: `fit` casts them to float32 and `_W` inverts them in float32
    (`weights**-1` on a float32 array), i.e. w_eff = 1 / float32(1 / float32(w)); zero weights are masked out"""
    w32 = eff(w, n).astype('f')
    out = np.zeros(n)
    nz = w32 != 0
    out[nz] = 1.0 / (w32[nz] ** -1).astype(float)
    return out


def intercept_coef(g):
    for i, t in enumerate(g.terms):
        if t.isintercept:
            return float(np.asarray(g.coef_)[g.terms.get_coef_indices(i)][0])
    return None


def np_balance(tau, w, y, mu):
    r = y - mu
    pos = r > 0
    return float(tau * np.sum((w * r)[pos]) - (1 - tau) * np.sum((w * -r)[~pos]))


# --------------------------------------------------------------------------------------------
# streams
# --------------------------------------------------------------------------------------------
def run_np_balance(ctx, lits=()):
    st = 'np.balance'
    ctx.stream(st, 'model asym / balance on exact dyadic rationals (with ties y = mu) vs NumPy (y > mu)*tau + (y <= mu)*(1-tau) (exact)')
    r = ctx.subrng(st)
    ncase = 120 if ctx.tier == 'quick' else 1200
    ops, cases = [], []
    for i in range(ncase):
        n = r.randrange(1, 12)
        tau = [Fraction(1, 2), Fraction(1, 4), Fraction(7, 8), Fraction(r.randrange(1, 64), 64),
               Fraction(1, 2 ** 20), 1 - Fraction(1, 2 ** 20), Fraction(1, 2 ** 11), 1 - Fraction(1, 2 ** 11)][i % 8]
        if i % 3 == 2:
            xs = [t for t in tau_pool(list(lits)) if t not in TAUS]
            tau = f2q(xs[(i // 3) % len(xs)])          # extreme / literal-seeded, not dyadic: compared to 1e-13
        y = [Fraction(r.randrange(-40, 40), 8) for _ in range(n)]
        mu = [(yy if r.random() < 0.25 else Fraction(r.randrange(-40, 40), 8)) for yy in y]
        w = [Fraction(r.randrange(0, 20), 4) for _ in range(n)]
        ops.append('C18 asym %s %d | %s | %s' % (q2s(tau), n, ' '.join(map(q2s, y)), ' '.join(map(q2s, mu))))
        ops.append('C18 balance %s %d | %s | %s | %s' % (q2s(tau), n, ' '.join(map(q2s, w)), ' '.join(map(q2s, y)), ' '.join(map(q2s, mu))))
        cases.append((tau, n, w, y, mu))
    outs = ctx.driver.run(ops)
    for k, (tau, n, w, y, mu) in enumerate(cases):
        sig = dict(i=k, n=n, tau=str(tau))
        ctx.case(st, sig, nontrivial=True)
        ya, ma, wa = np.array(y, dtype=float), np.array(mu, dtype=float), np.array(w, dtype=float)
        t = float(tau)
        want_asym = (ya > ma) * t + (ya <= ma) * (1 - t)
        a_line, b_line = outs[2 * k], outs[2 * k + 1]
        if a_line == 'bad-op' or b_line == 'bad-op':
            ctx.disagree(st, sig, 'numpy', 'bad-op', '')
            continue
        got_asym = np.array([common.fracf(x) for x in a_line.split()])
        want_bal = np_balance(t, wa, ya, ma)       # dyadic tau: exact in doubles
        ctx.count('np.balance tau', 'extreme/literal' if (t < 0.005 or t > 0.995) else 'moderate')
        if tau.denominator <= 2 ** 20:
            bal_ok = common.fracf(b_line) == want_bal
        else:
            bal_ok = abs(common.fracf(b_line) - want_bal) <= 1e-13 * (float(np.sum(wa * np.abs(ya - ma))) + 1.0)
        if not np.array_equal(got_asym, want_asym) or not bal_ok:
            ctx.disagree(st, sig, [want_asym.tolist(), want_bal], [got_asym.tolist(), b_line], 'model asym/balance differs from NumPy')


def run_intercept(ctx, pygam, idxs=None, lits=()):
    st = 'intercept.fixed-point'
    ctx.stream(st, 'ExpectileGAM(terms=intercept, expectile=tau).fit(X, y, weights=w).coef_ vs exact fixed point of the model PIRLS '
                   'step (interceptFit, ridge 2^-26) (1e-9)')
    from pygam.terms import intercept
    ncase = 120 if ctx.tier == 'quick' else 800
    idxs = range(ncase) if idxs is None else idxs
    cases, ops = [], []
    for i in idxs:
        r = ctx.subrng(st, i)
        rs = np.random.RandomState(r.getrandbits(32))
        n = [1, 2, 3, 5, 8, 13, 30][r.randrange(7)]
        pool = tau_pool(list(lits))
        tau = pool[i % len(pool)] if i % 4 else round(r.uniform(0.01, 0.99), 4)
        ctx.count('intercept tau', 'extreme/literal' if (tau < 0.005 or tau > 0.995) else 'moderate')
        yk = (i // 2) % 3
        if yk == 0:
            y = rs.randint(-5, 6, n).astype(float)
        elif yk == 1:
            y = np.round(rs.randn(n) * 3, 3)
        else:
            y = rs.exponential(2.0, n)
        wk = WEIGHT_KINDS[r.randrange(len(WEIGHT_KINDS))]
        w = gen_weights(wk, n, rs)
        cases.append((i, n, tau, y, w, wk))
        wv = w_eff(w, n)
        b0 = float(np.sum(wv * y) / max(np.sum(wv), 1e-9))
        ops.append('C18 intercept %s %s %d 200 | %s | %s | %s' % (q2s(f2q(tau)), q2s(Fraction(1, 2 ** 26)), n, _vec_q(wv), _vec_q(y), q2s(f2q(b0))))
    outs = ctx.driver.run(ops)
    for (i, n, tau, y, w, wk), line in zip(cases, outs):
        sig = dict(i=i, n=n, tau=tau, wk=wk)
        ctx.case(st, sig, nontrivial=(tau != 0.5 and n > 1))
        ctx.count('intercept weight kind', wk)
        if line == 'bad-op':
            ctx.disagree(st, sig, 'fit', 'bad-op', '')
            continue
        bq, conv = line.split()
        if conv != '1':
            ctx.count('intercept model iteration not converged', 1)
            continue
        want = float(Fraction(bq))
        X = np.zeros((n, 1))

        def ev():
            g = pygam.ExpectileGAM(intercept, expectile=tau, tol=1e-13, max_iter=300)
            g.fit(X, y, weights=w)
            return float(np.asarray(g.coef_)[0]), converged(g, 1e-13)
        try:
            got, conv_impl = ev()
        except Exception as ex:  # noqa
            ctx.count('intercept fit exception', type(ex).__name__)
            continue
        if not conv_impl:
            ctx.count('intercept: pyGAM fit not converged (skipped)', 1)
            continue
        scale = max(1.0, float(np.max(np.abs(y))))
        if abs(got - want) > 1e-8 * scale:
            got, _ = ev()
            wv = w_eff(w, n)
            bal = np_balance(tau, wv, y, np.full(n, got))
            sc = float(np.sum(wv * np.abs(y - got))) + 1.0
            if abs(got - want) > 1e-8 * scale and abs(bal - SQRT_EPS * got) > 1e-6 * sc:
                ctx.fail(st, sig, dict(seed=ctx.seed, stream=st, idx=i, y=y.tolist(), w=None if w is None else w.tolist(), tau=tau),
                         observed=dict(coef=got, balance=bal), expected=dict(coef=want, balance=SQRT_EPS * want),
                         oracle='the weighted tau-expectile of y: tau*sum_{y>b} w (y-b) = (1-tau)*sum_{y<=b} w (b-y) + 2^-26 b')
            elif abs(got - want) > 1e-8 * scale:
                ctx.disagree(st, sig, got, want, 'coefficient differs from the model fixed point but balances')
        elif abs(got - want) > 1e-9 * scale:
            ctx.disagree(st, sig, got, want, 'beyond 1e-9')


def fit_expectile(pygam, c, tau=None, mult=1.0, max_iter=300):
    g = pygam.ExpectileGAM(build_terms(pygam, c['mix'], c['lam'], c['ns'], mult), expectile=c['tau'] if tau is None else tau,
                           tol=1e-10, max_iter=max_iter)
    g.fit(c['X'], c['y'], weights=c['w'])
    return g


def converged(g, tol=1e-10):
    d = g.logs_.get('diffs', [])
    return len(d) > 0 and d[-1] < tol


def run_balance(ctx, pygam, idxs=None, lits=()):
    st = 'fit.balance'
    ctx.stream(st, 'converged ExpectileGAM fit: tau*sum_{r>0} w r - (1-tau)*sum_{r<=0} w|r| == sqrt(eps)*beta_0 (NumPy and model `balance` '
                   'on the exact observed residuals), 1e-7 of sum w|r|')
    ncase = 180 if ctx.tier == 'quick' else 1080
    idxs = range(ncase) if idxs is None else idxs
    evals, ops = [], []
    for i in idxs:
        c = make_case(ctx.seed, st, i, ctx.tier, taus=tau_pool(list(lits)))
        sig = case_sig(c)
        ctx.count('term mix', c['mix'])
        ctx.count('weight kind', c['wk'])
        ctx.count('tau', c['tau'] if c['tau'] in TAUS else ('extreme/literal' if (c['tau'] < 0.005 or c['tau'] > 0.995) else 'other'))

        def ev():
            g = fit_expectile(pygam, c)
            mu = np.asarray(g.predict(c['X']), dtype=float)
            w32 = eff(c['w'], c['n']).astype('f').astype(float)
            b0 = intercept_coef(g)
            return g, mu, w32, b0
        try:
            g, mu, w32, b0 = ev()
        except Exception as ex:  # noqa
            ctx.count('balance fit exception', type(ex).__name__)
            continue
        if not converged(g):
            ctx.count('balance: fit not converged (skipped)', c['mix'])
            continue
        ctx.case(st, sig, nontrivial=(c['tau'] != 0.5), sample=dict(mix=c['mix'], tau=c['tau'], wk=c['wk'], n=c['n']))
        bal = np_balance(c['tau'], w32, c['y'], mu)
        scale = float(np.sum(w32 * np.abs(c['y'] - mu))) + c['unit']
        ctx.count('balance: unit of the response', '%g' % c['unit'])
        want = SQRT_EPS * b0

        def too_far(bal, mu, w32, b0, margin):
            # absolute: 1e-7 of sum w|r| (x margin); relative to the larger of the two sides: 1e-5 (x margin) — at extreme expectiles
            # both sides are tiny compared with sum w|r| (observed on converged fits: <= 4e-8 of the larger side)
            r = c['y'] - mu
            side = max(float(c['tau'] * np.sum((w32 * r)[r > 0])), float((1 - c['tau']) * np.sum((w32 * -r)[r <= 0])))
            d = abs(bal - SQRT_EPS * b0)
            return d > margin * 1e-7 * scale or d > margin * 1e-5 * side + 1e-9 * scale
        if too_far(bal, mu, w32, b0, 10):
            g, mu, w32, b0 = ev()
            bal = np_balance(c['tau'], w32, c['y'], mu)
            if too_far(bal, mu, w32, b0, 10):
                r = c['y'] - mu
                ctx.fail(st, sig, case_replay(ctx.seed, c),
                         observed=dict(tau_pos=float(c['tau'] * np.sum((w32 * r)[r > 0])), one_minus_tau_neg=float((1 - c['tau']) * np.sum((w32 * -r)[r <= 0])),
                                       defect=bal, sqrt_eps_beta0=SQRT_EPS * b0, scale=scale),
                         expected='tau * sum_{r>0} w r == (1 - tau) * sum_{r<=0} w |r| (+ 2^-26 * intercept)',
                         oracle='NumPy on y - predict(X) of the converged fit')
                continue
        we = w_eff(c['w'], c['n'])
        evals.append((c, sig, mu, we, b0, np_balance(c['tau'], we, c['y'], mu), scale))
        ops.append('C18 balance %s %d | %s | %s | %s' % (q2s(f2q(c['tau'])), c['n'], _vec_q(we), _vec_q(c['y']), _vec_q(mu)))
    outs = ctx.driver.run(ops)
    for (c, sig, mu, w32, b0, bal, scale), line in zip(evals, outs):
        if line == 'bad-op':
            ctx.disagree(st, sig, bal, 'bad-op', '')
            continue
        mb = common.fracf(line)
        # the model's exact balance at the observed residuals: equals NumPy's up to summation rounding, and the ridge term (theorem)
        if abs(mb - bal) > 1e-10 * scale or abs(mb - SQRT_EPS * b0) > 1e-7 * scale:
            ctx.disagree(st, sig, dict(numpy=bal, ridge=SQRT_EPS * b0), mb, 'model balance vs observed (scale %g)' % scale)


def run_half_linear(ctx, pygam, idxs=None):
    st = 'half.linear'
    ctx.stream(st, 'ExpectileGAM(expectile=0.5, lam).predict vs LinearGAM(2*lam).predict on training and new points (1e-6 of the range of y)')
    ncase = 72 if ctx.tier == 'quick' else 450
    idxs = range(ncase) if idxs is None else idxs
    for i in idxs:
        # n >= 40: with fewer rows than ~2x the coefficients the sqrt(eps) ridge (which `lam` does not scale) is what
        # determines part of the solution and the two fits differ by 1e-5
        c = make_case(ctx.seed, st, i, ctx.tier, force=dict(tau=0.5, n=[40, 80, 150][i % 3]))
        sig = case_sig(c)
        ctx.case(st, sig, nontrivial=('mono' not in c['mix']))
        Xn = np.c_[c['rs'].rand(25), c['rs'].rand(25) * 2 - 1, c['rs'].randint(0, 4, 25).astype(float)]

        def ev():
            a = fit_expectile(pygam, c, tau=0.5)
            b = pygam.LinearGAM(build_terms(pygam, c['mix'], c['lam'], c['ns'], 2.0), tol=1e-10, max_iter=300).fit(c['X'], c['y'], weights=c['w'])
            b1 = pygam.LinearGAM(build_terms(pygam, c['mix'], c['lam'], c['ns'], 1.0), tol=1e-10, max_iter=300).fit(c['X'], c['y'], weights=c['w'])
            pa = np.r_[a.predict(c['X']), a.predict(Xn)]
            pb = np.r_[b.predict(c['X']), b.predict(Xn)]
            p1 = np.r_[b1.predict(c['X']), b1.predict(Xn)]
            return a, b, float(np.max(np.abs(pa - pb))), float(np.max(np.abs(pa - p1)))
        try:
            a, b, d, d1 = ev()
        except Exception as ex:  # noqa
            ctx.count('half.linear exception', type(ex).__name__)
            continue
        if not (converged(a) and converged(b)):
            ctx.count('half.linear: not converged (skipped)', c['mix'])
            continue
        scale = max(1.0, float(np.max(c['y']) - np.min(c['y'])))
        ctx.count('half.linear: same-lam LinearGAM differs by > 1e-4 (doubling is visible)', d1 > 1e-4 * scale)
        # a shape constraint enters the system as a soft penalty of fixed weight 1e9 that `lam` does not scale: doubling lam
        # does not double it, so the two fits agree only up to the slack of the soft constraint
        soft = 'mono' in c['mix']
        if soft:
            # observation only: the iteratively re-built constraint penalty is outside the statement (theorem: *all* of A doubled)
            ctx.count('half.linear: constrained term (not judged), rel. diff', '>1e-3' if d > 1e-3 * scale else ('>1e-6' if d > 1e-6 * scale else '<=1e-6'))
            continue
        tol = 1e-6
        if d > 10 * tol * scale:
            a, b, d, d1 = ev()
            if d > 10 * tol * scale:
                ctx.fail(st, sig, case_replay(ctx.seed, c), observed=dict(max_abs_diff=d, scale=scale, diff_to_same_lam=d1),
                         expected='identical predictions', oracle='ExpectileGAM(expectile=0.5, lam=L) == LinearGAM(lam=2L)')
        elif d > tol * scale:
            ctx.disagree(st, sig, d, 0.0, 'beyond %g' % tol)


def make_traced(pygam):
    class Traced(pygam.ExpectileGAM):
        """records (expectile, ratio on the data of the call, the `weights` keyword the call received, coefficients) after
        every public fit"""
        _trace = None
        _ref = None      # (X, y) as canonical float64 2-D / 1-D arrays: when set, the recorded ratio is the per-sample fraction on them

        def fit(self, X, y, weights=None):
            r = super(Traced, self).fit(X, y, weights=weights)
            if Traced._trace is not None and Traced._ref is not None:
                try:
                    seen = None if weights is None else np.array(weights, dtype=float).ravel().copy()
                except Exception:  # noqa
                    seen = 'unreadable'
                Traced._trace.append((float(self.expectile), below_fraction(self, *Traced._ref), seen, None))
            elif Traced._trace is not None:
                try:
                    seen = None if weights is None else np.array(weights, dtype=float).ravel().copy()
                except Exception:  # noqa
                    seen = 'unreadable'
                try:
                    coef = np.array(self.coef_, dtype=float).ravel().copy()
                except Exception:  # noqa
                    coef = None
                Traced._trace.append((float(self.expectile), float((np.asarray(self.predict(X)) > np.asarray(y, dtype=float)).mean()),
                                      seen, coef))
            return r
    return Traced


def below_fraction(g, Xc, yc):
    """the fraction of training targets below the prediction: one comparison per sample, on canonical arrays (NaN if the model
    does not give one finite prediction per row)"""
    try:
        mu = np.asarray(g.predict(Xc), dtype=float)
    except Exception:  # noqa
        return float('nan')
    if mu.shape != yc.shape or not np.all(np.isfinite(mu)):
        return float('nan')
    return float((mu > yc).mean())


def same_weights(seen, w, n):
    """did a fit receive the weights that were passed to fit_quantile (None and all-ones are the same fit)"""
    if isinstance(seen, str):
        return False
    a, b = eff(seen, n), eff(w, n)
    return a.shape == b.shape and bool(np.array_equal(a, b))


def replicable(X, w):
    """integer weights whose zero rows can be dropped without changing what the terms are built from (column ranges, factor
    levels): then `weights=w` must be the same fit as the unweighted fit of the data with row i repeated w_i times"""
    if w is None:
        return None
    k = np.asarray(w, dtype=float)
    if not np.all(k == np.round(k)) or np.any(k < 0) or k.sum() > 2500 or not k.any():
        return None
    keep = k > 0
    for j in range(X.shape[1]):
        if X[keep, j].min() != X[:, j].min() or X[keep, j].max() != X[:, j].max():
            return None
    if not np.array_equal(np.unique(X[keep, 2]), np.unique(X[:, 2])):
        return None
    return k.astype(int)


QUANTILES = [0.5, 0.9, 0.1, 0.25, 0.75, 0.95, 0.05, 0.99, 0.01]
TOLS = [0.01, 0.05, 0.2, 0.001, 1e-6, 0.1]
MAXITERS = [20, 1, 2, 3, 5, 10, 40]
STARTS = [0.5, 0.5, 0.25, 0.75, 0.3, 0.9, 0.0625, 0.99]


def fq_config(ctx, i, lits):
    r = ctx.subrng('fit_quantile.trace', i, 'cfg')
    q = QUANTILES[i % len(QUANTILES)] if i % 4 else round(r.uniform(0.02, 0.98), 3)
    tol = TOLS[r.randrange(len(TOLS))]
    mi = MAXITERS[r.randrange(len(MAXITERS))]
    e0 = STARTS[r.randrange(len(STARTS))]
    # literal-seeded: numeric literals of the functions under test, where they are admissible
    if i % 7 == 3:
        ql = [x for x in lits if 0 < x < 1]
        if ql:
            q = ql[r.randrange(len(ql))]
    if i % 7 == 4:
        tl = [x for x in lits if x > 0]
        if tl:
            tol = tl[r.randrange(len(tl))]
    if i % 7 == 5:
        ml = [int(x) for x in lits if x >= 1 and float(x).is_integer() and x <= 40]
        if ml:
            mi = ml[r.randrange(len(ml))]
    if i % 11 == 6:
        # a tolerance that is exactly a multiple of 1/n away: ties of |ratio - q| <= tol
        tol = [0.1, 0.05, 0.025][r.randrange(3)]
    prefit = ['no', 'no', 'same', 'other'][r.randrange(4)]
    if i % 11 == 8:
        # exactly representable ties |ratio - q| == tol: dyadic quantile and tolerance, n a multiple of 8 (see run_fit_quantile)
        q = [0.5, 0.25, 0.75, 0.625][r.randrange(4)]
        tol = [0.25, 0.125, 0.0625][r.randrange(3)]
    return q, tol, mi, e0, prefit


def eval_fq(pygam, Traced, c, q, tol, mi, e0, prefit):
    """run fit_quantile under trace; returns dict with the observed trace and the public end state"""
    g = Traced(build_terms(pygam, c['mix'], c['lam'], c['ns']), expectile=e0, tol=1e-8, max_iter=200)
    Traced._trace = None
    X, y, w = c['X'], c['y'], c['w']
    ratios = []
    if prefit == 'same':
        g.fit(X, y, weights=w)
    elif prefit == 'other':
        rs2 = np.random.RandomState(c['idx'] + 17)
        X2, y2 = gen_data(rs2, len(y), c['yk'])
        g.fit(X2, y2)
    if prefit != 'no':
        ratios.append(float((np.asarray(g.predict(X)) > y).mean()))
    Traced._trace = []
    exc = None
    try:
        ret = g.fit_quantile(X, y, quantile=q, max_iter=mi, tol=tol, weights=w)
    except Exception as ex:  # noqa
        exc = ex
        ret = None
    tr = list(Traced._trace)
    Traced._trace = None
    if prefit == 'no' and tr:
        # first traced fit is the initial fit at e0
        first = tr[0]
        ratios.append(first[1])
        refits = tr[1:]
        first_ok = (first[0] == e0)
    else:
        refits = tr
        first_ok = True
    ratios += [t[1] for t in refits]
    final_ratio = None
    fin = None
    if exc is None:
        final_ratio = float((np.asarray(g.predict(X)) > y).mean())
        fin = final_model(pygam, g, c)
    return dict(exc=exc, ret_is_self=(ret is g), expectiles=[t[0] for t in refits], ratios=ratios, final_e=float(g.expectile),
                final_ratio=final_ratio, first_ok=first_ok, n_refits=len(refits), prefit=prefit, fin=fin,
                kw_ok=[same_weights(t[2], w, len(y)) for t in tr])


def final_model(pygam, g, c):
    """what is needed to judge the model fit_quantile returned: its predictions, intercept, convergence; the predictions of an
    independent fit at the returned expectile with the same weights; and of the unweighted fit of the row-replicated data"""
    X, y, w = c['X'], c['y'], c['w']
    out = dict(conv=False, mu=None, b0=None, ref=None, rep=None, e=None)
    try:
        e = float(g.expectile)
        out.update(e=e, mu=np.asarray(g.predict(X), dtype=float), b0=intercept_coef(g), conv=converged(g, 1e-8))
        if out['mu'].shape != y.shape or not np.all(np.isfinite(out['mu'])) or out['b0'] is None or not (0 < e < 1):
            out['conv'] = False
    except Exception as ex:  # noqa
        out['err'] = type(ex).__name__
        return out
    if not out['conv']:
        return out

    def fresh():
        return pygam.ExpectileGAM(build_terms(pygam, c['mix'], c['lam'], c['ns']), expectile=e, tol=1e-8, max_iter=200)
    try:
        h = fresh().fit(X, y, weights=w)
        if converged(h, 1e-8):
            out['ref'] = np.asarray(h.predict(X), dtype=float)
    except Exception as ex:  # noqa
        out['ref_err'] = type(ex).__name__
    k = replicable(X, w)
    if k is not None and c['idx'] % 3 == 0:
        try:
            h = fresh().fit(np.repeat(X, k, axis=0), np.repeat(y, k))
            if converged(h, 1e-8):
                out['rep'] = np.asarray(h.predict(X), dtype=float)
        except Exception as ex:  # noqa
            out['rep_err'] = type(ex).__name__
    return out


def judge_final(o, c):
    """the returned model against the property, with the weights that were passed to fit_quantile (NumPy only).  Returns
    (failure, notes): failure = the weighted balance is broken (a failing input); notes = differences to the independent
    fits without a broken balance"""
    fin = o.get('fin')
    if o['exc'] is not None or fin is None or not fin['conv']:
        return None, [], 'not converged / no model'
    if o['n_refits'] == 0 and o['prefit'] == 'other':
        return None, [], 'returned the model fitted before the call (other data)'
    y, n = c['y'], c['n']
    w32 = eff(c['w'], n).astype('f').astype(float)
    mu, b0, e = fin['mu'], fin['b0'], fin['e']
    r = y - mu
    pos, neg = float(e * np.sum((w32 * r)[r > 0])), float((1 - e) * np.sum((w32 * -r)[r <= 0]))
    scale = float(np.sum(w32 * np.abs(r))) + 1.0
    d = abs(pos - neg - SQRT_EPS * b0)
    margin = 10
    fail = None
    if d > margin * 1e-7 * scale or d > margin * 1e-5 * max(pos, neg) + 1e-9 * scale:
        fail = dict(reason='the returned model does not balance the weighted residuals at its expectile', expectile=e, tau_pos=pos,
                    one_minus_tau_neg=neg, sqrt_eps_beta0=SQRT_EPS * b0, scale=scale, n_refits=o['n_refits'])
    notes = []
    ys = max(1.0, float(np.max(y) - np.min(y)))
    for key, what in (('ref', 'independent ExpectileGAM(expectile=returned).fit(X, y, weights=w)'),
                      ('rep', 'unweighted fit of the data with row i repeated w_i times')):
        if fin.get(key) is not None and fin[key].shape == mu.shape:
            dd = float(np.max(np.abs(fin[key] - mu))) / ys
            tol = 1e-6 if key == 'ref' else 1e-5
            if dd > tol:
                notes.append(dict(vs=what, max_rel_diff=dd))
    if fail is not None:
        fail['differences'] = notes
    return fail, notes, 'judged'


def oracle_fq(o, q, tol, mi, e0):
    """the property on the observed behaviour (NumPy only); returns None or a description"""
    if o['exc'] is not None:
        return dict(reason='exception', exc=type(o['exc']).__name__, msg=str(o['exc'])[:200])
    if not o['ret_is_self']:
        return dict(reason='fit_quantile did not return the model')
    if not o['first_ok']:
        return dict(reason='initial fit not at the starting expectile')
    es = [e0] + o['expectiles']
    if o['n_refits'] > mi:
        return dict(reason='more than max_iter re-fits', n=o['n_refits'])
    for k in range(o['n_refits']):
        rk = o['ratios'][k]
        if not (0.0 < es[k + 1] < 1.0):
            return dict(reason='expectile left (0,1)', step=k, expectile=es[k + 1])
        if rk < q and not es[k + 1] > es[k]:
            return dict(reason='ratio < quantile but the expectile did not increase', step=k, ratio=rk, e_from=es[k], e_to=es[k + 1])
        if not rk < q and not es[k + 1] < es[k]:
            return dict(reason='ratio >= quantile but the expectile did not decrease', step=k, ratio=rk, e_from=es[k], e_to=es[k + 1])
        if np.abs(rk - q) <= tol:
            return dict(reason='re-fitted although the ratio was within tol', step=k, ratio=rk)
    if o['final_e'] != es[-1]:
        return dict(reason='final expectile is not the last one fitted', final=o['final_e'], last=es[-1])
    within = bool(np.abs(o['final_ratio'] - q) <= tol)
    if not within and o['n_refits'] != mi:
        return dict(reason='neither within tol nor max_iter steps used', final_ratio=o['final_ratio'], n_refits=o['n_refits'])
    return None


def run_fit_quantile(ctx, pygam, lits, idxs=None):
    st = 'fit_quantile.trace'
    ctx.stream(st, 'fit_quantile traced (expectile of every re-fit, ratio of every model, final expectile, number of re-fits) vs the model '
                   'bisection driven by the observed ratios: doubles bit for bit and exact rationals; oracle: post-condition, step '
                   'directions, strictly inside (0,1), <= max_iter re-fits')
    Traced = make_traced(pygam)
    ncase = 154 if ctx.tier == 'quick' else 880
    idxs = range(ncase) if idxs is None else idxs
    evals, ops = [], []
    for i in idxs:
        force = dict(n=[12, 25, 40, 80, 150][i % 5] if i % 11 != 8 else [8, 16, 32][i % 3], ns=6)
        q, tol, mi, e0, prefit = fq_config(ctx, i, lits)
        if i % 4 == 1 and mi < 40:
            # strongly non-uniform integer weights with zeros, tied to the response (not on the 40-step searches: 40 re-fits at an
            # expectile that runs into 0 or 1 are the slowest cases and such weights slow their PIRLS down further)
            force['wk'] = 'skewint'
        c = make_case(ctx.seed, st, i, ctx.tier, force=force)
        sig = case_sig(c, q=q, tol=tol, max_iter=mi, e0=e0, prefit=prefit)
        sig.pop('tau')
        ctx.count('quantile', q if q in QUANTILES else 'other')
        ctx.count('tol', tol)
        ctx.count('max_iter', mi)
        ctx.count('start expectile', e0)
        ctx.count('prefit', prefit)
        ctx.count('fit_quantile weight kind', c['wk'])
        o = eval_fq(pygam, Traced, c, q, tol, mi, e0, prefit)
        bad = oracle_fq(o, q, tol, mi, e0)
        if bad is None:
            bad, notes, how = judge_final(o, c)
        else:
            notes, how = [], 'search already failing'
        ctx.case(st, sig, nontrivial=(o['n_refits'] > 0), sample=dict(q=q, tol=tol, max_iter=mi, e0=e0, prefit=prefit, expectiles=o['expectiles'][:6],
                                                                      ratios=o['ratios'][:6]))
        ctx.count('re-fits', o['n_refits'])
        ctx.count('returned model', how)
        uniform = c['w'] is None or bool(np.all(np.asarray(c['w']) == np.asarray(c['w'])[0]))
        if o['n_refits'] > 0:
            ctx.count('searches with >= 1 re-fit, weights', 'uniform' if uniform else 'non-uniform')
        if o['exc'] is None and o['fin'] is not None:
            ctx.count('returned model vs independent weighted fit', 'compared' if o['fin'].get('ref') is not None else 'not compared')
            ctx.count('returned model vs row-replicated fit', 'compared' if o['fin'].get('rep') is not None else 'not compared')
        if o['exc'] is None and o['final_ratio'] is not None:
            ctx.count('ended', 'within tol' if abs(o['final_ratio'] - q) <= tol else 'max_iter')
        if bad is not None:
            o2 = eval_fq(pygam, Traced, c, q, tol, mi, e0, prefit)
            bad2 = oracle_fq(o2, q, tol, mi, e0)
            if bad2 is None:
                bad2 = judge_final(o2, c)[0]
            if bad2 is not None:
                ctx.fail(st, sig, case_replay(ctx.seed, c, q=q, tol=tol, max_iter=mi, e0=e0, prefit=prefit),
                         observed=dict(bad2, expectiles=o2['expectiles'], ratios=o2['ratios'], final_ratio=o2['final_ratio'],
                                       fits_that_received_the_weights=o2['kw_ok']),
                         expected='|ratio - quantile| <= tol or max_iter steps; every step towards the target; expectiles in (0,1); the returned '
                                  'model is the weighted expectile fit at its expectile: tau * sum_{r>0} w r == (1 - tau) * sum_{r<=0} w |r| '
                                  '(+ 2^-26 * intercept) with the weights passed to fit_quantile',
                         oracle='NumPy on the trace of public fit calls, (predict(X) > y).mean() and y - predict(X) of the returned model')
                continue
        if o['exc'] is None and not all(o['kw_ok']):
            ctx.disagree(st, sig, dict(fits_that_received_the_weights=o['kw_ok']), 'every fit of the search is fit(X, y, weights=w)',
                         'a fit of the search did not receive the keywords passed to fit_quantile (model: searchLoop re-fits with `fit kw`)')
        for nt in notes:
            ctx.disagree(st, sig, nt, 'returned model == fit kw expectile (fitQuantileW_post)', 'returned model differs from the ' + nt['vs'])
        if o['exc'] is not None:
            continue
        rs = o['ratios']
        evals.append((sig, o, q, tol, mi, e0))
        ops.append('C18 bisectf %s %s %d %s | %s' % (f2bits(q), f2bits(tol), mi, f2bits(e0), _vec_b(rs)))
        ops.append('C18 bisect %s %s %d %s | %s' % (q2s(f2q(q)), q2s(f2q(tol)), mi, q2s(f2q(e0)), _vec_q(rs)))
    outs = ctx.driver.run(ops)
    for k, (sig, o, q, tol, mi, e0) in enumerate(evals):
        lf, lq = outs[2 * k], outs[2 * k + 1]
        within = bool(abs(o['final_ratio'] - q) <= tol)
        impl = dict(expectiles=o['expectiles'], final_e=o['final_e'], n=o['n_refits'])
        # doubles, bit for bit
        if '|' not in lf:
            ctx.disagree(st, sig, impl, lf, 'float model: ' + lf)
        else:
            tr, fin = lf.split('|')
            mtr = [bits2f(t) for t in tr.split()]
            lo, hi, e, nit, conv = fin.split()
            ok = (mtr == o['expectiles'] and bits2f(e) == o['final_e'] and int(nit) == o['n_refits'])
            # conv=1 means the loop left through break: then the model current at the break is the final one
            if conv == '1':
                ok = ok and within
            else:
                ok = ok and o['n_refits'] == mi
            if not ok:
                ctx.disagree(st, sig, impl, dict(expectiles=mtr, final_e=bits2f(e), n=int(nit), conv=conv), 'float model trace differs')
        # exact rationals (skipped next to a jump of the comparisons)
        near = any(abs(abs(r - q) - tol) < 1e-9 or abs(r - q) < 1e-12 for r in o['ratios'])
        if near:
            ctx.count('rational model skipped (ratio within 1e-9 of a comparison boundary)', 1)
        elif '|' not in lq:
            ctx.disagree(st, sig, impl, lq, 'rational model: ' + lq)
        else:
            tr, fin = lq.split('|')
            mtr = [Fraction(t) for t in tr.split()]
            lo, hi, e, nit, conv = fin.split()
            exact = all(f2q(a) == b for a, b in zip(o['expectiles'], mtr)) and len(mtr) == len(o['expectiles'])
            closeq = len(mtr) == len(o['expectiles']) and all(abs(a - float(b)) <= 4e-16 * max(1.0, abs(a)) for a, b in zip(o['expectiles'], mtr))
            dyadic_start = f2q(e0).denominator <= 2 ** 10
            ok = (exact if dyadic_start else closeq) and int(nit) == o['n_refits']
            ok = ok and (within if conv == '1' else o['n_refits'] == mi)
            if not ok:
                ctx.disagree(st, sig, impl, dict(expectiles=[str(x) for x in mtr], n=int(nit), conv=conv), 'rational model trace differs')
            if dyadic_start:
                ctx.count('rational model exact', 1)


FQI_Q = [0.5, 0.75, 0.25, 0.9, 0.1, 0.625, 0.4, 0.8]
FQI_TOL = [0.01, 0.05, 0.2, 0.001]
FQI_MAXITER = [1, 2, 3, 5, 8, 12]
FQI_START = [0.5, 0.25, 0.75, 0.0625, 0.875]            # dyadic: the midpoints are exact in doubles and in the rational model


def fqi_case(ctx, i):
    st = 'fit_quantile.intercept'
    r = ctx.subrng(st, i)
    rs = np.random.RandomState(r.getrandbits(32))
    n = [2, 3, 5, 8, 13, 30][r.randrange(6)]
    yk = (i // 2) % 3
    if yk == 0:
        y = rs.randint(-5, 6, n).astype(float)
    elif yk == 1:
        y = np.round(rs.randn(n) * 3, 3)
    else:
        y = rs.exponential(2.0, n)
    wk = FQ_WEIGHT_KINDS[i % len(FQ_WEIGHT_KINDS)]
    w = gen_weights(wk, n, rs, y)
    q = FQI_Q[r.randrange(len(FQI_Q))]
    tol = FQI_TOL[r.randrange(len(FQI_TOL))]
    mi = FQI_MAXITER[r.randrange(len(FQI_MAXITER))]
    e0 = FQI_START[r.randrange(len(FQI_START))]
    prefit = ['no', 'no', 'same', 'other'][r.randrange(4)]
    y2 = y[::-1] * 0.5 + 1.0 if prefit == 'other' else None
    return dict(i=i, n=n, y=y, w=w, wk=wk, q=q, tol=tol, mi=mi, e0=e0, prefit=prefit, y2=y2)


def eval_fqi(pygam, Traced, c):
    """fit_quantile of the intercept-only model under trace"""
    from pygam.terms import intercept
    n, y, w = c['n'], c['y'], c['w']
    X = np.zeros((n, 1))
    g = Traced(intercept, expectile=c['e0'], tol=1e-13, max_iter=300)
    Traced._trace = None
    out = dict(exc=None, pre=None, fits=[], coef=None, e=None, conv=False, kw_ok=[])
    try:
        if c['prefit'] == 'same':
            g.fit(X, y, weights=w)
        elif c['prefit'] == 'other':
            g.fit(X, c['y2'])
        if c['prefit'] != 'no':
            out['pre'] = float(np.asarray(g.coef_).ravel()[0])
        Traced._trace = []
        try:
            g.fit_quantile(X, y, quantile=c['q'], max_iter=c['mi'], tol=c['tol'], weights=w)
        finally:
            tr = list(Traced._trace)
            Traced._trace = None
        out['fits'] = [(t[0], None if t[3] is None or len(t[3]) != 1 else float(t[3][0])) for t in tr]
        out['kw_ok'] = [same_weights(t[2], w, n) for t in tr]
        out['coef'] = float(np.asarray(g.coef_).ravel()[0])
        out['e'] = float(g.expectile)
        out['conv'] = converged(g, 1e-13)
    except Exception as ex:  # noqa
        Traced._trace = None
        out['exc'] = ex
    return out


def fqi_balance_broken(c, o, margin=10):
    """the returned coefficient against the property with the weights that were passed (NumPy only)"""
    if o['exc'] is not None or o['coef'] is None or not o['conv'] or not np.isfinite(o['coef']) or not (0 < o['e'] < 1):
        return None
    refits = len(o['fits']) - (1 if c['prefit'] == 'no' else 0)
    if refits == 0 and c['prefit'] == 'other':
        return None
    wv = w_eff(c['w'], c['n'])
    r = c['y'] - o['coef']
    pos, neg = float(o['e'] * np.sum((wv * r)[r > 0])), float((1 - o['e']) * np.sum((wv * -r)[r <= 0]))
    sc = float(np.sum(wv * np.abs(r))) + 1.0
    d = abs(pos - neg - SQRT_EPS * o['coef'])
    if d > margin * 1e-7 * sc:
        return dict(reason='the returned intercept is not the weighted expectile of y at the reported expectile', expectile=o['e'], coef=o['coef'],
                    tau_pos=pos, one_minus_tau_neg=neg, ridge=SQRT_EPS * o['coef'], scale=sc)
    return None


def run_fq_intercept(ctx, pygam, idxs=None):
    st = 'fit_quantile.intercept'
    ctx.stream(st, 'ExpectileGAM(intercept).fit_quantile(X, y, q, max_iter, tol, weights=w) vs the model search with the fit made explicit '
                   '(fitQuantileW on interceptModelFit with the forwarded weights, exact rationals, ridge 2^-26): expectile (exact) and '
                   'coefficient (1e-8) of every re-fit, number of re-fits, returned coefficient; oracle: weighted balance of the returned '
                   'coefficient at the returned expectile')
    Traced = make_traced(pygam)
    ncase = 80 if ctx.tier == 'quick' else 640
    idxs = range(ncase) if idxs is None else idxs
    cases, ops = [], []
    for i in idxs:
        c = fqi_case(ctx, i)
        o = eval_fqi(pygam, Traced, c)
        wv = w_eff(c['w'], c['n'])
        cold = float(np.sum(wv * c['y']) / max(np.sum(wv), 1e-9))
        pre = '-'
        if c['prefit'] == 'other':
            # the model fitted before the call on other data: its coefficient is an input of the search, not something it fits
            pre = q2s(f2q(o['pre'])) if (o['pre'] is not None and np.isfinite(o['pre'])) else '-'
        ops.append('C18 searchi %s %s %d %s %s %d 200 %s | %s | %s | %s' % (
            q2s(f2q(c['q'])), q2s(f2q(c['tol'])), c['mi'], q2s(f2q(c['e0'])), q2s(Fraction(1, 2 ** 26)), c['n'], pre,
            _vec_q(wv), _vec_q(c['y']), q2s(f2q(cold))))
        cases.append((c, o))
    outs = ctx.driver.run(ops)
    for (c, o), line in zip(cases, outs):
        sig = dict(i=c['i'], n=c['n'], wk=c['wk'], q=c['q'], tol=c['tol'], max_iter=c['mi'], e0=c['e0'], prefit=c['prefit'])
        first = 1 if c['prefit'] == 'no' else 0
        refits = o['fits'][first:]
        uniform = c['w'] is None or bool(np.all(c['w'] == c['w'][0]))
        ctx.case(st, sig, nontrivial=(len(refits) > 0 and not uniform))
        ctx.count('intercept search weight kind', c['wk'])
        ctx.count('intercept search re-fits', len(refits))
        rp = dict(seed=ctx.seed, stream=st, idx=c['i'], y=c['y'].tolist(), w=None if c['w'] is None else c['w'].tolist(), q=c['q'], tol=c['tol'],
                  max_iter=c['mi'], e0=c['e0'], prefit=c['prefit'])

        def confirm():
            o2 = eval_fqi(pygam, Traced, c)
            if o2['exc'] is not None:
                return dict(reason='exception', exc=type(o2['exc']).__name__, msg=str(o2['exc'])[:200])
            return fqi_balance_broken(c, o2)
        if o['exc'] is not None:
            b2 = confirm()
            if b2 is not None and b2.get('reason') == 'exception':
                ctx.fail(st, sig, rp, observed=b2, expected='fit_quantile returns', oracle='valid arguments: no exception')
            continue
        vals = [o['e'], o['coef']] + [v for x in o['fits'] for v in x]
        if any(v is None or not np.isfinite(v) for v in vals) or not all(0 < x[0] < 1 for x in o['fits']) or not (0 < o['e'] < 1):
            o2 = eval_fqi(pygam, Traced, c)
            vals2 = [o2['e'], o2['coef']] + [v for x in o2['fits'] for v in x]
            if o2['exc'] is not None or any(v is None or not np.isfinite(v) for v in vals2) or not all(0 < x[0] < 1 for x in o2['fits']) \
                    or not (0 < o2['e'] < 1):
                ctx.fail(st, sig, rp, observed=dict(reason='expectile outside (0,1) or non-finite coefficient', fits=[list(x) for x in o2['fits']],
                                                    expectile=o2['e'], coef=o2['coef']),
                         expected='every expectile strictly inside (0,1), finite fits', oracle='trace of public fit calls')
            continue
        broken = fqi_balance_broken(c, o)
        if broken is not None:
            b2 = confirm()
            if b2 is not None:
                ctx.fail(st, sig, rp, observed=dict(b2, fits=o['fits'], fits_that_received_the_weights=o['kw_ok']),
                         expected='tau * sum_{y>b} w (y-b) == (1-tau) * sum_{y<=b} w (b-y) + 2^-26 b at the returned expectile, with the weights '
                                  'passed to fit_quantile',
                         oracle='NumPy on y - coef_ of the returned model')
                continue
        if not all(o['kw_ok']):
            ctx.disagree(st, sig, dict(fits_that_received_the_weights=o['kw_ok']), 'every fit of the search is fit(X, y, weights=w)',
                         'a fit of the search did not receive the keywords passed to fit_quantile')
        if line == 'bad-op' or line == 'ValueError' or line.count('|') != 2:
            ctx.disagree(st, sig, 'returned', line, 'model rejected / malformed')
            continue
        trs, fin, ret = [x.split() for x in line.split('|')]
        mtr = [(Fraction(trs[3 * k]), Fraction(trs[3 * k + 1]), trs[3 * k + 2] == '1') for k in range(len(trs) // 3)]
        m_e, m_n, m_conv = Fraction(fin[2]), int(fin[3]), fin[4]
        m_coef, m_cc = Fraction(ret[0]), ret[1] == '1'
        if not (m_cc and all(t[2] for t in mtr)):
            ctx.count('intercept search: model PIRLS iteration not converged (skipped)', 1)
            continue
        if not o['conv']:
            ctx.count('intercept search: pyGAM fit not converged (skipped)', 1)
            continue
        scale = max(1.0, float(np.max(np.abs(c['y']))))
        # discontinuities: a coefficient within 1e-7 of a target (the ratio jumps), a ratio on a comparison boundary
        coefs_m = [float(t[1]) for t in mtr] + [float(m_coef)] + [x[1] for x in o['fits'] if x[1] is not None]
        near = any(np.min(np.abs(c['y'] - b)) < 1e-7 * scale for b in coefs_m)
        qq, tq = f2q(c['q']), f2q(c['tol'])
        for b in coefs_m:
            k = int(np.sum(b > c['y']))
            rr, rq = float((b > c['y']).mean()), Fraction(k, c['n'])
            # the ratio k/n is rounded to a double in the code and exact in the model: skip where the two comparisons differ
            if (bool(np.abs(rr - c['q']) <= c['tol']) != (abs(rq - qq) <= tq)) or ((rr < c['q']) != (rq < qq)):
                near = True
        if near:
            ctx.count('intercept search skipped (within 1e-7 of a jump of the ratio / a comparison boundary)', 1)
            continue
        impl = dict(expectiles=[x[0] for x in refits], coefs=[x[1] for x in refits], final_e=o['e'], coef=o['coef'])
        ok = len(mtr) == len(refits) and m_n == len(refits)
        ok = ok and all(f2q(a[0]) == b[0] for a, b in zip(refits, mtr)) and f2q(o['e']) == m_e
        ok = ok and all(a[1] is not None and abs(a[1] - float(b[1])) <= 1e-8 * scale for a, b in zip(refits, mtr))
        ok = ok and abs(o['coef'] - float(m_coef)) <= 1e-8 * scale
        if not ok:
            ctx.disagree(st, sig, impl, dict(expectiles=[str(t[0]) for t in mtr], coefs=[float(t[1]) for t in mtr], final_e=str(m_e),
                                             coef=float(m_coef), n=m_n, conv=m_conv),
                         'search on the intercept-only model differs from fitQuantileW with the forwarded weights')
        else:
            ctx.count('intercept search agrees with the model', 'with re-fits' if refits else 'no re-fit')


# --------------------------------------------------------------------------------------------
# containers / shapes / dtypes in which X, y and weights are handed to fit_quantile
# --------------------------------------------------------------------------------------------
Y_FORMS = ['col', 'row', 'lol', 'list', 'int', 'col', 'tuple', 'lol']
X_FORMS = ['lol', '1d', 'int', '1dlist', 'fortran', '1dint']
W_FORMS = ['list', 'col', 'int', 'lol', 'tuple']
FQC_MIXES = ['s0+l1', 'l0+l1', 's0+s1', 'te01']


def as_form(v, form):
    """the same values in another container / shape / dtype that `fit` accepts"""
    if v is None:
        return None
    if form == 'canon':
        return v
    if form == 'col':
        return v.reshape(-1, 1)
    if form == 'row':
        return v.reshape(1, -1)
    if form == 'list':
        return v.tolist()
    if form == 'tuple':
        return tuple(v.tolist())
    if form == 'lol':
        return [[x] for x in v.tolist()] if v.ndim == 1 else v.tolist()
    if form == 'int':
        return v.astype(np.int64)
    if form == 'fortran':
        return np.asfortranarray(v)
    if form == '1d':
        return v[:, 0].copy()
    if form == '1dlist':
        return v[:, 0].tolist()
    if form == '1dint':
        return v[:, 0].astype(np.int32)
    raise KeyError(form)


def fqc_case(ctx, i):
    st = 'fit_quantile.containers'
    r = ctx.subrng(st, i)
    rs = np.random.RandomState(r.getrandbits(32))
    yform, xform, wform = Y_FORMS[i % len(Y_FORMS)], X_FORMS[i % len(X_FORMS)], W_FORMS[i % len(W_FORMS)]
    one = xform.startswith('1d')
    n = [12, 20, 30, 30][r.randrange(4)]
    # integer-valued data (exact in every integer / float dtype); the values, not the containers, define the problem
    X = np.c_[rs.randint(0, 25, n), rs.randint(-8, 9, n)].astype(float)
    X[:2, 0] = [0, 24]
    f = 3 * np.sin(X[:, 0] / 4.0) + 0.3 * X[:, 1] * (not one)
    y = np.round(4 * f + rs.randn(n) * [2, 5][r.randrange(2)])
    if yform != 'int' and r.random() < 0.6:
        y = y + np.round(rs.rand(n), 3)                    # not integer-valued unless the integer dtype is what is tested
    if one:
        X = X[:, :1].copy()
    wk = ['skewint', 'int', 'zeros'][r.randrange(3)]
    w = gen_weights(wk, n, rs, y)
    mix = 's0' if one else FQC_MIXES[r.randrange(len(FQC_MIXES))]
    q = [0.5, 0.75, 0.25, 0.9, 0.1, 0.8, 0.35][r.randrange(7)]
    tol = [0.01, 0.03, 0.001][r.randrange(3)]
    mi = [2, 3, 5, 5][r.randrange(4)]
    e0 = [0.5, 0.25, 0.75, 0.3][r.randrange(4)]
    prefit = ['no', 'no', 'same'][r.randrange(3)]
    lam = [0.6, 5.0][r.randrange(2)]
    return dict(i=i, n=n, X=X, y=y, w=w, wk=wk, mix=mix, q=q, tol=tol, mi=mi, e0=e0, prefit=prefit, lam=lam,
                yform=yform, xform=xform, wform=wform)


def eval_fqc(pygam, Traced, c, yform, xform, wform):
    """fit_quantile with the arguments in the given forms, traced on the canonical arrays: the recorded ratios are the per-sample
    below-fractions of the values, whatever shape the library compares internally"""
    Xc, yc, wc = c['X'], c['y'], c['w']
    Xv, yv, wv = as_form(Xc, xform), as_form(yc, yform), as_form(wc, wform)
    g = Traced(build_terms(pygam, c['mix'], c['lam'], 6), expectile=c['e0'], tol=1e-8, max_iter=200)
    Traced._trace, Traced._ref = None, (Xc, yc)
    ratios, exc, ret, tr = [], None, None, []
    try:
        if c['prefit'] == 'same':
            g.fit(Xc, yc, weights=wc)
            ratios.append(below_fraction(g, Xc, yc))
        Traced._trace = []
        try:
            ret = g.fit_quantile(Xv, yv, quantile=c['q'], max_iter=c['mi'], tol=c['tol'], weights=wv)
        finally:
            tr = list(Traced._trace or [])
    except Exception as ex:  # noqa
        exc = ex
    finally:
        Traced._trace, Traced._ref = None, None
    first_ok = True
    if c['prefit'] == 'no' and tr:
        first_ok = (tr[0][0] == c['e0'])
        ratios.append(tr[0][1])
        refits = tr[1:]
    else:
        refits = tr
    ratios += [t[1] for t in refits]
    out = dict(exc=exc, ret_is_self=(ret is g), expectiles=[t[0] for t in refits], ratios=ratios, first_ok=first_ok, n_refits=len(refits),
               final_e=None, final_ratio=None, mu=None, kw_ok=[same_weights(t[2], wc, c['n']) for t in tr])
    if exc is None:
        try:
            out['final_e'] = float(g.expectile)
            out['final_ratio'] = below_fraction(g, Xc, yc)
            out['mu'] = np.asarray(g.predict(Xc), dtype=float)
        except Exception as ex:  # noqa
            out['exc'] = ex
    return out


def fit_accepts(pygam, c, yform, xform, wform):
    try:
        pygam.ExpectileGAM(build_terms(pygam, c['mix'], c['lam'], 6), expectile=c['e0'], tol=1e-8, max_iter=200).fit(
            as_form(c['X'], xform), as_form(c['y'], yform), weights=as_form(c['w'], wform))
        return True
    except Exception:  # noqa
        return False


def same_search(a, b, scale):
    if (a['exc'] is None) != (b['exc'] is None):
        return False
    if a['exc'] is not None:
        return type(a['exc']) is type(b['exc'])
    if a['expectiles'] != b['expectiles'] or a['final_e'] != b['final_e'] or a['n_refits'] != b['n_refits']:
        return False
    if len(a['ratios']) != len(b['ratios']) or any(x != y for x, y in zip(a['ratios'], b['ratios'])):
        return False
    if a['mu'] is None or b['mu'] is None or a['mu'].shape != b['mu'].shape:
        return False
    return bool(np.all(np.abs(a['mu'] - b['mu']) <= 1e-9 * scale))


def run_fq_containers(ctx, pygam, idxs=None):
    st = 'fit_quantile.containers'
    ctx.stream(st, 'fit_quantile(X, y, q, weights=w) with y as (n,1) / (1,n) / list / list of lists / tuple / integer dtype, X as list of lists / '
                   '1-D array or list (single feature) / integer dtype / Fortran order, weights as list / (n,1) / list of lists / tuple / integer '
                   'dtype vs the same call on canonical float64 arrays of the same values: expectile of every re-fit and returned expectile '
                   '(exact), per-sample ratio of every model (exact), predictions (1e-9); the trace of every variant vs the model bisection '
                   '(doubles, bit for bit) driven by the per-sample ratios; oracle: post-condition and step directions with the per-sample '
                   'fraction of targets below the prediction')
    Traced = make_traced(pygam)
    ncase = 18 if ctx.tier == 'quick' else 240
    idxs = range(ncase) if idxs is None else idxs
    evals, ops = [], []
    for i in idxs:
        c = fqc_case(ctx, i)
        q, tol, mi, e0 = c['q'], c['tol'], c['mi'], c['e0']
        scale = max(1.0, float(np.max(c['y']) - np.min(c['y'])))
        runs = [('canon', 'canon', 'canon'), (c['yform'], 'canon', 'canon'), ('canon', c['xform'], c['wform'])]
        canon = None
        for (yf, xf, wf) in runs:
            sig = dict(i=c['i'], mix=c['mix'], n=c['n'], wk=c['wk'], q=q, tol=tol, max_iter=mi, e0=e0, prefit=c['prefit'], y=yf, X=xf, w=wf)
            rp = dict(seed=ctx.seed, stream=st, idx=c['i'], forms=dict(y=yf, X=xf, w=wf), q=q, tol=tol, max_iter=mi, e0=e0, prefit=c['prefit'],
                      mix=c['mix'], lam=c['lam'], X=c['X'].tolist(), y=c['y'].tolist(), w=c['w'].tolist())
            o = eval_fqc(pygam, Traced, c, yf, xf, wf)
            ctx.case(st, sig, nontrivial=(yf, xf, wf) != ('canon', 'canon', 'canon') and o['n_refits'] > 0)
            ctx.count('container of y', yf)
            ctx.count('container of X', xf)
            ctx.count('container of weights', wf)
            ctx.count('containers: re-fits', o['n_refits'])
            if canon is None and (yf, xf, wf) == ('canon', 'canon', 'canon'):
                canon = o
            bad = oracle_fq(o, q, tol, mi, e0)
            if bad is not None:
                o2 = eval_fqc(pygam, Traced, c, yf, xf, wf)
                bad2 = oracle_fq(o2, q, tol, mi, e0)
                if bad2 is not None and bad2.get('reason') == 'exception' and not fit_accepts(pygam, c, yf, xf, wf):
                    ctx.count('containers: form rejected by fit and by fit_quantile (not judged)', '%s/%s/%s' % (yf, xf, wf))
                    continue
                if bad2 is not None:
                    ctx.fail(st, sig, rp, observed=dict(bad2, expectiles=o2['expectiles'], per_sample_ratios=o2['ratios'],
                                                        final_ratio=o2['final_ratio'], final_expectile=o2['final_e'],
                                                        canonical=None if canon is None or canon is o else
                                                        dict(expectiles=canon['expectiles'], per_sample_ratios=canon['ratios'],
                                                             final_expectile=canon['final_e'])),
                             expected='|fraction of targets below the prediction - quantile| <= tol or max_iter steps; every step towards the '
                                      'target; the same search as with canonical float64 arrays of the same values',
                             oracle='NumPy: (predict(X) > y).mean() per sample on the flat values, on the trace of public fit calls')
                    continue
            if o['exc'] is not None:
                continue
            if canon is not None and o is not canon and not same_search(o, canon, scale):
                ctx.disagree(st, sig, dict(expectiles=o['expectiles'], ratios=o['ratios'], final_e=o['final_e']),
                             dict(expectiles=canon['expectiles'], ratios=canon['ratios'], final_e=canon['final_e']),
                             'the search depends on the container / shape / dtype of the arguments')
            if not all(o['kw_ok']):
                ctx.disagree(st, sig, dict(fits_that_received_the_weights=o['kw_ok']), 'every fit of the search is fit(X, y, weights=w)',
                             'a fit of the search did not receive the values of the weights passed to fit_quantile')
            if any(not np.isfinite(x) for x in o['ratios'] + [o['final_ratio']]):
                ctx.disagree(st, sig, o['ratios'], 'one finite prediction per row', 'predict on the canonical X is not a finite vector of length n')
                continue
            evals.append((sig, o, q, tol, mi, e0))
            ops.append('C18 bisectf %s %s %d %s | %s' % (f2bits(q), f2bits(tol), mi, f2bits(e0), _vec_b(o['ratios'])))
    outs = ctx.driver.run(ops)
    for (sig, o, q, tol, mi, e0), lf in zip(evals, outs):
        within = bool(abs(o['final_ratio'] - q) <= tol)
        impl = dict(expectiles=o['expectiles'], final_e=o['final_e'], n=o['n_refits'])
        if '|' not in lf:
            ctx.disagree(st, sig, impl, lf, 'float model: ' + lf)
            continue
        tr, fin = lf.split('|')
        mtr = [bits2f(t) for t in tr.split()]
        lo, hi, e, nit, conv = fin.split()
        ok = (mtr == o['expectiles'] and bits2f(e) == o['final_e'] and int(nit) == o['n_refits'])
        ok = ok and (within if conv == '1' else o['n_refits'] == mi)
        if not ok:
            ctx.disagree(st, sig, impl, dict(expectiles=mtr, final_e=bits2f(e), n=int(nit), conv=conv),
                         'trace differs from the model bisection driven by the per-sample ratios')


def run_malformed(ctx, pygam, lits):
    st = 'malformed'
    ctx.stream(st, 'fit_quantile(quantile, tol, max_iter) argument rejection and ExpectileGAM(expectile) range check vs model (exception class / accepted)')
    from pygam import s
    r = ctx.subrng(st)
    rs = np.random.RandomState(r.getrandbits(32))
    X, y = gen_data(rs, 30, 'normal')
    qs = [0.0, 1.0, -0.1, 1.5, 1e-9, 1 - 1e-9, 0.5, -1e-300, 1 + 1e-15, 5e-324] + [x for x in lits] + [-x for x in lits]
    tols = [0.0, -1e-9, -1.0, 1e-300, 0.01, 1.0, 5e-324] + [x for x in lits]
    mis = [0, -1, -20, 1, 2]
    cases = []
    for q in qs:
        cases.append((q, 0.01, 2))
    for t in tols:
        cases.append((0.5, t, 2))
    for m in mis:
        cases.append((0.5, 0.01, m))
    for _ in range(20 if ctx.tier == 'quick' else 200):
        cases.append((r.choice(qs), r.choice(tols), r.choice(mis)))
    ops = ['C18 bisect %s %s %d 1/2 | %s' % (q2s(f2q(q)), q2s(f2q(t)), m, ' '.join(['1/2'] * 3)) for (q, t, m) in cases]
    es = [0.0, 1.0, -0.5, 2.0, 1e-9, 1 - 1e-9, 0.5, 5e-324, 1 + 1e-15, -1e-300] + [x for x in lits] + [1 - x for x in lits if x < 1]
    ops += ['C18 valid %s' % q2s(f2q(e)) for e in es]
    outs = ctx.driver.run(ops)
    for (q, t, m), line in zip(cases, outs[:len(cases)]):
        sig = dict(kind='fit_quantile', q=q, tol=t, max_iter=m)
        ctx.case(st, sig, nontrivial=True)
        g = pygam.ExpectileGAM(s(0, n_splines=5), max_iter=20)
        try:
            g.fit_quantile(X, y, quantile=q, tol=t, max_iter=m)
            impl = 'ok'
        except Exception as ex:  # noqa
            impl = type(ex).__name__
        model = 'ValueError' if line == 'ValueError' else ('ok' if '|' in line else line)
        want = 'ok' if (0 < q < 1 and t > 0 and m > 0) else 'ValueError'
        ctx.count('malformed outcome', impl)
        if impl != want:
            ctx.fail(st, sig, dict(quantile=q, tol=t, max_iter=m), observed=impl, expected=want,
                     oracle='ValueError iff quantile not in (0,1) or tol <= 0 or max_iter <= 0')
        elif impl != model:
            ctx.disagree(st, sig, impl, model, 'argument check differs from the model')
    for e, line in zip(es, outs[len(cases):]):
        sig = dict(kind='expectile', e=e)
        ctx.case(st, sig, nontrivial=True)
        try:
            pygam.ExpectileGAM(s(0, n_splines=5), expectile=e, max_iter=5).fit(X, y)
            impl = 'ok'
        except Exception as ex:  # noqa
            impl = type(ex).__name__
        want = 'ok' if 0 < e < 1 else 'ValueError'
        if impl == 'OptimizationError' and want == 'ok':
            # the range check accepted the value; the fit that follows failed numerically (an expectile of 5e-324 makes every
            # working weight underflow) — an optimisation failure on an admissible parameter is not a rejection of the parameter
            ctx.count('malformed: admissible expectile, fit failed numerically', '%g' % e)
            impl = 'ok'
        if impl != want:
            ctx.fail(st, sig, dict(expectile=e), observed=impl, expected=want, oracle='ValueError iff expectile not in (0,1)')
        elif impl != line:
            ctx.disagree(st, sig, impl, line, 'expectile range check differs from the model')


# --------------------------------------------------------------------------------------------
def run(ctx):
    with contextlib.redirect_stdout(io.StringIO()):
        _run(ctx)


def _run(ctx):
    pygam = common.import_pygam()
    lits = harvest_literals(pygam)
    ctx.extra['rule'] = ('fits: sweep of 9 term mixes x 9+random expectiles x weight kind x n x lam x response kind; fit_quantile: quantile x tol x '
                         'max_iter x starting expectile x prefit (no / same data / other data) x data; distinct = distinct (stream, '
                         'configuration+index) signatures; non-trivial = expectile != 0.5 (balance), at least one re-fit (fit_quantile), at least one re-fit with non-uniform weights '
                         '(fit_quantile.intercept); fit_quantile streams: every 4th case has strongly non-uniform integer weights with zeros')
    ctx.extra['literals'] = lits
    ctx.partial.append('IEEE rounding of (max_ + min_) / 2: theorems are over exact ordered fields; the float trace is compared bit for bit with the '
                       'same definitions at Float for max_iter <= 40 (strict betweenness fails in doubles once min_ and max_ are adjacent)')
    ctx.partial.append('expectile_balance holds with the ridge term A00*beta0 (= 2^-26 * intercept in the code); it is not claimed to vanish')
    ctx.assumptions.append('a fit whose last recorded PIRLS diff is < 1e-10 is treated as a fixed point of the PIRLS map (C01/C20)')
    run_np_balance(ctx, lits)
    run_malformed(ctx, pygam, lits)
    run_intercept(ctx, pygam, lits=lits)
    run_balance(ctx, pygam, lits=lits)
    run_half_linear(ctx, pygam)
    run_fit_quantile(ctx, pygam, lits)
    run_fq_intercept(ctx, pygam)
    run_fq_containers(ctx, pygam)


def replay(ctx, rp):
    with contextlib.redirect_stdout(io.StringIO()):
        _replay(ctx, rp)


def _replay(ctx, rp):
    pygam = common.import_pygam()
    lits = harvest_literals(pygam)
    case = rp.get('case', {})
    st = rp.get('stream') or case.get('stream')
    ctx.seed = case.get('seed', rp.get('seed', ctx.seed))
    ctx.tier = rp.get('tier', ctx.tier)
    if st == 'fit.balance' and 'idx' in case:
        run_balance(ctx, pygam, idxs=[case['idx']], lits=lits)
    elif st == 'half.linear' and 'idx' in case:
        run_half_linear(ctx, pygam, idxs=[case['idx']])
    elif st == 'fit_quantile.trace' and 'idx' in case:
        run_fit_quantile(ctx, pygam, lits, idxs=[case['idx']])
    elif st == 'fit_quantile.containers' and 'idx' in case:
        run_fq_containers(ctx, pygam, idxs=[case['idx']])
    elif st == 'fit_quantile.intercept' and 'idx' in case:
        run_fq_intercept(ctx, pygam, idxs=[case['idx']])
    elif st == 'intercept.fixed-point' and 'idx' in case:
        run_intercept(ctx, pygam, idxs=[case['idx']], lits=lits)
    else:
        _run(ctx)
