"""
C06 — each family's variance function, deviance, log-density, scale and sampler agree.

Theorems: lean/PyGam/Props/C06.lean (over R, uniformly in the family: deviance >= 0, = 0 iff y = mu, derivative
-2 (y - mu) / V(mu) incl. the boundary counts, deviance = 2 scale (loglik at saturated mean - loglik at mu) for every
scale > 0, weights multiply the deviance / divide V, sampler arguments have documented moments (mu, scale V(mu)), phi).

Correspondence (Float instance of the same definitions, lean/PyGam/Model/Dists.lean, run by the driver):
  dist.V            Distribution.V(mu, weights)                        vs varFnW
  dist.deviance     Distribution.deviance(y, mu, scaled in {T,F}, w)   vs deviance
  dist.log_pdf.diff log_pdf(y, y, w) - log_pdf(y, mu, w)               vs logKernel differences (normalisers cancel)
  dist.phi          Distribution.phi(y, mu, edof, weights)             vs phi
  dist.sample.args  arguments received by numpy.random.{normal,binomial,poisson,gamma,wald} vs samplerParams (exact)
  dist.sample.draws seeded real draws: sample mean / variance vs (mu, scale V(mu)) with 8-sigma bounds (supporting)
Boundary of the support (oracle only, deterministic, every run):
  dist.log_pdf.boundary  Poisson y = 0, binomial y = 0 / y = levels (levels > 1 too), float and integer counts, alone and mixed with
                    interior observations, weights None / ones / 0.5 / 3 / mixed; continuous families at y = mu of extreme magnitude:
                    log_pdf(y, mu = y) (the saturated mean sits on the boundary: 0 log 0) and log_pdf(y, mu) vs closed forms written
                    with scipy.special only, = 0 on the boundary whatever the weights, the deviance identity and deviance(y, y) = 0
Histories (the values above are functions of (family, scale, y, mu, weights) only — Model/DistState.lean for the one piece of
state there is, (`_known_scale`, `scale`)):
  dist.purity       every method, each twice in random order, on the SAME y / mu / weights arrays (float64, int64, read-only,
                    strided) and one distribution object: arguments bit-for-bit unchanged, value = the same call on fresh copies
                    with a new object; V and deviance in mid-history vs the model
  dist.phi.history  one object through 2-5 estimates, each stored in `.scale` as GAM._estimate_model_statistics does:
                    phi = Pearson / (n - edof) of the current data, or the scale supplied to the constructor; vs phiAt / estimateHistory
  gam.scale.history one GAM object fitted 2-3 times on different data: statistics_['scale'] of each fit vs Pearson / (n - edof)
                    of that fit (NumPy on predict_mu, statistics_['edof']) and vs estimateHistory

Oracle on the real code (NumPy only, independent of the model): non-negativity, zero at y = mu, central finite-difference
derivative vs -2 (y - mu) / (scale V(mu, w)) with the class's own V, saturated-likelihood identity with the class's own
log_pdf, weights multiply / divide, scaled = unscaled / scale, Pearson estimate, documented sampler moments.
"""
import ast
import contextlib
import inspect
import io
import math

import numpy as np

from harness import common
from harness.common import f2bits, bits2f

FAMS = ['normal', 'binomial', 'poisson', 'gamma', 'inv_gauss']
FREE_SCALE = ('normal', 'gamma', 'inv_gauss')
MAX_FAILS = 12            # per run: the first failing inputs are enough for a replay
EPS = 2.0 ** -52


# ------------------------------------------------------------------------------------------------
# helpers
# ------------------------------------------------------------------------------------------------
def make_dist(D, fam, scale, levels):
    cls = D.DISTRIBUTIONS[fam]
    if fam == 'binomial':
        return cls(levels=levels)
    if fam == 'poisson':
        return cls()
    return cls(scale=scale)


def eff_scale(fam, scale):
    return 1.0 if fam in ('binomial', 'poisson') else scale


def V_ref(fam, levels, mu):
    """the textbook variance functions (oracle side, independent of pyGAM and of the model)"""
    mu = np.asarray(mu, dtype=float)
    if fam == 'normal':
        return np.ones_like(mu)
    if fam == 'binomial':
        return mu * (levels - mu) / levels
    if fam == 'poisson':
        return mu
    if fam == 'gamma':
        return mu ** 2
    return mu ** 3


def _xlogx_ratio(y, u):
    with np.errstate(all='ignore'):
        return np.where(y == 0, 0.0, np.abs(y * np.log(np.where(y == 0, 1.0, y) / u)))


def dev_magnitude(fam, levels, y, mu):
    """sum of the absolute values of the terms of the unit deviance: the scale of its rounding error"""
    with np.errstate(all='ignore'):
        if fam == 'normal':
            return (y - mu) ** 2 + EPS * (np.abs(y) + np.abs(mu)) ** 2
        if fam == 'binomial':
            return 2 * (_xlogx_ratio(y, mu) + _xlogx_ratio(levels - y, levels - mu)) + EPS * levels
        if fam == 'poisson':
            return 2 * (_xlogx_ratio(y, mu) + np.abs(y - mu))
        if fam == 'gamma':
            return 2 * (np.abs((y - mu) / mu) + np.abs(np.log(y / mu)))
        return ((y - mu) ** 2) / (mu ** 2 * y) + EPS * (y / mu ** 2 + 2 / mu + 1 / y)


def dev_abs_roundoff(fam, levels, y, mu, boundary=False):
    """absolute rounding error of the unit deviance that is *not* proportional to its terms: the argument of a log
    is rounded to 1 ulp (relative), which moves `c * log(arg)` by `c * ulp` however small the log is.
    `boundary=True` adds the conditioning of `1 - mu/levels` resp. `levels - mu` (binomial, mu -> levels), which the
    deviance and scipy's log1p evaluate differently."""
    with np.errstate(all='ignore'):
        if fam == 'binomial':
            e = levels + 0 * y
            if boundary:
                e = e + (levels - y) * levels / (levels - mu)
        elif fam == 'poisson':
            e = y
        elif fam == 'gamma':
            e = 1.0 + 0 * y
        elif fam == 'inv_gauss' and boundary:
            # scipy forms (x - m) / m from the already rounded x = y / g, m = mu / g: relative error ulp * y / |y - mu|
            e = np.where(y == mu, 0.0, (np.abs(y) + np.abs(mu)) / np.abs(y - mu) * ((y - mu) ** 2) / (mu ** 2 * y))
        else:
            e = 0 * y
        return 64 * EPS * e


def deriv_scale(fam, levels, y, mu):
    """sum of the absolute values of the terms of d(unit deviance)/d mu"""
    with np.errstate(all='ignore'):
        if fam == 'normal':
            return 2 * (np.abs(y) + np.abs(mu))
        if fam == 'binomial':
            return 2 * (y / mu + (levels - y) / (levels - mu))
        if fam == 'poisson':
            return 2 * (1 + y / mu)
        if fam == 'gamma':
            return 2 * (y / mu ** 2 + 1 / mu)
        return 2 * (y / mu ** 3 + 1 / mu ** 2)


def fd_eligible(fam, levels, y, mu):
    with np.errstate(all='ignore'):
        if fam == 'normal':
            return np.ones_like(mu, dtype=bool)
        if fam == 'binomial':
            p = mu / levels
            return (p >= 1e-3) & (p <= 1 - 1e-3)
        r = y / mu
        return (y == 0) | ((r >= 1e-4) & (r <= 1e4))


def fd_step(fam, levels, y, mu):
    if fam == 'normal':
        s = np.abs(y) + np.abs(mu)
        return 1e-4 * np.where(s == 0, 1.0, s)
    if fam == 'binomial':
        return 1e-4 * np.minimum(mu, levels - mu)
    return 1e-4 * mu


def loguni(rng, lo, hi):
    return math.exp(rng.uniform(math.log(lo), math.log(hi)))


def harvest_literals(D):
    import pygam.utils as U
    lits = set()
    for src in (inspect.getsource(D), inspect.getsource(U.ylogydu)):
        for node in ast.walk(ast.parse(src)):
            if isinstance(node, ast.Constant) and isinstance(node.value, (int, float)) and not isinstance(node.value, bool):
                v = float(node.value)
                if v == 0 or 1e-12 <= abs(v) <= 1e12:       # the range the generators cover anyway
                    lits.add(v)
    return sorted(lits | {0.0, 1.0})


def neighbours(v):
    out = [v, np.nextafter(v, np.inf), np.nextafter(v, -np.inf), v * (1 + 1e-6), v * (1 - 1e-6)]
    return [float(x) for x in out]


def rel_err(a, b, scale):
    with np.errstate(all='ignore'):
        e = np.abs(a - b) / scale
    e = np.where((a == b) | (np.isnan(a) & np.isnan(b)), 0.0, e)
    return np.where(np.isnan(e), np.inf, e)


def _arr(x):
    return np.asarray(x, dtype=float).copy()


# ------------------------------------------------------------------------------------------------
# generators
# ------------------------------------------------------------------------------------------------
def gen_point(rng, fam, levels, lits):
    """one (y, mu) in the support x mean domain, with boundary values, near-equal pairs and literal neighbours"""
    u = rng.random()
    if fam == 'normal':
        def val():
            k = rng.random()
            if k < 0.1:
                return 0.0
            if k < 0.25:
                return rng.choice([-1, 1]) * rng.choice(neighbours(rng.choice(lits) or 1.0))
            hi = 1e12 if k < 0.35 else 1e6
            return rng.choice([-1, 1]) * loguni(rng, 1 / hi, hi)
        mu = val()
        if u < 0.1:
            y = mu
        elif u < 0.3:
            y = mu + rng.choice([-1, 1]) * loguni(rng, 1e-8, 1e2) * (abs(mu) + 1e-3)
        else:
            y = val()
        return y, mu
    if fam == 'binomial':
        n = float(levels)
        k = rng.random()
        if k < 0.75:
            y = float(rng.randint(0, levels))
        elif k < 0.85:
            y = float(rng.choice([0, levels]))
        else:
            y = n * rng.random()              # deviance / V are defined for fractional y too
        k = rng.random()
        if k < 0.2:
            p = loguni(rng, 1e-10, 0.5)
        elif k < 0.4:
            p = 1 - loguni(rng, 1e-10, 0.5)
        elif k < 0.5 and 0 < y < n:
            p = y / n
        elif k < 0.6:
            p = min(max(rng.choice(neighbours(0.5)), 1e-9), 1 - 1e-9)
        else:
            p = rng.uniform(0.001, 0.999)
        mu = n * p
        if not (0 < mu < n):
            mu = n * 0.5
        return y, mu
    if fam == 'poisson':
        k = rng.random()
        if k < 0.15:
            mu = float(rng.choice(neighbours(rng.choice([x for x in lits if x > 0]))))
        elif k < 0.3:
            mu = float(rng.randint(1, 50))
        else:
            mu = loguni(rng, 1e-8, 1e6)
        k = rng.random()
        if k < 0.2:
            y = 0.0
        elif k < 0.35:
            y = float(rng.randint(1, 3))
        elif k < 0.6:
            y = float(max(0, int(round(mu + rng.gauss(0, 1) * math.sqrt(mu)))))
        elif k < 0.7:
            y = float(round(mu)) if mu >= 1 else 1.0
        else:
            y = float(int(loguni(rng, 1, 1e6)))
        return y, mu
    # gamma, inverse gaussian: y > 0, mu > 0
    k = rng.random()
    if k < 0.15:
        mu = float(rng.choice(neighbours(rng.choice([x for x in lits if x > 0]))))
    elif k < 0.25:
        mu = loguni(rng, 1e-12, 1e12)
    else:
        mu = loguni(rng, 1e-6, 1e6)
    k = rng.random()
    if k < 0.1:
        y = mu
    elif k < 0.25:
        y = mu * (1 + rng.choice([-1, 1]) * loguni(rng, 1e-9, 1e-2))
    elif k < 0.8:
        y = mu * loguni(rng, 1e-4, 1e4)
    elif k < 0.9:
        y = float(rng.choice(neighbours(rng.choice([x for x in lits if x > 0]))))
    else:
        y = loguni(rng, 1e-8, 1e8)
    return y, mu


def gen_weight(rng, lits):
    k = rng.random()
    if k < 0.3:
        return None
    if k < 0.4:
        return float(rng.choice(neighbours(rng.choice([x for x in lits if x > 0]))))
    if k < 0.5:
        return float(rng.randint(1, 9))
    return loguni(rng, 1e-3, 1e3)


def gen_scales(rng, fam, lits, n_random):
    if fam not in FREE_SCALE:
        return [1.0]
    out = [0.3, 1.0, 2.5, 0.25]
    out += [x for x in lits if x > 0 and x not in out]
    for _ in range(n_random):
        out.append(loguni(rng, 1e-3, 1e3))
    out.append(float(np.nextafter(1.0, 2.0)))
    return out


def gen_blocks(ctx, D):
    lits = harvest_literals(D)
    ctx.extra['harvested_literals'] = lits
    quick = ctx.tier == 'quick'
    n_cases = 1200 if quick else 4000
    boost = dict(binomial=3, poisson=8)      # families without a scale axis get more points per block
    blocks = []
    for fam in FAMS:
        rng = ctx.subrng('blocks', fam)
        level_list = ([1, 2, 5] if quick else [1, 2, 5, 17, 100]) if fam == 'binomial' else [1]
        for levels in level_list:
            for scale in gen_scales(rng, fam, lits, 3 if quick else 12):
                cases = []
                for _ in range(n_cases * boost.get(fam, 1)):
                    y, mu = gen_point(rng, fam, levels, lits)
                    cases.append((float(y), float(mu), gen_weight(rng, lits)))
                blocks.append(dict(fam=fam, levels=levels, scale=float(scale), cases=cases))
    return blocks


# ------------------------------------------------------------------------------------------------
# point streams: V, deviance, log_pdf differences + the oracle sweep
# ------------------------------------------------------------------------------------------------
def block_lines(b):
    fam, levels, scale = b['fam'], b['levels'], b['scale']
    return ['C06 all %s %s %s %s %s %s' % (fam, f2bits(levels), f2bits(scale), f2bits(1.0 if w is None else w),
                                           f2bits(y), f2bits(mu)) for (y, mu, w) in b['cases']]


def call_impl(D, fam, scale, levels, y, mu, w):
    """every public call needed for one group of cases sharing (family, scale, levels) and weights-None-ness.
    `w` is None (the weights=None default path) or an array."""
    dist = make_dist(D, fam, scale, levels)
    kw = {} if w is None else dict(weights=_arr(w))
    r = {}
    r['V'] = np.asarray(dist.V(_arr(mu), **kw), dtype=float)
    r['V0'] = np.asarray(dist.V(_arr(mu)), dtype=float)
    r['dev_u'] = np.asarray(dist.deviance(_arr(y), _arr(mu), scaled=False, **kw), dtype=float)
    r['dev_s'] = np.asarray(dist.deviance(_arr(y), _arr(mu), scaled=True, **kw), dtype=float)
    r['dev_default'] = np.asarray(dist.deviance(_arr(y), _arr(mu), **kw), dtype=float)      # scaled defaults to True
    r['dev_s0'] = np.asarray(dist.deviance(_arr(y), _arr(mu), scaled=True), dtype=float)
    r['dev_yy'] = np.asarray(dist.deviance(_arr(y), _arr(y), scaled=True, **kw), dtype=float)
    r['lp_yy'] = np.asarray(dist.log_pdf(_arr(y), _arr(y), **kw), dtype=float)
    r['lp_ymu'] = np.asarray(dist.log_pdf(_arr(y), _arr(mu), **kw), dtype=float)
    h = fd_step(fam, levels, y, mu)
    mp, mm = mu + h, mu - h
    r['mp'], r['mm'] = mp, mm
    r['dev_p'] = np.asarray(dist.deviance(_arr(y), _arr(mp), scaled=True, **kw), dtype=float)
    r['dev_m'] = np.asarray(dist.deviance(_arr(y), _arr(mm), scaled=True, **kw), dtype=float)
    return r


def point_case(b, i):
    y, mu, w = b['cases'][i]
    return dict(kind='point', fam=b['fam'], levels=b['levels'], scale=b['scale'], scale_bits=f2bits(b['scale']),
                y=y, mu=mu, w=w, y_bits=f2bits(y), mu_bits=f2bits(mu), w_bits=None if w is None else f2bits(w),
                call="%sDist(%s)" % (b['fam'], 'levels=%d' % b['levels'] if b['fam'] == 'binomial'
                                     else ('' if b['fam'] == 'poisson' else 'scale=%r' % b['scale'])))


def check_block(ctx, D, b, outs, state):
    fam, levels, scale = b['fam'], b['levels'], b['scale']
    s_eff = eff_scale(fam, scale)
    cases = b['cases']
    n = len(cases)
    model = np.array([[bits2f(t) for t in o.split()] if o != 'bad-op' else [np.nan] * 5 for o in outs], dtype=float)
    mV, mDu, mDs, mKyy, mKymu = model.T
    y = np.array([c[0] for c in cases]); mu = np.array([c[1] for c in cases])
    wopt = [c[2] for c in cases]
    wnum = np.array([1.0 if w is None else w for w in wopt])
    none_idx = np.array([i for i in range(n) if wopt[i] is None], dtype=int)
    arr_idx = np.array([i for i in range(n) if wopt[i] is not None], dtype=int)

    keys = ['V', 'V0', 'dev_u', 'dev_s', 'dev_default', 'dev_s0', 'dev_yy', 'lp_yy', 'lp_ymu', 'mp', 'mm', 'dev_p', 'dev_m']
    R = {k: np.full(n, np.nan) for k in keys}
    for idx, use_w in ((none_idx, False), (arr_idx, True)):
        if len(idx) == 0:
            continue
        try:
            with np.errstate(all='ignore'):
                r = call_impl(D, fam, scale, levels, y[idx], mu[idx], wnum[idx] if use_w else None)
            for k in keys:
                if r[k].shape != (len(idx),):
                    raise ValueError('result %s has shape %r for %d inputs' % (k, r[k].shape, len(idx)))
                R[k][idx] = r[k]
        except Exception as e:  # an exception on valid inputs is itself a failure of the property
            if state['fails'] < MAX_FAILS:
                state['fails'] += 1
                i = int(idx[0])
                ctx.fail('oracle.identities', dict(fam=fam, check='exception', exc=type(e).__name__),
                         dict(point_case(b, i), n_in_group=len(idx), weights_given=use_w),
                         observed='%s: %s' % (type(e).__name__, e), expected='V / deviance / log_pdf return arrays',
                         oracle='public calls on valid (y, mu, weights)')
            return

    mag_u = dev_magnitude(fam, levels, y, mu) * wnum
    mag_s = mag_u / s_eff
    Dd = deriv_scale(fam, levels, y, mu) * wnum / s_eff
    ab_u = dev_abs_roundoff(fam, levels, y, mu) * wnum
    ab_s = ab_u / s_eff
    ab_sat = dev_abs_roundoff(fam, levels, y, mu, boundary=True) * wnum
    tiny = 1e-300
    with np.errstate(all='ignore'):
        # ---- correspondence errors (model vs implementation), in units of the tolerance ----
        eV = rel_err(R['V'], mV, np.abs(mV) + tiny) / 1e-11
        eDu = rel_err(R['dev_u'], mDu, mag_u + tiny) / 1e-11
        eDs = rel_err(R['dev_s'], mDs, mag_s + tiny) / 1e-11
        eDd = rel_err(R['dev_default'], mDs, mag_s + tiny) / 1e-11
        d_impl = R['lp_yy'] - R['lp_ymu']
        d_model = mKyy - mKymu
        lp_scale = 1 + np.abs(R['lp_yy']) + np.abs(R['lp_ymu']) + np.abs(mKyy) + np.abs(mKymu)
        # a NaN returned by log_pdf on a valid (y, mu) is judged (it fails the identity below), it does not switch the
        # checks off; +-inf (overflow of the density at extreme magnitudes) still does
        lp_nan = np.isnan(R['lp_yy']) | np.isnan(R['lp_ymu'])
        lp_ok = np.isfinite(mKyy) & np.isfinite(mKymu) & ((lp_scale < 1e290) | lp_nan)
        if fam in ('binomial', 'poisson'):
            lp_ok &= (y == np.floor(y))                       # pmf: integer counts only
        eLp = np.where(lp_ok, rel_err(d_impl, d_model, 1e-10 * lp_scale + ab_sat / (2 * s_eff * wnum)), 0.0)

        # ---- oracle on the real code ----
        o_nonneg = np.where(R['dev_s'] >= -(1e-10 * mag_s + ab_s), 0.0, np.inf)
        o_nonneg = np.where(np.isnan(R['dev_s']), np.inf, o_nonneg)
        o_zero = rel_err(R['dev_yy'], 0.0, 1e-10 * wnum / s_eff * (1 + 0 * y))
        far = np.abs(y - mu) > 1e-3 * np.maximum(np.abs(y), np.abs(mu))
        o_pos = np.where(far & (mag_s > 1e-250) & ~(R['dev_s'] > 0), np.inf, 0.0)
        fd_ok = fd_eligible(fam, levels, y, mu) & (R['V'] != 0) & np.isfinite(Dd) & (Dd < 1e290)
        fd = (R['dev_p'] - R['dev_m']) / (R['mp'] - R['mm'])
        d_exp = -2 * (y - mu) / (s_eff * R['V'])
        o_fd = np.where(fd_ok, rel_err(fd, d_exp, 1e-5 * Dd + tiny), 0.0)
        sat_ok = lp_ok & ~np.isinf(R['lp_yy']) & ~np.isinf(R['lp_ymu'])
        if fam in ('binomial', 'poisson'):
            sat_ok &= np.array([w is None for w in wopt])      # their log_pdf does not take prior weights
        sat = 2 * s_eff * d_impl
        o_sat = np.where(sat_ok, rel_err(R['dev_u'], sat, 1e-9 * (2 * s_eff * lp_scale + mag_u) + ab_sat + tiny), 0.0)
        o_wdev = rel_err(R['dev_s'], R['dev_s0'] * wnum, 1e-13 * np.abs(R['dev_s']) + tiny)
        o_wV = rel_err(R['V'], R['V0'] / wnum, 1e-13 * np.abs(R['V']) + tiny)
        o_scaled = rel_err(R['dev_s'] * s_eff, R['dev_u'], 1e-13 * np.abs(R['dev_u']) + tiny)
        o_default = rel_err(R['dev_default'], R['dev_s'], 1e-13 * np.abs(R['dev_s']) + tiny)

    oracle = [('nonneg', o_nonneg, 'deviance >= 0'),
              ('zero_at_y', o_zero, 'deviance(y, mu=y) = 0'),
              ('positive_off_y', o_pos, 'deviance > 0 for y != mu'),
              ('derivative', o_fd, 'central difference of deviance(scaled, weights) in mu = -2 (y - mu) / (scale V(mu, weights))'),
              ('saturated', o_sat, 'deviance(scaled=False) = 2 scale (log_pdf(y, y) - log_pdf(y, mu))'),
              ('weights_mul_dev', o_wdev, 'deviance(weights=w) = w deviance(weights=None)'),
              ('weights_div_V', o_wV, 'V(weights=w) = V(weights=None) / w'),
              ('scaled', o_scaled, 'deviance(scaled=True) = deviance(scaled=False) / scale'),
              ('scaled_default', o_default, 'deviance() defaults to scaled=True')]
    corr = [('dist.V', eV, 'V', mV), ('dist.deviance', np.maximum(np.maximum(eDu, eDs), eDd), 'dev_s', mDs),
            ('dist.log_pdf.diff', eLp, None, None)]

    for name, e, _ in oracle:
        state['max_oracle'][name] = max(state['max_oracle'].get(name, 0.0), float(np.max(np.where(np.isfinite(e), e, 0.0))) if n else 0.0)
    for name, e, _, _ in corr:
        state['max_corr'][name] = max(state['max_corr'].get(name, 0.0), float(np.max(np.where(np.isfinite(e), e, 0.0))) if n else 0.0)

    obs_keys = ['V', 'V0', 'dev_u', 'dev_s', 'dev_s0', 'dev_yy', 'lp_yy', 'lp_ymu', 'dev_p', 'dev_m', 'mp', 'mm']
    for i in range(n):
        yi, mi, wi = cases[i]
        sig = dict(fam=fam, levels=levels, scale=repr(scale), y=repr(yi), mu=repr(mi), w=repr(wi))
        nontrivial = (yi != mi)
        sample = dict(fam=fam, levels=levels, scale=scale, y=yi, mu=mi, w=wi)
        ctx.case('dist.V', sig, nontrivial=True, sample=sample)
        ctx.case('dist.deviance', sig, nontrivial=nontrivial, sample=sample)
        if lp_ok[i]:
            ctx.case('dist.log_pdf.diff', sig, nontrivial=nontrivial, sample=sample)
        ctx.case('oracle.identities', sig, nontrivial=nontrivial)
        if fd_ok[i]:
            state['fd_checked'] += 1
        if sat_ok[i]:
            state['sat_checked'] += 1
        failed = [(name, float(e[i]), text) for name, e, text in oracle if not (e[i] <= 1.0)]
        if failed:
            if state['fails'] < MAX_FAILS:
                state['fails'] += 1
                name, err, text = failed[0]
                ctx.fail('oracle.identities', dict(fam=fam, check=name, levels=levels, scale_is_one=(s_eff == 1.0),
                                                   weights_given=wi is not None,
                                                   boundary_y=bool(yi == 0 or (fam == 'binomial' and yi == levels))),
                         point_case(b, i),
                         observed=dict(checks_failed=[f[0] for f in failed], error_in_tolerance_units=err,
                                       values={k: float(R[k][i]) for k in obs_keys},
                                       finite_difference=float(fd[i]), expected_derivative=float(d_exp[i])),
                         expected=text, oracle='NumPy on the public return values of Distribution.V / deviance / log_pdf')
            else:
                state['fails_suppressed'] += 1
            continue
        for st, e, key, mvals in corr:
            if not (e[i] <= 1.0):
                if state['disagree'] < MAX_FAILS:
                    state['disagree'] += 1
                    ctx.disagree(st, point_case(b, i),
                                 impl={k: float(R[k][i]) for k in ('V', 'dev_u', 'dev_s', 'lp_yy', 'lp_ymu')},
                                 model=dict(V=float(mV[i]), dev_u=float(mDu[i]), dev_s=float(mDs[i]), k_yy=float(mKyy[i]), k_ymu=float(mKymu[i])),
                                 detail='model and implementation differ by %.3g tolerance units although every oracle identity holds here' % e[i])
                else:
                    ctx.stream(st).disagreements += 1
    ctx.count('family', fam, n)
    ctx.count('scale', 'one' if s_eff == 1.0 else 'not one', n)
    ctx.count('levels', levels if fam == 'binomial' else '-', n)
    ctx.count('weights', 'None', len(none_idx))
    ctx.count('weights', 'given', len(arr_idx))
    ctx.count('y', 'boundary 0', int(np.sum(y == 0)))
    if fam == 'binomial':
        ctx.count('y', 'boundary levels', int(np.sum(y == levels)))
    ctx.count('y', 'equal mu', int(np.sum(y == mu)))


def run_points(ctx, D, blocks=None):
    for st, what in (('dist.V', 'Distribution.V(mu, weights) vs model varFnW, rel 1e-11'),
                     ('dist.deviance', 'Distribution.deviance(y, mu, scaled in {True, False, default}, weights) vs model deviance, 1e-11 of the term magnitudes'),
                     ('dist.log_pdf.diff', 'log_pdf(y, y, w) - log_pdf(y, mu, w) vs model logKernel difference, 1e-10 of the term magnitudes'),
                     ('oracle.identities', 'property oracle on the real code: >= 0, = 0 at y = mu, finite-difference derivative, saturated likelihood identity, weights, scaled')):
        ctx.stream(st, what)
    if blocks is None:
        blocks = gen_blocks(ctx, D)
    lines = []
    for b in blocks:
        lines += block_lines(b)
    outs = ctx.driver.run(lines)
    state = dict(fails=0, fails_suppressed=0, disagree=0, max_oracle={}, max_corr={}, fd_checked=0, sat_checked=0)
    k = 0
    for b in blocks:
        m = len(b['cases'])
        check_block(ctx, D, b, outs[k:k + m], state)
        k += m
    ctx.extra['max_error_in_tolerance_units'] = dict(oracle=state['max_oracle'], correspondence=state['max_corr'])
    ctx.extra['oracle_counts'] = dict(finite_difference=state['fd_checked'], saturated_identity=state['sat_checked'],
                                      failing_inputs_not_listed=state['fails_suppressed'])


# ------------------------------------------------------------------------------------------------
# boundary of the support: the saturated mean sits on the boundary too (Poisson y = 0 -> mu = 0; binomial y = 0 -> mu = 0,
# y = levels -> mu = levels), where `y log mu`, `(levels - y) log(1 - mu/levels)` are 0 * log 0.  Deterministic, every run.
# ------------------------------------------------------------------------------------------------
def lp_ref(fam, levels, scale, y, mu, w):
    """closed-form log-density / log-pmf with dispersion scale / w (scipy.special only: gammaln, xlogy, xlog1py; independent of
    scipy.stats, of pyGAM and of the model).  returns (value, sum of the absolute values of its terms)"""
    from scipy.special import gammaln, xlogy, xlog1py
    y = np.asarray(y, dtype=float); mu = np.asarray(mu, dtype=float); w = np.asarray(w, dtype=float)
    with np.errstate(all='ignore'):
        if fam == 'normal':
            var = scale / w
            terms = [-0.5 * np.log(2 * np.pi * var), -(y - mu) ** 2 / (2 * var)]
        elif fam == 'binomial':
            n = float(levels)
            p = mu / n
            terms = [gammaln(n + 1) + 0 * y, -gammaln(y + 1), -gammaln(n - y + 1), xlogy(y, p), xlog1py(n - y, -p)]
        elif fam == 'poisson':
            terms = [xlogy(y, mu), -mu, -gammaln(y + 1)]
        elif fam == 'gamma':
            nu = w / scale
            terms = [xlogy(nu - 1, y), -y * nu / mu, -nu * np.log(mu / nu), -gammaln(nu)]
        else:
            g = w / scale
            terms = [0.5 * np.log(g / (2 * np.pi)), -1.5 * np.log(y), -g * (y - mu) ** 2 / (2 * mu ** 2 * y)]
        return sum(terms), sum(np.abs(t) for t in terms)


BOUNDARY_WMODES = ('none', 'ones', 'half', 'three', 'mixed')


def gen_boundary_cases(ctx):
    """per family x levels x scale x weights mode: short vectors mixing support-boundary and interior observations (and the
    boundary observations alone, as float and as integer counts), fixed grids of means plus a few seeded ones"""
    quick = ctx.tier == 'quick'
    out = []
    for fam in FAMS:
        rng = ctx.subrng('boundary', fam)
        scales = [0.3, 1.0, 2.5, loguni(rng, 1e-2, 1e2)] if fam in FREE_SCALE else [1.0]
        level_list = ([1, 2, 5, 17] if quick else [1, 2, 3, 5, 17, 100, 1000]) if fam == 'binomial' else [1]
        for levels in level_list:
            n = float(levels)
            groups = []        # (name, y, mu)
            if fam == 'poisson':
                mus = [1e-8, 1e-3, 0.2, 1.0, 7.5, 33.3, 1e4] + [loguni(rng, 1e-6, 1e5) for _ in range(3 if quick else 12)]
                groups.append(('all boundary', [0.0] * len(mus), mus))
                groups.append(('one boundary', [0.0], [rng.choice(mus)]))
                ys = [0.0, 1.0, 0.0, 2.0, 7.0, 0.0, 40.0, 1000.0]
                groups.append(('mixed', ys, [0.3, 0.3, 2.0, 2.0, 9.1, 50.0, 33.3, 1000.5]))
                groups.append(('mixed, y = mu inside', [0.0, 3.0, 0.0, 12.0], [4.0, 3.0, loguni(rng, 1e-3, 1e3), 12.0]))
            elif fam == 'binomial':
                ps = [1e-6, 0.05, 0.5, 0.95, 1 - 1e-6] + [rng.uniform(0.01, 0.99) for _ in range(2 if quick else 8)]
                groups.append(('all y = 0', [0.0] * len(ps), [n * p for p in ps]))
                groups.append(('all y = levels', [n] * len(ps), [n * p for p in ps]))
                groups.append(('one boundary', [rng.choice([0.0, n])], [n * rng.choice(ps)]))
                ys = [0.0, n] * 3
                if levels > 1:
                    ys += [1.0, n - 1.0, float(rng.randint(1, levels - 1)), float(levels // 2)]
                groups.append(('mixed', ys, [n * rng.choice(ps) for _ in ys]))
            elif fam == 'normal':
                groups.append(('zero', [0.0, 0.0, 0.0, 0.0], [0.0, 1e-3, -4.0, loguni(rng, 1e-3, 1e3)]))
                groups.append(('mixed', [0.0, 1.5, -2.0, 1e6, 0.0, -3e-4], [0.0, 1.5, 3.0, 1e6 + 1, rng.uniform(-5, 5), -3e-4]))
            else:
                # open support (y > 0): the saturated mean at small / large magnitudes
                groups.append(('y = mu', [1e-6, 1.0, 0.37, 1e6], [1e-6, 1.0, 0.37, 1e6]))
                groups.append(('mixed', [1e-6, 1e-6, 1.0, 1.0, 1e6, 0.37], [1e-6, 2e-6, 1.0, 3.0, 2e6, loguni(rng, 0.05, 5)]))
            for scale in scales:
                for name, ys, mus in groups:
                    for wmode in BOUNDARY_WMODES:
                        if wmode == 'none':
                            w = None
                        elif wmode == 'mixed':
                            w = [float(rng.choice([0.5, 1.0, 2.0, 3.0, loguni(rng, 1e-2, 1e2)])) for _ in ys]
                        else:
                            w = [dict(ones=1.0, half=0.5, three=3.0)[wmode]] * len(ys)
                        for y_int in ((False, True) if (fam in ('binomial', 'poisson') and wmode in ('none', 'ones')) else (False,)):
                            out.append(dict(kind='boundary', fam=fam, levels=levels, scale=float(scale), group=name, wmode=wmode,
                                            y_int=y_int, y=[float(v) for v in ys], mu=[float(v) for v in mus], w=w))
    return out


def boundary_eval(D, c):
    """the public calls of one case on fresh arrays and a new distribution object, judged element by element.
    returns (failures [(element, check, observed, expected, error in tolerance units)], values) or (exception text, None)"""
    fam, levels, scale = c['fam'], c['levels'], c['scale']
    s_eff = eff_scale(fam, scale)
    y = np.array(c['y'], dtype=float); mu = np.array(c['mu'], dtype=float)
    m = len(y)
    wnum = np.ones(m) if c['w'] is None else np.array(c['w'], dtype=float)
    unit_w = bool(np.all(wnum == 1.0))

    def Y():
        return np.array([int(v) for v in c['y']], dtype=np.int64) if c.get('y_int') else _arr(y)
    kw = (lambda: {}) if c['w'] is None else (lambda: dict(weights=_arr(wnum)))
    R = {}
    try:
        with np.errstate(all='ignore'):
            dist = make_dist(D, fam, scale, levels)
            R['lp_sat'] = dist.log_pdf(Y(), _arr(y), **kw())
            R['lp_mu'] = dist.log_pdf(Y(), _arr(mu), **kw())
            R['dev_u'] = dist.deviance(Y(), _arr(mu), scaled=False, **kw())
            R['dev_s'] = dist.deviance(Y(), _arr(mu), scaled=True, **kw())
            R['dev_sat'] = dist.deviance(Y(), _arr(y), scaled=False, **kw())
        for k in R:
            R[k] = np.asarray(R[k], dtype=float)
            if R[k].shape != (m,):
                raise ValueError('%s has shape %r for %d observations' % (k, R[k].shape, m))
    except Exception as e:
        return '%s: %s' % (type(e).__name__, e), None

    at_boundary = (y == 0) if fam == 'poisson' else ((y == 0) | (y == levels)) if fam == 'binomial' else np.zeros(m, dtype=bool)
    with np.errstate(all='ignore'):
        ref_sat, mag_sat = lp_ref(fam, levels, s_eff, y, y, wnum)
        ref_mu, mag_mu = lp_ref(fam, levels, s_eff, y, mu, wnum)
        dref = dev_ref(fam, levels, y, mu) * wnum
        mag_u = dev_magnitude(fam, levels, y, mu) * wnum
        ab_sat = dev_abs_roundoff(fam, levels, y, mu, boundary=True) * wnum
        mag_yy = (dev_magnitude(fam, levels, y, y) + dev_abs_roundoff(fam, levels, y, y)) * wnum
        lp_scale = 1 + np.abs(R['lp_sat']) + np.abs(R['lp_mu'])
        never = np.zeros(m)
        checks = []
        # the log-density itself, where its meaning does not depend on how prior weights enter it (none, or all equal to one) ...
        if unit_w:
            checks.append(('saturated_logpdf', R['lp_sat'], ref_sat, 1e-10 * (1 + mag_sat),
                           'log_pdf(y, mu = y) = closed-form log-density at the saturated mean'))
            checks.append(('logpdf', R['lp_mu'], ref_mu, 1e-10 * (1 + mag_mu), 'log_pdf(y, mu) = closed-form log-density'))
        # ... and, whatever the weights: a count on the boundary of the support has probability one under its saturated mean
        if fam in ('binomial', 'poisson'):
            checks.append(('saturated_logpdf_boundary', np.where(at_boundary, R['lp_sat'], 0.0), never, 1e-10 + never,
                           'log_pdf(y, mu = y) = 0 for a count on the boundary of the support (probability one), with or without weights'))
        # deviance = 2 scale (log-density at the saturated mean - log-density at mu), the class's own log_pdf
        # (binomial / Poisson log_pdf do not take prior weights: without weights; Poisson zero counts also with weights, where
        #  exposure and prior weight coincide: log P(0; w mu) = w log P(0; mu))
        if fam in FREE_SCALE or unit_w:
            ident = np.ones(m, dtype=bool)
        elif fam == 'poisson':
            ident = (y == 0)
        else:
            ident = np.zeros(m, dtype=bool)
        sat = 2 * s_eff * (R['lp_sat'] - R['lp_mu'])
        tol_id = 1e-9 * (2 * s_eff * lp_scale + mag_u) + ab_sat
        checks.append(('saturated_identity', np.where(ident, R['dev_u'], 0.0), np.where(ident, sat, 0.0), np.where(ident, tol_id, 1.0),
                       'deviance(scaled=False) = 2 scale (log_pdf(y, y) - log_pdf(y, mu))'))
        # both sides independently: the textbook unit deviance (times weights); 2 scale x difference of the closed-form densities
        checks.append(('deviance', R['dev_u'], dref, 1e-9 * mag_u + ab_sat, 'deviance(scaled=False) = weights x textbook unit deviance'))
        checks.append(('deviance_scaled', R['dev_s'] * s_eff, dref, 1e-9 * mag_u + ab_sat, 'deviance(scaled=True) x scale = weights x textbook unit deviance'))
        checks.append(('zero_at_saturated', R['dev_sat'], never, mag_yy, 'deviance(y, mu = y) = 0'))
        fails = []
        for name, got, want, tol, text in checks:
            e = rel_err(got, want, 10 * tol)          # x10 margin before calling it a failing input
            e = np.where(np.isnan(got), np.inf, e)     # NaN is never a log-density / deviance of a valid (y, mu)
            for i in np.flatnonzero(~(e <= 1.0)):
                fails.append((int(i), name, float(got[i]), float(want[i]), float(e[i]), text))
    fails.sort(key=lambda f: f[0])
    return fails, {k: v.tolist() for k, v in R.items()}


def run_boundary(ctx, D, cases=None):
    st = 'dist.log_pdf.boundary'
    ctx.stream(st, 'every run, per family x levels x scale x weights (None, ones, 0.5, 3, mixed): observations on the boundary of the support '
                   '(Poisson y = 0; binomial y = 0 and y = levels, levels 1..17; float and integer counts; alone and mixed with interior ones) '
                   'and saturated means at extreme magnitudes (continuous families): log_pdf(y, mu = y) and log_pdf(y, mu) vs closed forms '
                   '(scipy.special only), = 0 on the boundary; deviance = 2 scale (log_pdf(y, y) - log_pdf(y, mu)); deviance vs textbook form; '
                   'deviance(y, y) = 0.  Oracle only (no model stream)')
    if cases is None:
        cases = gen_boundary_cases(ctx)
    fails = 0
    for c in cases:
        fam, levels = c['fam'], c['levels']
        sig = dict(fam=fam, levels=levels, scale=repr(c['scale']), y=repr(c['y']), mu=repr(c['mu']), w=repr(c['w']), y_int=c.get('y_int', False))
        ctx.case(st, sig, nontrivial=True, sample=dict(fam=fam, levels=levels, scale=c['scale'], y=c['y'][:3], mu=c['mu'][:3], wmode=c.get('wmode')))
        ctx.count('boundary', '%s weights %s' % (fam, c.get('wmode', 'given' if c['w'] is not None else 'none')))
        r = boundary_eval(D, c)
        if not r[0]:
            continue
        if fails >= MAX_FAILS:
            continue
        if isinstance(r[0], str):
            r2 = boundary_eval(D, c)
            if isinstance(r2[0], str):
                fails += 1
                ctx.fail(st, dict(fam=fam, check='exception', levels=levels, weights_given=c['w'] is not None), c,
                         observed=r[0], expected='log_pdf / deviance return arrays', oracle='public calls on valid (y, mu, weights)')
            continue
        i, name, got, want, err, text = r[0][0]
        # minimise: the failing observation alone; report it when it fails alone as well (twice), else the whole vector (twice)
        single = dict(c, group='single observation', y=[c['y'][i]], mu=[c['mu'][i]], w=None if c['w'] is None else [c['w'][i]])
        rep = None
        for cand in (single, c):
            a, b = boundary_eval(D, cand), boundary_eval(D, cand)
            if a[0] and b[0]:
                rep = (cand, a)
                break
        if rep is None:
            ctx.count('boundary', 'not reproduced')
            continue
        cand, a = rep
        fails += 1
        if isinstance(a[0], str):
            ctx.fail(st, dict(fam=fam, check='exception', levels=levels, weights_given=c['w'] is not None), cand,
                     observed=a[0], expected='log_pdf / deviance return arrays', oracle='public calls on valid (y, mu, weights)')
            continue
        j, name, got, want, err, text = a[0][0]
        yj = cand['y'][j]
        ctx.fail(st, dict(fam=fam, check=name, levels=levels, scale_is_one=(eff_scale(fam, c['scale']) == 1.0), weights_given=c['w'] is not None,
                          boundary_y=bool((fam == 'poisson' and yj == 0) or (fam == 'binomial' and yj in (0, levels)))), cand,
                 observed=dict(element=j, y=yj, mu=cand['mu'][j], w=None if cand['w'] is None else cand['w'][j], check=name, value=got,
                               error_in_tolerance_units_x10=err, checks_failed=sorted({f[1] for f in a[0]}), values=a[1]),
                 expected=dict(value=want, statement=text),
                 oracle='closed-form log-densities from scipy.special (gammaln, xlogy, xlog1py) and textbook unit deviances in float64 NumPy; '
                        'the identity uses the public return values of log_pdf and deviance only')


# ------------------------------------------------------------------------------------------------
# phi
# ------------------------------------------------------------------------------------------------
def gen_phi_cases(ctx, D):
    lits = harvest_literals(D)
    out = []
    reps = 12 if ctx.tier == 'quick' else 60
    for fam in FAMS:
        rng = ctx.subrng('phi', fam)
        for levels in ([1, 2, 5] if fam == 'binomial' else [1]):
            for known in ([None, 0.3, 1.0, 2.5, loguni(rng, 1e-3, 1e3)] if fam in FREE_SCALE else [1.0]):
                for n in (1, 2, 3, 5, 30):
                    for _ in range(reps):
                        pts = [gen_point(rng, fam, levels, lits) for _ in range(n)]
                        if fam == 'normal':       # keep the Pearson sum well conditioned
                            pts = [(mu + rng.gauss(0, 1) * loguni(rng, 1e-3, 1e3), mu) for (_, mu) in pts]
                        y = [float(p[0]) for p in pts]; mu = [float(p[1]) for p in pts]
                        w = [float(gen_weight(rng, lits) or 1.0) for _ in range(n)]
                        edof = n * rng.uniform(0.0, 0.9) if rng.random() < 0.8 else float(rng.randint(0, n - 1))
                        out.append(dict(kind='phi', fam=fam, levels=levels, known=known, n=n, edof=float(edof), w=w, y=y, mu=mu))
    return out


def phi_line(c):
    toks = ['C06 phi', c['fam'], f2bits(c['levels']), 'none' if c['known'] is None else f2bits(c['known']), str(c['n']), f2bits(c['edof'])]
    toks += [f2bits(v) for v in c['w']] + [f2bits(v) for v in c['y']] + [f2bits(v) for v in c['mu']]
    return ' '.join(toks)


def run_phi(ctx, D, cases=None):
    st = 'dist.phi'
    ctx.stream(st, 'Distribution.phi(y, mu, edof, weights) vs model phi (supplied scale, else weighted Pearson / (n - edof)), rel 1e-11')
    if cases is None:
        cases = gen_phi_cases(ctx, D)
    outs = ctx.driver.run([phi_line(c) for c in cases])
    fails = 0
    for c, o in zip(cases, outs):
        fam, levels, known, n = c['fam'], c['levels'], c['known'], c['n']
        y, mu, w = np.array(c['y']), np.array(c['mu']), np.array(c['w'])
        model = bits2f(o) if o != 'bad-op' else float('nan')
        with np.errstate(all='ignore'):
            if known is not None:
                want = eff_scale(fam, known)
            else:
                want = float(np.sum(w * (y - mu) ** 2 / V_ref(fam, levels, mu)) / (n - c['edof']))
        sig = dict(fam=fam, levels=levels, known=repr(known), n=n, edof=repr(c['edof']), y0=repr(c['y'][0]), mu0=repr(c['mu'][0]), w0=repr(c['w'][0]))
        ctx.case(st, sig, nontrivial=(known is None), sample=dict(fam=fam, known=known, n=n, edof=c['edof']))
        ctx.count('phi', ('%s known' % fam) if known is not None else ('%s estimated' % fam))
        try:
            dist = make_dist(D, fam, known, levels)
            with np.errstate(all='ignore'):
                got = float(dist.phi(_arr(y), _arr(mu), c['edof'], _arr(w)))
                got2 = float(make_dist(D, fam, known, levels).phi(_arr(y), _arr(mu), c['edof'], _arr(w)))
        except Exception as e:
            got = got2 = None
            exc = '%s: %s' % (type(e).__name__, e)
        if not np.isfinite(want) or abs(want) > 1e290:
            continue
        if got is None or not (abs(got - want) <= 1e-10 * abs(want)) or not (abs(got2 - want) <= 1e-10 * abs(want)):
            if fails < MAX_FAILS:
                fails += 1
                ctx.fail(st, dict(fam=fam, check='phi', known=known is not None), c,
                         observed=got if got is not None else exc, expected=want,
                         oracle='supplied scale, else sum(w (y - mu)^2 / V(mu)) / (n - edof) with the textbook V (NumPy)')
        elif not (abs(got - model) <= 1e-11 * abs(model)):
            ctx.disagree(st, c, got, model, 'phi differs from the model although the Pearson oracle holds')


# ------------------------------------------------------------------------------------------------
# sampler arguments (captured) and real draws
# ------------------------------------------------------------------------------------------------
SAMPLERS = dict(normal=('loc', 'scale'), binomial=('n', 'p'), poisson=('lam',), gamma=('shape', 'scale'), wald=('mean', 'scale'))
EXPECTED_SAMPLER = dict(normal='normal', binomial='binomial', poisson='poisson', gamma='gamma', inv_gauss='wald')


class Capture:
    """records the arguments numpy.random.<sampler> receives (and still draws)"""

    def __init__(self):
        self.calls = []
        self.orig = {}

    def __enter__(self):
        for name in SAMPLERS:
            self.orig[name] = getattr(np.random, name)
            setattr(np.random, name, self._wrap(name))
        return self

    def __exit__(self, *a):
        for name, f in self.orig.items():
            setattr(np.random, name, f)

    def _wrap(self, name):
        orig = self.orig[name]
        params = SAMPLERS[name] + ('size',)

        def f(*args, **kw):
            d = dict(zip(params, args))
            d.update(kw)
            self.calls.append((name, d))
            return orig(*args, **kw)
        return f


def doc_moments(name, a):
    """documented mean / variance of the NumPy samplers (NumPy reference manual)"""
    if name == 'normal':
        return a['loc'], a['scale'] ** 2
    if name == 'binomial':
        return a['n'] * a['p'], a['n'] * a['p'] * (1 - a['p'])
    if name == 'poisson':
        return a['lam'], a['lam']
    if name == 'gamma':
        return a['shape'] * a['scale'], a['shape'] * a['scale'] ** 2
    return a['mean'], a['mean'] ** 3 / a['scale']


def gen_sampler_cases(ctx, D):
    lits = harvest_literals(D)
    out = []
    m = 40 if ctx.tier == 'quick' else 200
    for fam in FAMS:
        rng = ctx.subrng('sampler', fam)
        scales = (gen_scales(rng, fam, lits, 4) + [None]) if fam in FREE_SCALE else [1.0]
        if fam == 'normal':
            scales.append(0.0)          # `self.scale**0.5 if self.scale else 1.0`
        for levels in ([1, 2, 5, 17] if fam == 'binomial' else [1]):
            for scale in scales:
                mus = [float(gen_point(rng, fam, levels, lits)[1]) for _ in range(m)]
                if fam == 'poisson':
                    mus = [min(v, 1e6) for v in mus]
                out.append(dict(kind='sampler', fam=fam, levels=levels, scale=scale, mu=mus))
    return out


def run_sampler_args(ctx, D, cases=None):
    st = 'dist.sample.args'
    ctx.stream(st, 'arguments handed to numpy.random.{normal,binomial,poisson,gamma,wald} by Distribution.sample(mu) vs model samplerParams (bit-exact; <= 1 ulp for pow(scale, 0.5) vs sqrt)')
    if cases is None:
        cases = gen_sampler_cases(ctx, D)
    lines = []
    for c in cases:
        for v in c['mu']:
            lines.append('C06 sampler %s %s %s %s' % (c['fam'], 'none' if c['scale'] is None else f2bits(c['scale']), f2bits(c['levels']), f2bits(v)))
    outs = ctx.driver.run(lines)
    k = 0
    fails = 0
    for c in cases:
        fam, levels, scale, mus = c['fam'], c['levels'], c['scale'], c['mu']
        mouts = outs[k:k + len(mus)]
        k += len(mus)
        mu = np.array(mus)
        np.random.seed(ctx.subrng('sampler-seed', fam, levels, repr(scale)).randrange(2 ** 32))
        exc = None
        with Capture() as cap:
            try:
                with np.errstate(all='ignore'):
                    draws = make_dist(D, fam, scale, levels).sample(_arr(mu))
            except Exception as e:
                exc = type(e).__name__
        sig = dict(fam=fam, levels=levels, scale=repr(scale), mu0=repr(mus[0]))
        ctx.case(st, sig, nontrivial=True, sample=dict(fam=fam, levels=levels, scale=scale, mu=mus[:3]))
        ctx.count('sampler', '%s scale=%s' % (fam, 'None' if scale is None else ('0' if scale == 0 else ('1' if scale == 1 else 'other'))))
        if exc is not None or mouts[0] == 'TypeError':
            # scale=None for gamma / inverse gaussian: no dispersion to sample with
            if not (exc == 'TypeError' and all(o == 'TypeError' for o in mouts)):
                if scale is not None and scale > 0 and fails < MAX_FAILS:
                    fails += 1
                    ctx.fail(st, dict(fam=fam, check='sample raises'), c, observed=exc, expected='draws with mean mu and variance scale V(mu)',
                             oracle='Distribution.sample(mu) on a valid mean vector')
                else:
                    ctx.disagree(st, c, exc, mouts[0], 'exception class of sample() differs from the model')
            continue
        # --- oracle: documented moments of what was actually called
        bad = None
        if len(cap.calls) != 1:
            bad = 'numpy.random samplers called %d times: %r' % (len(cap.calls), [n for n, _ in cap.calls])
        else:
            name, a = cap.calls[0]
            if a.get('size', None) is not None or np.shape(draws) != mu.shape:
                bad = 'size=%r, result shape %r for mu of shape %r' % (a.get('size'), np.shape(draws), mu.shape)
        if bad is None and scale is not None and scale > 0:
            s_eff = eff_scale(fam, scale)
            try:
                with np.errstate(all='ignore'):
                    args = {p: np.broadcast_to(np.asarray(a[p], dtype=float), mu.shape) for p in SAMPLERS[name]}
                    mean_doc, var_doc = doc_moments(name, args)
                    want_var = s_eff * V_ref(fam, levels, mu)
                    ok = np.all(np.abs(mean_doc - mu) <= 1e-12 * np.abs(mu)) and np.all(np.abs(var_doc - want_var) <= 1e-11 * np.abs(want_var) + 16 * EPS * np.abs(mu))
                    # the class's own V must be that variance function too
                    Vimpl = np.asarray(make_dist(D, fam, scale, levels).V(_arr(mu)), dtype=float)
                    ok = ok and np.all(np.abs(s_eff * Vimpl - var_doc) <= 1e-11 * np.abs(var_doc) + 16 * EPS * np.abs(mu))
                if not ok:
                    j = int(np.argmax(np.abs(var_doc - want_var) / np.abs(want_var) + np.abs(mean_doc - mu) / np.abs(mu) + np.abs(s_eff * Vimpl - var_doc) / np.abs(var_doc)))
                    bad = dict(sampler=name, args={p: float(args[p][j]) for p in args}, mu=float(mu[j]),
                               documented_mean=float(mean_doc[j]), documented_variance=float(var_doc[j]),
                               scale_times_V=float(want_var[j]), scale_times_class_V=float(s_eff * Vimpl[j]))
            except KeyError as e:
                bad = 'sampler %s called without argument %s' % (name, e)
        if bad is not None:
            if fails < MAX_FAILS:
                fails += 1
                ctx.fail(st, dict(fam=fam, check='sampler moments', scale_is_one=(scale == 1.0)), c, observed=bad,
                         expected='documented moments of the NumPy sampler called by sample(mu) = (mu, scale V(mu)), one call, size=None',
                         oracle='NumPy reference moments of numpy.random.{normal,binomial,poisson,gamma,wald} applied to the captured arguments')
            continue
        # --- correspondence with the model, exact
        name, a = cap.calls[0]
        ok = True
        detail = ''
        for j, o in enumerate(mouts):
            toks = o.split()
            if toks[0] != name or toks[0] != EXPECTED_SAMPLER[fam]:
                ok, detail = False, 'sampler %s vs model %s' % (name, toks[0]); break
            margs = [bits2f(t) for t in toks[1:1 + len(SAMPLERS[name])]]
            for p, mv in zip(SAMPLERS[name], margs):
                iv = float(np.broadcast_to(np.asarray(a[p], dtype=float), mu.shape)[j])
                same = (iv == mv) or (iv != iv and mv != mv)
                if not same and name == 'normal' and p == 'scale':
                    same = abs(iv - mv) <= 2 * EPS * abs(mv)
                if not same:
                    ok, detail = False, 'argument %s of %s: %r vs model %r at mu=%r' % (p, name, iv, mv, mus[j]); break
            if not ok:
                break
        if not ok:
            ctx.disagree(st, c, {p: np.asarray(a[p], dtype=float).tolist() for p in SAMPLERS[name] if p in a}, mouts[:3], detail)


def kurtosis(fam, levels, scale, mu):
    if fam == 'normal':
        return 3.0
    if fam == 'poisson':
        return 3.0 + 1.0 / mu
    if fam == 'binomial':
        p = mu / levels
        return 3.0 + (1 - 6 * p * (1 - p)) / (levels * p * (1 - p))
    if fam == 'gamma':
        return 3.0 + 6.0 * scale
    return 3.0 + 15.0 * mu * scale


def gen_draw_cases(ctx):
    out = []
    reps = 3 if ctx.tier == 'quick' else 20
    for fam in FAMS:
        rng = ctx.subrng('draws', fam)
        for levels in ([1, 5] if fam == 'binomial' else [1]):
            for _ in range(reps):
                if fam == 'normal':
                    scale, mu = loguni(rng, 0.05, 20), rng.uniform(-5, 5)
                elif fam == 'binomial':
                    scale, mu = 1.0, levels * rng.uniform(0.1, 0.9)
                elif fam == 'poisson':
                    scale, mu = 1.0, loguni(rng, 0.3, 50)
                elif fam == 'gamma':
                    scale, mu = loguni(rng, 0.05, 2), loguni(rng, 0.1, 10)
                else:
                    mu = loguni(rng, 0.1, 10)
                    scale = loguni(rng, 0.02, 1.0) / mu
                out.append(dict(kind='draws', fam=fam, levels=levels, scale=float(scale), mu=float(mu)))
    return out


def draw_once(D, c, N, seed):
    fam, levels, scale, mu = c['fam'], c['levels'], c['scale'], c['mu']
    s_eff = eff_scale(fam, scale)
    np.random.seed(seed)
    x = np.asarray(make_dist(D, fam, scale, levels).sample(np.full(N, mu)), dtype=float)
    var = s_eff * float(V_ref(fam, levels, np.array([mu]))[0])
    kap = kurtosis(fam, levels, s_eff, mu)
    m, v = float(np.mean(x)), float(np.var(x))
    tol_m = 8 * math.sqrt(var / N)
    tol_v = 8 * var * math.sqrt((kap - 1) / N) + var / N
    ok = x.shape == (N,) and abs(m - mu) <= tol_m and abs(v - var) <= tol_v
    return ok, dict(sample_mean=m, sample_variance=v, mean=mu, variance=var, tol_mean=tol_m, tol_variance=tol_v, N=N, numpy_seed=seed)


def run_draws(ctx, D, cases=None):
    st = 'dist.sample.draws'
    ctx.stream(st, 'seeded real draws of Distribution.sample: sample mean and variance within 8 sigma of (mu, scale V(mu)) (supporting evidence)')
    if cases is None:
        cases = gen_draw_cases(ctx)
    N = 50000 if ctx.tier == 'quick' else 400000
    for c in cases:
        rng = ctx.subrng('draw-seed', c['fam'], c['levels'], repr(c['scale']), repr(c['mu']))
        sig = dict(fam=c['fam'], levels=c['levels'], scale=repr(c['scale']), mu=repr(c['mu']))
        ctx.case(st, sig, nontrivial=True, sample=c)
        ctx.count('draws', c['fam'])
        try:
            ok, info = draw_once(D, c, N, rng.randrange(2 ** 32))
            if not ok:      # confirm on an independent stream before reporting (false alarm rate squared)
                ok2, info2 = draw_once(D, c, N, rng.randrange(2 ** 32))
                ok = ok2
                info = dict(first=info, second=info2)
        except Exception as e:
            ok, info = False, '%s: %s' % (type(e).__name__, e)
        if not ok:
            ctx.fail(st, dict(fam=c['fam'], check='draw moments', scale_is_one=(eff_scale(c['fam'], c['scale']) == 1.0)), c,
                     observed=info, expected='mean mu and variance scale V(mu) within 8 standard errors, twice',
                     oracle='sample mean / variance of %d real draws (numpy.random.seed fixed)' % N)


# ------------------------------------------------------------------------------------------------
# histories, 1: the methods are functions of their arguments — they leave the caller's arrays bit-for-bit unchanged
# and give the same values whatever was called before on the same array / distribution objects
# ------------------------------------------------------------------------------------------------
CONTAINERS = ('float64', 'int64', 'readonly', 'strided')
# Suspected defect of the unchanged tree, found while building this stream and counted under 'suspected-defect' instead of
# failing the run (see the final report of the C06 strengthening): with an integer-dtype mu, `deviance(..., scaled=True)`
# raises UFuncTypeError (normal with integer y, binomial, poisson: `dev /= self.scale` on an integer array) and
# `utils.ylogydu` truncates `y log(y/u)` to integers (`np.zeros_like(u)`), e.g.
# PoissonDist().deviance(np.array([3.]), np.array([2]), scaled=False) == 0 instead of 0.4328.  V / phi / log_pdf / sample
# with an integer-dtype mu are checked in full.  Repaired in /repo by 9f6aee8 ("fix: deviance of an integer-dtype mu ..."):
# the flag is off, integer-dtype deviances are judged like everything else.
INT_MU_DEVIANCE_SUSPECT = False
PURE_OPS = [('V', False), ('V', True),
            ('dev', False, False), ('dev', False, True), ('dev', True, False), ('dev', True, True),
            ('log_pdf', False), ('log_pdf', True), ('phi',), ('sample',)]


def op_name(op):
    if op[0] == 'V':
        return 'V(mu, weights=w)' if op[1] else 'V(mu)'
    if op[0] == 'dev':
        return 'deviance(y, mu, scaled=%s%s)' % (op[1], ', weights=w' if op[2] else '')
    if op[0] == 'log_pdf':
        return 'log_pdf(y, mu, weights=w)' if op[1] else 'log_pdf(y, mu)'
    return 'phi(y, mu, edof, w)' if op[0] == 'phi' else 'sample(mu)'


def make_container(kind, vals, role):
    """a fresh array holding `vals` (role 'w' is always a float array: integer mu / y with float weights is valid input)"""
    if kind == 'int64' and role != 'w':
        return np.array([int(v) for v in vals], dtype=np.int64)
    if kind == 'strided':
        base = np.zeros(2 * len(vals))
        base[::2] = vals
        return base[::2]
    a = np.array(vals, dtype=float)
    if kind == 'readonly':
        a.flags.writeable = False
    return a


def fresh_args(c):
    return {r: make_container(c['container'], c[r], r) for r in ('y', 'mu', 'w')}


def snapshot(A):
    return {r: (A[r].dtype.str, A[r].shape, A[r].tobytes()) for r in A}


def call_op(dist, op, A, edof, seed):
    if op[0] == 'V':
        return dist.V(A['mu'], weights=A['w']) if op[1] else dist.V(A['mu'])
    if op[0] == 'dev':
        kw = dict(weights=A['w']) if op[2] else {}
        return dist.deviance(A['y'], A['mu'], scaled=op[1], **kw)
    if op[0] == 'log_pdf':
        return dist.log_pdf(A['y'], A['mu'], weights=A['w']) if op[1] else dist.log_pdf(A['y'], A['mu'])
    if op[0] == 'phi':
        return dist.phi(A['y'], A['mu'], edof, A['w'])
    np.random.seed(seed)
    return dist.sample(A['mu'])


def canon_result(res, op, n):
    """float array of the expected shape, or a string describing what is wrong with the return value"""
    try:
        a = np.asarray(res, dtype=float)
    except Exception as e:
        return 'return value %r is not numeric (%s)' % (type(res).__name__, type(e).__name__)
    want = () if op[0] == 'phi' else (n,)
    if a.shape != want:
        return 'return value has shape %r, expected %r' % (a.shape, want)
    return a.copy()


def dev_ref(fam, levels, y, mu):
    """the textbook unit deviances, float64 NumPy on float64 copies (oracle side: independent of pyGAM and of the model)"""
    y = np.asarray(y, dtype=float); mu = np.asarray(mu, dtype=float)

    def xl(a, b):
        return np.where(a == 0, 0.0, a * np.log(np.where(a == 0, 1.0, a) / b))
    with np.errstate(all='ignore'):
        if fam == 'normal':
            return (y - mu) ** 2
        if fam == 'binomial':
            return 2 * (xl(y, mu) + xl(levels - y, levels - mu))
        if fam == 'poisson':
            return 2 * (xl(y, mu) - (y - mu))
        if fam == 'gamma':
            return 2 * ((y - mu) / mu - np.log(y / mu))
        return (y - mu) ** 2 / (mu ** 2 * y)


def gen_int_point(rng, fam, levels):
    """integer-valued (y, mu) inside the support x mean domain (None when there is none: binomial with one trial)"""
    if fam == 'normal':
        return float(rng.randint(-50, 50)), float(rng.randint(-50, 50))
    if fam == 'binomial':
        if levels < 2:
            return None
        return float(rng.randint(0, levels)), float(rng.randint(1, levels - 1))
    if fam == 'poisson':
        return float(rng.choice([0, 0, 1, 2, 3, rng.randint(0, 60)])), float(rng.randint(1, 50))
    return float(rng.randint(1, 50)), float(rng.randint(1, 50))


def gen_purity_cases(ctx, D):
    lits = harvest_literals(D)
    reps = 6 if ctx.tier == 'quick' else 30
    out = []
    for fam in FAMS:
        rng = ctx.subrng('purity', fam)
        scales = [0.3, 1.0, 2.5, loguni(rng, 1e-3, 1e3)] if fam in FREE_SCALE else [1.0]
        for levels in ([1, 2, 5] if fam == 'binomial' else [1]):
            for scale in scales:
                for container in CONTAINERS:
                    for _ in range(reps * (1 if fam in FREE_SCALE else 3)):
                        n = rng.choice([1, 2, 3, 4, 6])
                        if container == 'int64':
                            pts = [gen_int_point(rng, fam, levels) for _ in range(n)]
                            if pts[0] is None:
                                continue
                        else:
                            pts = [gen_point(rng, fam, levels, lits) for _ in range(n)]
                            if fam == 'poisson':
                                pts = [(y, min(mu, 1e6)) for (y, mu) in pts]
                        w = [float(gen_weight(rng, lits) or rng.choice([1.0, 0.5, 2.0, 1.7])) for _ in range(n)]
                        ops = list(range(len(PURE_OPS)))
                        rng.shuffle(ops)
                        second = list(range(len(PURE_OPS)))
                        rng.shuffle(second)
                        out.append(dict(kind='purity', fam=fam, levels=levels, scale=float(scale), container=container,
                                        y=[float(p[0]) for p in pts], mu=[float(p[1]) for p in pts], w=w,
                                        edof=float(n * rng.uniform(0.0, 0.9)), ops=ops + second,
                                        numpy_seed=rng.randrange(2 ** 32)))
    return out


def purity_probe(D, c, upto):
    """run the first `upto + 1` calls of the case on fresh shared arrays and one distribution object.
    returns (index, what, detail) of the first call that raises, modifies an argument or returns something that
    differs from the same call on untouched copies with a new distribution object; None when there is none."""
    fam, levels, scale = c['fam'], c['levels'], c['scale']
    n = len(c['mu'])
    dist = make_dist(D, fam, scale, levels)
    A = fresh_args(c)
    pristine = snapshot(A)
    results = []
    suspected = []
    for k, oi in enumerate(c['ops'][:upto + 1]):
        op = tuple(PURE_OPS[oi])
        try:
            with np.errstate(all='ignore'):
                ref = canon_result(call_op(make_dist(D, fam, scale, levels), op, fresh_args(c), c['edof'], c['numpy_seed']), op, n)
        except Exception as e:
            ref = '%s: %s' % (type(e).__name__, e)
        raised = None
        try:
            with np.errstate(all='ignore'):
                res = call_op(dist, op, A, c['edof'], c['numpy_seed'])
                got = canon_result(res, op, n)
        except Exception as e:
            raised = '%s: %s' % (type(e).__name__, e)
            # SUSPECTED DEFECT of the unchanged tree (reported, not part of this stream's verdict): deviance with an
            # integer-dtype mu raises for scaled=True (`dev /= self.scale` on an integer array) — the same call raises
            # the same way on fresh copies, so it is not an effect of the history
            if not (INT_MU_DEVIANCE_SUSPECT and c['container'] == 'int64' and op[0] == 'dev' and isinstance(ref, str)
                    and ref.split(':')[0] == type(e).__name__):
                return k, 'exception', dict(call=op_name(op), raised=raised,
                                            calls_before=[op_name(PURE_OPS[j]) for j in c['ops'][:k]])
        now = snapshot(A)
        changed = [r for r in ('y', 'mu', 'w') if now[r] != pristine[r]]
        if changed:
            r = changed[0]
            d = dict(call=op_name(op), argument=r, before=c[r], after=np.asarray(A[r], dtype=float).tolist(),
                     calls_before=[op_name(PURE_OPS[j]) for j in c['ops'][:k]])
            try:        # what the caller sees next, against the textbook variance function of the values it passed
                with np.errstate(all='ignore'):
                    d['V(mu) on the same array afterwards'] = np.asarray(dist.V(A['mu']), dtype=float).tolist()
                    d['textbook V of the mu that was passed'] = V_ref(fam, levels, np.array(c['mu'])).tolist()
            except Exception as e:
                d['V(mu) on the same array afterwards'] = '%s: %s' % (type(e).__name__, e)
            return k, 'argument modified', d
        if raised is not None:
            suspected.append((op_name(op), raised.split(':')[0]))
            continue
        if isinstance(got, str) or isinstance(ref, str):
            if isinstance(got, str):
                return k, 'bad return value', dict(call=op_name(op), observed=got)
            return k, 'exception', dict(call=op_name(op) + ' on fresh copies', raised=ref)
        with np.errstate(all='ignore'):
            tol = 1e-12 * (np.abs(got) + np.abs(ref)) + 1e-300
            same = (got == ref) | (np.isnan(got) & np.isnan(ref)) | (np.abs(got - ref) <= tol)
        if not np.all(same):
            return k, 'depends on earlier calls', dict(call=op_name(op), on_the_same_objects=got.tolist(), on_fresh_copies=ref.tolist(),
                                                       calls_before=[op_name(PURE_OPS[j]) for j in c['ops'][:k]])
        results.append((op, got, bool(np.array_equal(got, ref, equal_nan=True))))
    return None, results, suspected


def run_purity(ctx, D, cases=None):
    st = 'dist.purity'
    ctx.stream(st, 'V / deviance / log_pdf / phi / sample called in random order (each twice) on the SAME y, mu, weights arrays '
                   '(float64, int64 mu and y, read-only, strided) and one distribution object: arguments bit-for-bit unchanged, '
                   'every value equal to the same call on fresh copies with a new object (1e-12), V and deviance vs model (1e-11)')
    if cases is None:
        cases = gen_purity_cases(ctx, D)
    lines = []
    for c in cases:
        for y, mu, w in zip(c['y'], c['mu'], c['w']):
            for ww in (1.0, w):
                lines.append('C06 all %s %s %s %s %s %s' % (c['fam'], f2bits(c['levels']), f2bits(c['scale']), f2bits(ww), f2bits(y), f2bits(mu)))
    outs = ctx.driver.run(lines)
    fails = 0
    k0 = 0
    for c in cases:
        fam, levels, scale, n = c['fam'], c['levels'], c['scale'], len(c['mu'])
        mouts = outs[k0:k0 + 2 * n]
        k0 += 2 * n
        sig = dict(fam=fam, levels=levels, scale=repr(scale), container=c['container'], mu=repr(c['mu']), y=repr(c['y']), w=repr(c['w']), ops=repr(c['ops']))
        ctx.case(st, sig, nontrivial=True, sample=dict(fam=fam, levels=levels, scale=scale, container=c['container'], mu=c['mu'][:2]))
        ctx.count('purity container', c['container'])
        r = purity_probe(D, c, len(c['ops']) - 1)
        if r[0] is not None:
            k, what, detail = r
            r2 = purity_probe(D, c, k)           # once more, from scratch, up to that call
            if r2[0] is not None and fails < MAX_FAILS:
                fails += 1
                ctx.fail(st, dict(fam=fam, check=what, call=op_name(PURE_OPS[c['ops'][k]]), container=c['container']), c,
                         observed=dict(first=detail, second=r2[2], failing_call_index=k),
                         expected='arguments unchanged bit-for-bit and the value of the same call on untouched copies of (y, mu, weights)',
                         oracle='NumPy: bytes of the argument arrays before / after each public call; the same call on fresh copies with a new distribution object')
            elif r2[0] is None:
                ctx.count('purity', 'not reproduced')
            continue
        for call, exc in r[2]:
            ctx.count('suspected-defect', 'deviance with integer-dtype mu raises %s: %s %s' % (exc, fam, call.replace(', weights=w', '')))
        # ---- correspondence: what the object returned in the middle of the history vs the (pure) model
        model = np.array([[bits2f(t) for t in o.split()] if o != 'bad-op' else [np.nan] * 5 for o in mouts], dtype=float).reshape(n, 2, 5)
        y = np.array(c['y']); mu = np.array(c['mu']); w = np.array(c['w'])
        s_eff = eff_scale(fam, scale)
        mag = dev_magnitude(fam, levels, y, mu)
        ab = dev_abs_roundoff(fam, levels, y, mu)
        bad = None
        value_fail = None
        for op, got, bit_equal in r[1]:
            if not bit_equal:
                ctx.count('purity', 'equal within 1e-12 but not bit-for-bit')
            with np.errstate(all='ignore'):
                if op[0] == 'V':
                    mv = model[:, 1 if op[1] else 0, 0]
                    e = rel_err(got, mv, 1e-11 * np.abs(mv) + 1e-300)
                    orc = V_ref(fam, levels, mu) / (w if op[1] else 1.0)
                    # binomial: the code forms 1 - mu/levels (absolute error 1 ulp of 1, i.e. 16 EPS |mu| in V with margin), the closed form levels - mu
                    otol = 1e-11 * np.abs(orc) + (16 * EPS * np.abs(mu) / (w if op[1] else 1.0) if fam == 'binomial' else 0.0) + 1e-300
                elif op[0] == 'dev':
                    wn = w if op[2] else np.ones(n)
                    div = s_eff if op[1] else 1.0
                    mv = model[:, 1 if op[2] else 0, 2 if op[1] else 1]
                    e = rel_err(got, mv, 1e-11 * (mag * wn / div) + 1e-300)
                    orc = dev_ref(fam, levels, y, mu) * wn / div
                    otol = (1e-9 * mag + ab) * wn / div + 1e-300
                else:
                    continue
                # ---- oracle independent of pyGAM and of the model: the closed forms in float64
                judged = np.isfinite(orc) & (np.abs(orc) < 1e290)
                e_impl = np.where(judged, rel_err(got, orc, 10 * otol), 0.0)      # x10 margin before calling it a failing input
                e_model = np.where(judged, rel_err(mv, orc, otol), 0.0)
            if not np.all(e_impl <= 1.0) and value_fail is None:
                i = int(np.argmax(np.where(np.isfinite(e_impl), e_impl, np.inf)))
                if np.all(e_model <= 1.0):
                    value_fail = (op, i, got, orc, mv)
                elif bad is None:
                    bad = (op_name(op) + ' [closed form %r]' % orc.tolist(), got.tolist(), mv.tolist())
                continue
            if not np.all(e <= 1.0):
                if INT_MU_DEVIANCE_SUSPECT and c['container'] == 'int64' and op[0] == 'dev':
                    ctx.count('suspected-defect', 'deviance with integer-dtype mu differs from the model (ylogydu truncates to the dtype of mu): %s' % fam)
                elif bad is None:
                    bad = (op_name(op), got.tolist(), mv.tolist())
        if value_fail is not None:
            op, i, got, orc, mv = value_fail
            try:        # once more: a single call on fresh arguments with a new object
                with np.errstate(all='ignore'):
                    again = canon_result(call_op(make_dist(D, fam, scale, levels), op, fresh_args(c), c['edof'], c['numpy_seed']), op, n)
                still = isinstance(again, str) or not (abs(again[i] - orc[i]) <= abs(got[i] - orc[i]) / 2)
            except Exception as e:
                again, still = '%s: %s' % (type(e).__name__, e), True
            if still:
                if fails < MAX_FAILS:
                    fails += 1
                    ctx.fail(st, dict(fam=fam, check='value', call=op_name(op), container=c['container']), c,
                             observed=dict(call=op_name(op), element=i, y=c['y'][i], mu=c['mu'][i], w=c['w'][i], returned=got.tolist(),
                                           returned_on_fresh_arguments=again if isinstance(again, str) else again.tolist(), model=mv.tolist()),
                             expected=orc.tolist(),
                             oracle='textbook variance function / unit deviance in float64 NumPy on float64 copies of the arguments, times weights, over scale '
                                    '(the Lean model agrees with it here)')
                continue
            ctx.count('purity', 'value departure not reproduced')
        if bad is not None:
            ctx.disagree(st, c, impl=dict(call=bad[0], value=bad[1]), model=bad[2],
                         detail='value returned in the middle of a call history differs from the model although it equals the value on fresh copies')


# ------------------------------------------------------------------------------------------------
# histories, 2: the scale estimate of a distribution object that has estimated (and stored) a scale before
# ------------------------------------------------------------------------------------------------
def gen_phi_block(rng, fam, levels, lits, n):
    pts = [gen_point(rng, fam, levels, lits) for _ in range(n)]
    if fam == 'normal':       # keep the Pearson sum well conditioned
        pts = [(mu + rng.gauss(0, 1) * loguni(rng, 1e-3, 1e3), mu) for (_, mu) in pts]
    elif fam in ('gamma', 'inv_gauss'):
        pts = [(mu * loguni(rng, 0.2, 5), mu) for (_, mu) in pts]
    return dict(n=n, edof=float(n * rng.uniform(0.0, 0.9)), w=[float(gen_weight(rng, lits) or 1.0) for _ in range(n)],
                y=[float(p[0]) for p in pts], mu=[float(p[1]) for p in pts])


def gen_phi_history_cases(ctx, D):
    lits = harvest_literals(D)
    reps = 8 if ctx.tier == 'quick' else 40
    out = []
    for fam in FAMS:
        rng = ctx.subrng('phi-history', fam)
        for levels in ([1, 2, 5] if fam == 'binomial' else [1]):
            for init in ([None, None, 0.3, 1.0, 2.5, loguni(rng, 1e-3, 1e3)] if fam in FREE_SCALE else [1.0]):
                for k in (2, 3, 5):
                    for _ in range(reps):
                        out.append(dict(kind='phi_history', fam=fam, levels=levels, init=init,
                                        steps=[gen_phi_block(rng, fam, levels, lits, rng.choice([1, 2, 3, 5, 30])) for _ in range(k)]))
    return out


def phih_line(fam, levels, init, steps):
    toks = ['C06 phih', fam, f2bits(levels), 'none' if init is None else f2bits(init), str(len(steps))]
    for b in steps:
        toks += [str(b['n']), f2bits(b['edof'])] + [f2bits(v) for v in b['w']] + [f2bits(v) for v in b['y']] + [f2bits(v) for v in b['mu']]
    return ' '.join(toks)


def parse_phih(o, k):
    """[(phi returned, scale stored)] per step; None entries for Python None; NaN when the line is unusable"""
    try:
        steps = [t.split() for t in o.split(' | ')]
        if len(steps) != k or any(len(t) != 2 for t in steps):
            raise ValueError
        return [tuple(None if x == 'none' else bits2f(x) for x in t) for t in steps]
    except Exception:
        return [(float('nan'), float('nan'))] * k


def pearson_ref(fam, levels, b):
    y, mu, w = np.array(b['y'], dtype=float), np.array(b['mu'], dtype=float), np.array(b['w'], dtype=float)
    with np.errstate(all='ignore'):
        return float(np.sum(w * (y - mu) ** 2 / V_ref(fam, levels, mu)) / (b['n'] - b['edof']))


def phi_history_once(D, c):
    """the object lives through the estimates the way it does inside a model: each estimate is stored in `scale`
    unless the user supplied one.  returns (step index, got, want) of the first wrong estimate, else (None, values)."""
    fam, levels, init = c['fam'], c['levels'], c['init']
    supplied = init is not None or fam not in FREE_SCALE
    dist = make_dist(D, fam, init, levels)
    got_all = []
    for j, b in enumerate(c['steps']):
        want = eff_scale(fam, init) if supplied else pearson_ref(fam, levels, b)
        try:
            with np.errstate(all='ignore'):
                got = float(dist.phi(_arr(b['y']), _arr(b['mu']), b['edof'], _arr(b['w'])))
        except Exception as e:
            return j, '%s: %s' % (type(e).__name__, e), want
        if np.isfinite(want) and abs(want) < 1e290 and not (abs(got - want) <= 1e-10 * abs(want)):
            return j, got, want
        got_all.append(got)
        if not supplied:
            dist.scale = got          # GAM._estimate_model_statistics: distribution.scale = distribution.phi(...)
    try:
        stored = dist.scale
        stored = None if stored is None else float(stored)
    except Exception:
        stored = float('nan')
    return None, got_all, stored


def run_phi_history(ctx, D, cases=None):
    st = 'dist.phi.history'
    ctx.stream(st, 'one distribution object through 2-5 scale estimates on different data, each stored in .scale as GAM does: '
                   'every phi = Pearson / (n - edof) of the CURRENT data (or the supplied scale) and = model estimateHistory / phiAt, rel 1e-11')
    if cases is None:
        cases = gen_phi_history_cases(ctx, D)
    outs = ctx.driver.run([phih_line(c['fam'], c['levels'], c['init'], c['steps']) for c in cases])
    fails = 0
    for c, o in zip(cases, outs):
        fam, levels, init, k = c['fam'], c['levels'], c['init'], len(c['steps'])
        supplied = init is not None or fam not in FREE_SCALE
        b0 = c['steps'][0]
        sig = dict(fam=fam, levels=levels, init=repr(init), k=k, n=[b['n'] for b in c['steps']], y0=repr(b0['y'][0]), mu0=repr(b0['mu'][0]), edof0=repr(b0['edof']))
        ctx.case(st, sig, nontrivial=not supplied, sample=dict(fam=fam, levels=levels, init=init, k=k))
        ctx.count('phi history', '%s %s' % (fam, 'supplied' if supplied else 'estimated'))
        r = phi_history_once(D, c)
        if r[0] is not None:
            r2 = phi_history_once(D, c)
            if r2[0] is not None and fails < MAX_FAILS:
                fails += 1
                j = r[0]
                ctx.fail(st, dict(fam=fam, check='phi after earlier estimates', supplied=supplied, step=min(j, 1)), c,
                         observed=dict(estimate_number=j + 1, phi=r[1], earlier_estimates_stored_in_scale=not supplied),
                         expected=r[2], oracle='supplied scale, else sum(w (y - mu)^2 / V(mu)) / (n - edof) of the data of that call, textbook V (NumPy)')
            continue
        model = parse_phih(o, k)
        ok = True
        for j, got in enumerate(r[1]):
            mv = model[j][0]
            if mv is None or not (got == mv or abs(got - mv) <= 1e-11 * abs(mv)):
                if not (np.isfinite(got) or mv is None or np.isfinite(mv)):
                    continue
                ok = False
        ms = model[-1][1]
        if ok and not ((r[2] is None and ms is None) or (r[2] is not None and ms is not None and (r[2] == ms or abs(r[2] - ms) <= 1e-11 * abs(ms) or not (np.isfinite(r[2]) or np.isfinite(ms))))):
            ok = False
        if not ok:
            ctx.disagree(st, c, impl=dict(phi=r[1], scale_attribute=r[2]), model=[list(t) for t in model],
                         detail='phi along the history differs from the model although the Pearson oracle holds at every step')


# ------------------------------------------------------------------------------------------------
# histories, 3: the same through the model: statistics_['scale'] of every fit of one GAM object
# ------------------------------------------------------------------------------------------------
FIT_LINK = dict(normal='identity', binomial='logit', poisson='log', gamma='log', inv_gauss='log')
FIT_CLASS = dict(normal='LinearGAM', binomial='LogisticGAM', poisson='PoissonGAM', gamma='GammaGAM', inv_gauss='InvGaussGAM')


def gen_fit_history_cases(ctx):
    reps = 2 if ctx.tier == 'quick' else 10
    out = []
    for fam in FAMS:
        rng = ctx.subrng('fit-history', fam)
        hows = ['name', 'instance', 'class'] + (['supplied'] if fam in FREE_SCALE else [])
        for how in hows:
            for _ in range(reps):
                levels = rng.choice([2, 5]) if (fam == 'binomial' and how == 'instance') else 1
                fits = []
                for _ in range(rng.choice([2, 2, 3])):
                    fits.append(dict(n=rng.randint(40, 120), seed=rng.randrange(2 ** 31), weighted=rng.random() < 0.6,
                                     disp=loguni(rng, 0.01, 0.4), sd=loguni(rng, 0.05, 3.0)))
                out.append(dict(kind='fit_history', fam=fam, how=how, levels=levels,
                                scale=(loguni(rng, 0.05, 5.0) if how == 'supplied' else None),
                                n_splines=rng.choice([5, 8]), fits=fits))
    return out


def fit_data(c, f):
    rs = np.random.RandomState(f['seed'])
    n = f['n']
    X = rs.uniform(0, 1, size=(n, 1))
    g = 1.5 + np.sin(2 * np.pi * X[:, 0] + rs.uniform(0, 6))          # in (0.5, 2.5)
    fam = c['fam']
    if fam == 'normal':
        y = g + f['sd'] * rs.randn(n)
    elif fam == 'binomial':
        y = rs.binomial(c['levels'], 0.15 + 0.28 * g, size=n).astype(float)
    elif fam == 'poisson':
        y = rs.poisson(2 * g).astype(float)
    elif fam == 'gamma':
        y = rs.gamma(shape=1 / f['disp'], scale=g * f['disp'])
    else:
        y = rs.wald(mean=g, scale=1 / f['disp'])
    # GAM.fit stores the weights as float32 (`np.array(weights).astype('f')`): use weights that survive that unchanged
    w = rs.uniform(0.5, 2.0, size=n).astype(np.float32).astype(float) if f['weighted'] else None
    return X, y, w


def fit_history_once(D, c):
    """returns (None, blocks, scales) or (fit index, observed, expected)"""
    import pygam
    fam, how, levels = c['fam'], c['how'], c['levels']
    supplied = how == 'supplied' or fam not in FREE_SCALE
    term = pygam.s(0, n_splines=c['n_splines'])
    try:
        if how == 'class':
            gam = getattr(pygam, FIT_CLASS[fam])(term)
        else:
            if how == 'name':
                dist = fam
            elif fam == 'binomial':
                dist = D.DISTRIBUTIONS[fam](levels=levels)
            elif fam == 'poisson':
                dist = D.DISTRIBUTIONS[fam]()
            else:
                dist = D.DISTRIBUTIONS[fam](scale=c['scale'])
            gam = pygam.GAM(term, distribution=dist, link=FIT_LINK[fam])
    except Exception as e:
        return 0, 'constructor: %s: %s' % (type(e).__name__, e), 'a model'
    blocks, scales = [], []
    for j, f in enumerate(c['fits']):
        X, y, w = fit_data(c, f)
        n = len(y)
        try:
            with np.errstate(all='ignore'), contextlib.redirect_stdout(io.StringIO()):      # pyGAM prints 'did not converge'
                if w is None:
                    gam.fit(X.copy(), y.copy())
                else:
                    gam.fit(X.copy(), y.copy(), weights=w.copy())
                got = float(gam.statistics_['scale'])
                edof = float(gam.statistics_['edof'])
                mu = np.asarray(gam.predict_mu(X.copy()), dtype=float)
            if mu.shape != (n,):
                raise ValueError('predict_mu returned shape %r for %d rows' % (mu.shape, n))
        except Exception as e:
            return j, '%s: %s' % (type(e).__name__, e), 'a fitted model with statistics_["scale"]'
        ww = np.ones(n) if w is None else w
        b = dict(n=n, edof=edof, w=ww.tolist(), y=y.tolist(), mu=mu.tolist())
        want = eff_scale(fam, c['scale']) if supplied else pearson_ref(fam, levels, b)
        if not (np.isfinite(want) and abs(got - want) <= 1e-8 * abs(want)):
            return j, dict(statistics_scale=got, edof=edof, n=n), want
        blocks.append(b)
        scales.append(got)
    return None, blocks, scales


GAM_SCALE_WHAT = ("one model object (GAM(distribution=name | instance | instance with a supplied scale), LinearGAM, GammaGAM, ...) fitted 2-3 "
                   "times on different data: statistics_['scale'] of every fit = Pearson / (n - edof) of that fit (NumPy on predict_mu, "
                   "statistics_['edof']) or the supplied scale, 1e-8; and = model estimateHistory on the same (y, mu, edof, w), 1e-9.  "
                   "Also LinearGAM / GammaGAM / InvGaussGAM / ExpectileGAM / GAM(distribution=instance) with the scale changed between the fits "
                   "(set_params(scale=) or attribute, resp. a new distribution object; None -> value, value -> None, value -> other value): every "
                   "fit reports the scale supplied at that time, else the Pearson estimate of that fit; vs model scaleHistory")


EVENT_MODELS = [('LinearGAM', 'normal'), ('GammaGAM', 'gamma'), ('InvGaussGAM', 'inv_gauss'), ('ExpectileGAM', 'normal'),
                ('GAM', 'normal'), ('GAM', 'gamma'), ('GAM', 'inv_gauss')]
# the scale that is supplied at each fit: None -> value, value -> None, value -> other value, and back
SCALE_PATTERNS = [(None, 'a'), ('a', None), ('a', 'b'), (None, 'a', None), ('a', None, 'b'), (None, None, 'a'), ('a', 'a', None)]


def gen_scale_event_cases(ctx):
    reps = 1 if ctx.tier == 'quick' else 5
    out = []
    for cls, fam in EVENT_MODELS:
        rng = ctx.subrng('scale-events', cls, fam)
        for pat in SCALE_PATTERNS:
            for _ in range(reps):
                val = dict(a=loguni(rng, 0.05, 5.0), b=loguni(rng, 0.05, 5.0))
                seq = [None if p is None else val[p] for p in pat]
                events = []
                for j, sc in enumerate(seq):
                    if j > 0 and (pat[j] != pat[j - 1] or rng.random() < 0.5):
                        events.append(dict(ev='dist' if cls == 'GAM' else 'set', via=rng.choice(['set_params', 'attribute']), scale=sc))
                    events.append(dict(ev='fit', n=rng.randint(40, 90), seed=rng.randrange(2 ** 31), weighted=rng.random() < 0.6,
                                       disp=loguni(rng, 0.01, 0.4), sd=loguni(rng, 0.05, 3.0)))
                out.append(dict(kind='scale_events', cls=cls, fam=fam, levels=1, init=seq[0], n_splines=rng.choice([5, 8]),
                                pattern=['None' if p is None else p for p in pat], events=events))
    return out


def scale_events_once(D, c):
    """returns (None, model-line events, scales) or (event index, observed, expected)"""
    import pygam
    cls, fam = c['cls'], c['fam']
    term = pygam.s(0, n_splines=c['n_splines'])
    current = c['init']
    try:
        if cls == 'GAM':
            gam = pygam.GAM(term, distribution=D.DISTRIBUTIONS[fam](scale=current), link=FIT_LINK[fam])
        else:
            gam = getattr(pygam, cls)(term, scale=current)
    except Exception as e:
        return 0, 'constructor: %s: %s' % (type(e).__name__, e), 'a model'
    evs, scales = [], []
    for j, ev in enumerate(c['events']):
        try:
            if ev['ev'] == 'set':
                if ev['via'] == 'set_params':
                    gam.set_params(scale=ev['scale'])
                else:
                    gam.scale = ev['scale']
                current = ev['scale']
                evs.append(('set', current))
                continue
            if ev['ev'] == 'dist':
                nd = D.DISTRIBUTIONS[fam](scale=ev['scale'])
                if ev['via'] == 'set_params':
                    gam.set_params(distribution=nd)
                else:
                    gam.distribution = nd
                current = ev['scale']
                evs.append(('dist', current))
                continue
            X, y, w = fit_data(c, ev)
            n = len(y)
            with np.errstate(all='ignore'), contextlib.redirect_stdout(io.StringIO()):      # pyGAM prints 'did not converge'
                if w is None:
                    gam.fit(X.copy(), y.copy())
                else:
                    gam.fit(X.copy(), y.copy(), weights=w.copy())
                got = float(gam.statistics_['scale'])
                dscale = gam.distribution.scale
                dscale = float('nan') if dscale is None else float(dscale)
                edof = float(gam.statistics_['edof'])
                mu = np.asarray(gam.predict_mu(X.copy()), dtype=float)
            if mu.shape != (n,):
                raise ValueError('predict_mu returned shape %r for %d rows' % (mu.shape, n))
        except Exception as e:
            return j, '%s: %s' % (type(e).__name__, e), 'the event %r carried out' % ev['ev']
        ww = np.ones(n) if w is None else w
        b = dict(n=n, edof=edof, w=ww.tolist(), y=y.tolist(), mu=mu.tolist())
        if current is not None:
            want, tol = float(current), 1e-13
        else:
            want, tol = pearson_ref(fam, 1, b), 1e-8
        if not (np.isfinite(want) and abs(got - want) <= tol * abs(want) and abs(dscale - want) <= tol * abs(want)):
            return j, dict(statistics_scale=got, distribution_scale=dscale, edof=edof, n=n, scale_supplied_now=current,
                           events_before=[(e['ev'], e.get('via'), e.get('scale')) for e in c['events'][:j]]), want
        evs.append(('fit', b))
        scales.append(got)
    return None, evs, scales


def gamscale_line(c, evs):
    toks = ['C06 gamscale', c['cls'], c['fam'], f2bits(c['levels']), 'none' if c['init'] is None else f2bits(c['init'])]
    for kind, v in evs:
        if kind == 'fit':
            toks += ['fit', str(v['n']), f2bits(v['edof'])] + [f2bits(x) for x in v['w']] + [f2bits(x) for x in v['y']] + [f2bits(x) for x in v['mu']]
        else:
            toks += [kind, 'none' if v is None else f2bits(v)]
    return ' '.join(toks)


def run_scale_events(ctx, D, cases=None):
    st = 'gam.scale.history'
    ctx.stream(st, GAM_SCALE_WHAT)
    if cases is None:
        cases = gen_scale_event_cases(ctx)
    fails = 0
    pending = []
    for c in cases:
        sig = dict(cls=c['cls'], fam=c['fam'], init=repr(c['init']), n_splines=c['n_splines'],
                   events=[(e['ev'], e.get('via'), repr(e.get('scale')), e.get('n'), e.get('seed')) for e in c['events']])
        ctx.case(st, sig, nontrivial=True, sample=dict(cls=c['cls'], fam=c['fam'], pattern=c['pattern']))
        ctx.count('scale events', '%s(%s) %s' % (c['cls'], c['fam'], '>'.join(c['pattern'])))
        r = scale_events_once(D, c)
        if r[0] is not None:
            r2 = scale_events_once(D, c)
            if r2[0] is not None and fails < MAX_FAILS:
                fails += 1
                ctx.fail(st, dict(fam=c['fam'], check='scale after the scale parameter changed', cls=c['cls'],
                                  supplied=isinstance(r[1], dict) and r[1].get('scale_supplied_now') is not None), c,
                         observed=dict(event_number=r[0] + 1, observed=r[1]), expected=r[2],
                         oracle="the scale supplied at the time of the fit (statistics_['scale'] and distribution.scale), else sum(w (y - mu)^2 / V(mu)) / (n - edof) "
                                "with mu = predict_mu(X), edof = statistics_['edof'], textbook V (NumPy)")
            continue
        pending.append((c, r[1], r[2]))
    if pending:
        outs = ctx.driver.run([gamscale_line(c, evs) for c, evs, _ in pending])
        for (c, evs, scales), o in zip(pending, outs):
            try:
                ms = [None if t == 'none' else bits2f(t) for t in o.split(' | ')]
            except Exception:
                ms = []
            if len(ms) != len(scales) or not all(m is not None and abs(g - m) <= 1e-9 * abs(m) for g, m in zip(scales, ms)):
                ctx.disagree(st, c, impl=scales, model=ms if ms else o,
                             detail="statistics_['scale'] along the events differs from the model (scaleHistory) although the oracle holds for every fit")


def run_fit_history(ctx, D, cases=None):
    st = 'gam.scale.history'
    ctx.stream(st, GAM_SCALE_WHAT)
    if cases is None:
        cases = gen_fit_history_cases(ctx)
    fails = 0
    pending = []
    for c in cases:
        fam, how = c['fam'], c['how']
        supplied = how == 'supplied' or fam not in FREE_SCALE
        sig = dict(fam=fam, how=how, levels=c['levels'], scale=repr(c['scale']), n_splines=c['n_splines'],
                   fits=[(f['n'], f['seed'], f['weighted']) for f in c['fits']])
        ctx.case(st, sig, nontrivial=not supplied, sample=dict(fam=fam, how=how, fits=len(c['fits'])))
        ctx.count('fit history', '%s %s' % (fam, how))
        r = fit_history_once(D, c)
        if r[0] is not None:
            r2 = fit_history_once(D, c)
            if r2[0] is not None and fails < MAX_FAILS:
                fails += 1
                ctx.fail(st, dict(fam=fam, check='scale of a refitted model', how=how, supplied=supplied, later_fit=r[0] > 0), c,
                         observed=dict(fit_number=r[0] + 1, observed=r[1]), expected=r[2],
                         oracle="supplied scale, else sum(w (y - mu)^2 / V(mu)) / (n - edof) with mu = predict_mu(X), edof = statistics_['edof'], textbook V (NumPy)")
            continue
        pending.append((c, r[1], r[2]))
    if pending:
        outs = ctx.driver.run([phih_line(c['fam'], c['levels'], c['scale'], blocks) for c, blocks, _ in pending])
        for (c, blocks, scales), o in zip(pending, outs):
            model = parse_phih(o, len(blocks))
            ms = [t[1] for t in model]
            if not all(m is not None and abs(g - m) <= 1e-9 * abs(m) for g, m in zip(scales, ms)):
                ctx.disagree(st, c, impl=scales, model=ms, detail="statistics_['scale'] along the fits differs from the model although the Pearson oracle holds for every fit")


# ------------------------------------------------------------------------------------------------
def _setup(ctx):
    common.import_pygam()
    import pygam.distributions as D
    ctx.extra['rule'] = ('per family x levels x scale (fixed grid 0.3, 1, 2.5, 0.25, harvested literals, log-uniform 1e-3..1e3): '
                         '(y, mu, weights) from the support x mean domain incl. y = 0, y = levels, y = mu, y within 1e-9..1e-2 of mu, '
                         'log-uniform magnitudes, neighbours of every numeric literal of distributions.py / ylogydu; '
                         'distinct = distinct (stream, family, levels, scale, y, mu, w) tuples; a point is trivial when y == mu; '
                         'boundary stream: fixed vectors of support-boundary / interior observations x fixed and seeded means x weight modes; '
                         'histories: distinct (family, levels, scale, container, arrays, call order) / (family, constructor scale, data of '
                         'every estimate) / (family, how the model was built, data sets); trivial when the scale is supplied or fixed')
    ctx.assumptions.append('documented first two moments of numpy.random.{normal,binomial,poisson,gamma,wald} '
                           '(table `moments` of Model/Dists.lean; checked by seeded draws in dist.sample.draws)')
    ctx.assumptions.append('scipy.stats logpdf/logpmf = mu-free normaliser (lgamma, log y, log 2 pi, log scale terms) + the kernel of '
                           '`logKernel` (checked as differences on every run); C pow(x, 0.5) within 1 ulp of sqrt(x)')
    return D


def run(ctx):
    D = _setup(ctx)
    run_points(ctx, D)
    run_boundary(ctx, D)
    run_phi(ctx, D)
    run_sampler_args(ctx, D)
    run_draws(ctx, D)
    run_purity(ctx, D)
    run_phi_history(ctx, D)
    run_fit_history(ctx, D)
    run_scale_events(ctx, D)


def replay(ctx, rp):
    D = _setup(ctx)
    c = rp.get('case') or {}
    kind = c.get('kind')
    if kind == 'point':
        w = None if c.get('w_bits') is None else bits2f(c['w_bits'])
        b = dict(fam=c['fam'], levels=c['levels'], scale=bits2f(c['scale_bits']),
                 cases=[(bits2f(c['y_bits']), bits2f(c['mu_bits']), w)])
        run_points(ctx, D, [b])
    elif kind == 'boundary':
        run_boundary(ctx, D, [c])
    elif kind == 'phi':
        run_phi(ctx, D, [c])
    elif kind == 'sampler':
        run_sampler_args(ctx, D, [c])
    elif kind == 'draws':
        run_draws(ctx, D, [c])
    elif kind == 'purity':
        run_purity(ctx, D, [c])
    elif kind == 'phi_history':
        run_phi_history(ctx, D, [c])
    elif kind == 'fit_history':
        run_fit_history(ctx, D, [c])
    elif kind == 'scale_events':
        run_scale_events(ctx, D, [c])
    else:
        run(ctx)
