"""
C16 — each term contributes exactly its documented model-matrix columns.

Theorems: lean/PyGam/Props/C16.lean (linear = raw feature, intercept = 1, factor = indicator of the category
(first dropped under dummy coding), by multiplies, tensor = row-wise Kronecker product with index
((i0*m1+i1)*m2+i2)…, concatenation in term order, coefficient indices contiguous / disjoint / covering).
Correspondence: exact rational rows of the Lean model (`columnsAll`, `Term.columns`, `coefStart`) vs
TermList.build_columns / term.build_columns / get_coef_indices / n_coefs on random term programs and data
(prediction-time X different from the training X, by-variables of any sign, 2..4 mixed marginals).
Oracle (real code only): the documented column rule recomputed with NumPy from the marginals' own columns.
"""
import numpy as np

from harness import common
from harness.gen import termgen

TOL = 1e-9


def dense(M):
    return np.asarray(M.todense()) if hasattr(M, 'todense') else np.asarray(M)


def oracle_term(term, X, Xtr=None):
    """documented columns of one term recomputed independently (uses b_spline_basis only for spline columns);
    factor terms: one indicator per category of the TRAINING column `Xtr` (consecutive integer codes from its minimum),
    independent of what compile stored on the term"""
    from pygam.utils import b_spline_basis
    n = X.shape[0]
    if term.isintercept:
        return np.ones((n, 1))
    if term.istensor:
        cols = oracle_term(term._terms[0], X, Xtr)
        for t in term._terms[1:]:
            b = oracle_term(t, X, Xtr)
            cols = np.einsum('ni,nj->nij', cols, b).reshape(n, -1)
        if term.by is not None:
            cols = cols * X[:, term.by][:, None]
        return cols
    if term._name == 'linear_term':
        return X[:, term.feature][:, None].copy()
    if term._name == 'factor_term':
        if Xtr is not None:
            lo = float(np.min(Xtr[:, term.feature]))
            k = int(len(np.unique(Xtr[:, term.feature])))
        else:
            lo = term.edge_knots_[0] + 0.5
            k = int(term.n_splines)
        codes = np.round(X[:, term.feature] - lo).astype(int)
        ind = np.zeros((n, k))
        ok = (codes >= 0) & (codes < k)
        ind[np.arange(n)[ok], codes[ok]] = 1.0
        return ind[:, 1:] if term.coding == 'dummy' else ind
    B = b_spline_basis(X[:, term.feature], term.edge_knots_, n_splines=term.n_splines, spline_order=term.spline_order,
                       sparse=False, periodic=(term.basis == 'cp'), verbose=False)
    if term.by is not None:
        B = B * X[:, term.by][:, None]
    return B


def run(ctx):
    pygam = common.import_pygam()
    st_row = 'columns.all'
    st_term = 'columns.term'
    st_idx = 'indices'
    st_or = 'columns.oracle'
    ctx.stream(st_row, 'TermList.build_columns(Xq) vs model columnsAll, exact rationals, 1e-9')
    ctx.stream(st_term, 'term.build_columns(Xq) / TermList.build_columns(Xq, term=i) vs model Term.columns')
    ctx.stream(st_idx, 'get_coef_indices(i), n_coefs vs model coefStart / nCoefs (exact)')
    ctx.stream(st_or, 'documented column rule recomputed with NumPy on the real code (linear raw, factor indicator, by, row-wise Kronecker, ones, hstack, index partition)')
    ctx.extra['rule'] = ('random term programs (s/l/f/te/intercept, orders 0..4, ps/cp, by, custom knots, dummy coding, 2..4 mixed marginals) '
                         'x random data with training != query matrices; distinct = distinct token encodings; non-trivial = has a tensor, by, factor or cp term')
    nprog = 40 if ctx.tier == 'quick' else 400
    progs = []
    skipped = 0
    k = 0
    while len(progs) < nprog and k < nprog * 4:
        rng = ctx.subrng('prog', k)
        k += 1
        try:
            pr = termgen.gen_program(rng, pygam, allow_constraints=True, one_level_prob=0.2)   # one-level factors: a 0-column block under dummy coding
        except ValueError as e:
            ctx.count('generator-rejected', str(e)[:40])
            continue
        if k % 3 == 0:
            # history: the list is queried (indices, sizes, columns), then a term is resized IN PLACE through its public
            # attribute (n_splines of a spline term or marginal, coding of a factor term), and queried again without a
            # recompile — sizes, indices and columns are those of the configuration as it is now
            tl = pr.terms
            try:
                for i in range(len(tl)):
                    tl.get_coef_indices(i)
                _ = tl.n_coefs
                tl.build_columns(pr.X)
            except Exception:  # noqa  (reported below by the regular streams)
                pass
            leaves = [s_ for t in tl if not t.isintercept for s_ in (t._terms if t.istensor else [t])]
            cands = [s_ for s_ in leaves if s_._name in ('spline_term', 'factor_term')]
            edit = 'none possible'
            if cands:
                s_ = rng.choice(cands)
                if s_._name == 'spline_term':
                    new_n = int(s_.n_splines) + rng.choice([1, 2, 3])
                    if rng.random() < 0.3 and int(s_.n_splines) - 1 >= int(s_.spline_order) + 1:
                        new_n = int(s_.n_splines) - 1
                    s_.n_splines = new_n
                    edit = 'n_splines of a %s' % ('tensor marginal' if any(t.istensor and s_ in t._terms for t in tl) else 'spline term')
                else:
                    s_.coding = 'dummy' if s_.coding == 'one-hot' else 'one-hot'
                    edit = 'coding of a factor %s' % ('marginal' if any(t.istensor and s_ in t._terms for t in tl) else 'term')
                pr.tokens = termgen.encode_terms(tl)
                pr.desc['edited'] = edit
            ctx.count('history: in-place edit after a first round of queries', edit)
        else:
            ctx.count('history: in-place edit after a first round of queries', 'no history')
        if not termgen.knot_safe(pr):
            skipped += 1
            continue
        progs.append(pr)
    ctx.count('skipped (query point within 1e-6 of a jump)', 'n', skipped)

    ops = []
    index = []
    for pi, pr in enumerate(progs):
        toks = ' '.join(pr.tokens)
        ops.append('C16 idx ' + toks)
        for r in range(pr.Xq.shape[0]):
            ops.append('C16 cols %s | %s' % (toks, ' '.join(termgen.q(v) for v in pr.Xq[r])))
        for ti in range(len(pr.terms)):
            ops.append('C16 termcols %d %s | %s' % (ti, toks, ' '.join(termgen.q(v) for v in pr.Xq[0])))
    outs = ctx.driver.run(ops)
    pos = 0
    for pi, pr in enumerate(progs):
        tl, Xq = pr.terms, pr.Xq
        for kind in pr.desc['kinds']:
            ctx.count('term kind', kind)
        for tsz in pr.desc['tensor_sizes']:
            ctx.count('tensor marginals', tsz)
        nontriv = any(t.istensor or (not t.isintercept and getattr(t, 'by', None) is not None) or t._name == 'factor_term'
                      or (t._name == 'spline_term' and t.basis == 'cp') for t in tl)
        sig = dict(tokens=' '.join(pr.tokens))
        # the implementation must build every block without raising
        try:
            for t in tl:
                t.build_columns(Xq)
            tl.build_columns(Xq)
        except Exception as e:  # noqa
            ctx.case(st_or, sig, nontrivial=nontriv)
            ctx.fail(st_or, dict(kind='exception', exc=type(e).__name__), dict(tokens=sig['tokens'], Xq=Xq.tolist()),
                     observed='%s: %s' % (type(e).__name__, str(e)[:200]), expected='model-matrix columns', oracle='build_columns must not raise on valid data')
            pos += 1 + Xq.shape[0] + len(tl)
            continue
        # ---- indices
        out = outs[pos]; pos += 1
        ctx.case(st_idx, sig, nontrivial=len(tl) > 1)
        if out == 'bad-op':
            ctx.disagree(st_idx, sig, 'n/a', 'bad-op', 'model rejected the encoding')
            pos += Xq.shape[0] + len(tl)
            continue
        parts = out.split()
        model_idx = [tuple(int(v) for v in p.split(':')) for p in parts[:len(tl)]]
        model_total = int(parts[-1])
        impl_idx = []
        for i in range(len(tl)):
            ix = tl.get_coef_indices(i)
            if len(ix):
                impl_idx.append((ix[0], ix[-1] + 1))
            else:
                # an empty block (one-level factor under dummy coding) addresses no column: the model says [a, a)
                a_b = model_idx[i] if i < len(model_idx) else (None, None)
                impl_idx.append(a_b if a_b[0] == a_b[1] else (None, None))
        impl_total = int(tl.n_coefs)
        all_ix = tl.get_coef_indices(-1)
        # oracle: contiguous, disjoint, covering, width == number of columns of the term
        widths = [dense(t.build_columns(Xq)).shape[1] for t in tl]
        ok = True
        start = 0
        for i, w in enumerate(widths):
            ix = tl.get_coef_indices(i)
            if list(ix) != list(range(start, start + w)):
                ok = False
            start += w
        if start != impl_total or list(all_ix) != list(range(impl_total)):
            ok = False
        if not ok:
            ctx.fail(st_idx, dict(kind='indices'), dict(tokens=sig['tokens']), observed=dict(indices=[list(map(int, tl.get_coef_indices(i))) for i in range(len(tl))], n_coefs=impl_total, widths=widths),
                     expected='contiguous disjoint ranges in term order covering range(n_coefs), each as wide as its block of columns', oracle='index partition')
        elif impl_idx != model_idx or impl_total != model_total:
            ctx.disagree(st_idx, sig, dict(idx=impl_idx, total=impl_total), dict(idx=model_idx, total=model_total), 'index bookkeeping differs')
        # ---- full rows
        full = dense(tl.build_columns(Xq))
        ref = np.hstack([oracle_term(t, Xq, pr.X) for t in tl])
        ctx.case(st_or, sig, nontrivial=nontriv)
        oracle_bad = full.shape != ref.shape or np.abs(full - ref).max(initial=0.0) > 1e-12 * max(1.0, np.abs(ref).max(initial=0.0))
        if oracle_bad:
            ctx.fail(st_or, dict(kind='columns', kinds=sorted(set(pr.desc['kinds']))), dict(tokens=sig['tokens'], Xq=Xq.tolist()),
                     observed=dict(shape=list(full.shape), maxdiff=(float(np.abs(full - ref).max(initial=0.0)) if full.shape == ref.shape else None)),
                     expected='hstack of documented per-term columns', oracle='NumPy recomputation of the documented column rule')
        rows_model = []
        for r in range(Xq.shape[0]):
            o = outs[pos]; pos += 1
            rows_model.append(None if o == 'bad-op' else [float(v) for v in common.parse_vec(o)])
        ctx.case(st_row, sig, nontrivial=nontriv, sample=dict(tokens=sig['tokens'], x0=Xq[0].tolist()))
        if any(r is None for r in rows_model):
            ctx.disagree(st_row, sig, 'n/a', 'bad-op', 'model rejected a row')
        else:
            model = np.array(rows_model)
            if model.shape != full.shape or (np.abs(model - full) > TOL * np.maximum(1.0, np.abs(model))).any():
                if not oracle_bad:
                    d = float(np.abs(model - full).max(initial=0.0)) if model.shape == full.shape else None
                    ctx.disagree(st_row, sig, dict(shape=list(full.shape)), dict(shape=list(model.shape), maxdiff=d), 'model rows differ from build_columns although the NumPy oracle agrees with the implementation')
        # ---- per term
        for ti, t in enumerate(tl):
            o = outs[pos]; pos += 1
            ctx.case(st_term, dict(tokens=sig['tokens'], term=ti), nontrivial=not t.isintercept)
            a = dense(t.build_columns(Xq))[0]
            b = dense(tl.build_columns(Xq, term=ti))[0]
            if o == 'bad-op':
                ctx.disagree(st_term, sig, a.tolist(), 'bad-op', 'model rejected term')
                continue
            mrow = np.array([float(v) for v in common.parse_vec(o)])
            if a.shape != b.shape or np.abs(a - b).max(initial=0.0) > 0:
                ctx.fail(st_term, dict(kind='term-vs-list'), dict(tokens=sig['tokens'], term=ti), observed=dict(term=a.tolist(), viaList=b.tolist()),
                         expected='TermList.build_columns(X, term=i) == terms[i].build_columns(X)', oracle='consistency')
            elif mrow.shape != a.shape or (np.abs(mrow - a) > TOL * np.maximum(1.0, np.abs(mrow))).any():
                if not oracle_bad:
                    ctx.disagree(st_term, dict(tokens=sig['tokens'], term=ti), a.tolist(), mrow.tolist(), 'term columns differ')


    run_large(ctx)


def harvest_int_literals(mods, lo=10 ** 5, hi=5 * 10 ** 7):
    """integer constants (also constant-folded expressions such as 2**23) appearing in the source of `mods`"""
    import ast
    import inspect
    vals = set()
    for mod in mods:
        try:
            tree = ast.parse(inspect.getsource(mod))
        except Exception:
            continue
        for node in ast.walk(tree):
            if isinstance(node, (ast.Constant, ast.BinOp)):
                try:
                    v = eval(compile(ast.Expression(node), '<lit>', 'eval'), {'__builtins__': {}})
                except Exception:
                    continue
                if isinstance(v, (int, float)) and not isinstance(v, bool) and lo <= v <= hi and float(v) == int(v):
                    vals.add(int(v))
    return sorted(vals)


def run_large(ctx):
    """large model matrices: every row of a big build_columns must equal the same row built alone (catches block-wise
    processing that drops or misplaces a partial block).  Sizes are seeded by the integer literals of the source."""
    import pygam.utils as U
    import pygam.terms as T
    from pygam.terms import SplineTerm, TensorTerm, FactorTerm, TermList, Intercept
    st = 'columns.large'
    ctx.stream(st, 'large inputs: rows of TermList.build_columns(X) on a big X equal the rows built one by one and the NumPy oracle (first, last and random rows)')
    lits = harvest_int_literals([U, T])
    sizes = sorted(set([9_600_000] + [int(L * 1.13) + 4321 for L in lits]))[:3 if ctx.tier == 'quick' else 8]
    ctx.count('large sizes (elements of the tensor block)', str(sizes))
    rng = np.random.default_rng(ctx.seed + 99)
    for total in sizes:
        ma, mb = 16, 12
        n = total // (ma * mb) + 137
        X = np.c_[rng.uniform(0, 1, n), rng.uniform(-2, 3, n), rng.integers(0, 3, n).astype(float), rng.normal(size=n)]
        X[:3, 2] = [0, 1, 2]
        tl = TermList(TensorTerm(SplineTerm(0, n_splines=ma), SplineTerm(1, n_splines=mb), by=3), FactorTerm(2), Intercept())
        tl.compile(X[:500])
        sig = dict(elements=int(n * ma * mb), n=n)
        ctx.case(st, sig, nontrivial=True, sample=sig)
        try:
            big = tl.build_columns(X)
        except Exception as e:  # noqa
            ctx.fail(st, dict(kind='exception', exc=type(e).__name__), sig, observed='%s: %s' % (type(e).__name__, str(e)[:200]), expected='a model matrix', oracle='build_columns on a large X')
            continue
        rows = sorted(set(list(range(5)) + list(range(n - 300, n)) + [int(v) for v in rng.integers(0, n, 200)]))
        sub = np.asarray(big[rows].todense())
        small = np.asarray(tl.build_columns(X[rows]).todense())
        ref = np.hstack([oracle_term(t, X[rows]) for t in tl])
        if sub.shape != small.shape or np.abs(sub - small).max(initial=0.0) > 0 or np.abs(sub - ref).max(initial=0.0) > 1e-12 * max(1.0, np.abs(ref).max(initial=0.0)):
            bad = np.nonzero(np.abs(sub - ref).max(axis=1) > 1e-12)[0]
            ctx.fail(st, dict(kind='large-rows'), dict(sig, first_bad_row=int(rows[bad[0]]) if len(bad) else None),
                     observed=dict(rows_differing=int(len(bad)), maxdiff=float(np.abs(sub - ref).max(initial=0.0))),
                     expected='each row of a large model matrix = the documented columns of that row', oracle='row-wise recomputation')


def replay(ctx, rp):
    run(ctx)
