"""
C01 — fit returns the penalised (quasi-)likelihood optimum of the specified model.

Theorems: lean/PyGam/Props/C01.lean (the coded QR/SVD solve formula satisfies the penalised normal equations under the
LAPACK contracts for every number of rows k <, =, > m; a solution of the normal equations is the global minimiser of the
penalised weighted least-squares criterion; a fixed point of the PIRLS step satisfies the score equation of the
penalised deviance (per family x link via C06/C07), and of the asymmetric criterion for ExpectileGAM).
Correspondence: after a real converged fit (tol 1e-10) the model PIRLS step (`stepData`, `normalMat`, `normalRhs`,
`scoreResidual` of lean/PyGam/Model/Pirls.lean, run at Float by the driver) is evaluated at the implementation's
coef_ on the exported model matrix, penalty, constraint matrix, weights and mask: relative score residual and the
relative change of the linear predictor under one model step must vanish; for normal/identity the fitted values
must equal the model's closed form.  LAPACK contracts (Q'Q = I, WB = QR, E'E = S+P+C, [R;E] = U diag(d) V') are
validated on the loop locals captured by a user callback.
Oracle (real code only, NumPy formulas independent of pyGAM): gradient of the penalised deviance at coef_
(analytic + central differences) relative to its parts; closed-form lstsq for normal/identity.
Entry points (`fit.entrypoints`, the same oracle, in every run): the models left behind by the other public ways of fitting
are fitted models too — the model kept by gridsearch (keep_best) and every candidate it returns, for several classes incl.
PoissonGAM with exposure and weights (criterion of the data passed: rate y / e, weight w e); ExpectileGAM.fit_quantile
ended by tol and by max_iter on fresh and already fitted models (criterion of the model's OWN expectile); fit called with
positional arguments.  Each is judged at coef_ with the model's own basis, penalty matrix (its lam, penalties) and expectile.
"""
import multiprocessing as mp

import numpy as np

from harness import common
from harness.gen import fitgen

EPS = np.finfo(float).eps


def _oracle(res, B, A, y, wv, keep, coef, dist, link, levels, tau):
    """NumPy oracle (independent of pyGAM): gradient of the penalised deviance / asymmetric least-squares criterion at
    `coef` for the model matrix B, penalty A (+ ridge, + constraints), responses y, weights wv and row mask keep; the
    measures (be_norm, newton_lp, cond, cond_raw, ...) are written into `res`.
    -> dict(coef (zero when judged as the claim beta = 0), grad, scale, asym), or None (res['status'] set) when not finite"""
    n = B.shape[0]
    # (second pass: when coef_ is zero to working precision — no kept row of the model matrix carries information, e.g.
    # a by-variable that is 0 on every row, so the optimum is exactly 0 and coef_ is rounding noise of the solve — the
    # fit is judged as the claim "beta = 0": a backward error is meaningless for a zero solution of a zero right-hand side)
    for attempt in (0, 1):
        eta = B @ coef
        mu = fitgen.np_mu(link, levels, eta)
        g = fitgen.np_grad(link, levels, mu)
        V = fitgen.np_V(dist, levels, mu)
        asym = np.ones(n) if tau is None else np.where(y > mu, tau, 1 - tau)
        wk = wv * keep * asym
        with np.errstate(all='ignore'):
            part1 = B.T @ np.where(keep, wk * (y - mu) / (V * g), 0.0)
            part2 = A @ coef
            grad = -2 * part1 + 2 * part2
            scale = 2 * (np.abs(B).T @ np.abs(wk * (y - mu) / (V * g))) + 2 * np.abs(A) @ np.abs(coef) + 1e-300
            # size of the normal-equation right-hand side B'W^2 z (z = eta + (y - mu) g', W^2 = w / (V g'^2)): the
            # natural scale of the score equation (the gradient is the difference of two terms of that size)
            z = eta + (y - mu) * g
            rhs = B.T @ np.where(keep, wk / (V * g * g) * z, 0.0)
        res['grad_rel'] = float(np.linalg.norm(grad) / (2 * np.linalg.norm(rhs) + 1e-300))
        # natural scale of the linear predictor: the larger of |eta| and the working response |z| on the rows in use (for a
        # fit whose optimum is eta ~ 0 — two nearly identical rows with opposite responses — |eta| alone is rounding noise)
        with np.errstate(all='ignore'):
            # (non-identity links: the linear predictor is dimensionless and an absolute change of 1e-6 per row is a
            # relative change of 1e-6 of the mean: |eta| = |z| = 0 (y = mu at eta = 0) is an exact, not a tiny, scale)
            lp_floor = 0.0 if link == 'identity' else float(np.sqrt(max(int(np.sum(keep)), 1)))
            # |z| is measured in the working metric, relative to the largest working weight: a row whose working weight
            # is negligible (normal / log with mu ~ 1e-8 next to y ~ 1e4: z ~ 1e12) must not set the scale
            sw = np.sqrt(np.where(keep, np.abs(wk / (V * g * g)), 0.0))
            swmax = float(sw.max()) if sw.size else 0.0
            zw = float(np.linalg.norm(np.where(keep, sw * z, 0.0)) / swmax) if swmax > 0 and np.isfinite(swmax) else 0.0
            if not np.isfinite(zw):
                zw = 0.0
            res['lp_scale'] = float(max(np.linalg.norm(eta), zw, lp_floor) + 1e-300)
            res['rhs_norm'] = float(np.linalg.norm(rhs))
            res['rhs_abs_norm'] = float(np.linalg.norm(np.abs(B).T @ np.where(keep, np.abs(wk / (V * g * g) * z), 0.0)))
            res['Abeta_abs_norm'] = float(np.linalg.norm(np.abs(A) @ np.abs(coef)))
        with np.errstate(all='ignore'):
            W2 = np.where(keep, wk / (V * g * g), 0.0)
            N = B.T @ (W2[:, None] * B) + A
            if not (np.isfinite(N).all() and np.isfinite(grad).all()):
                res['status'] = 'nonfinite-oracle'
                return None
            ev = np.linalg.eigvalsh((N + N.T) / 2)
            res['cond_raw'] = float(ev.max() / max(ev.min(), 1e-300))
            # conditioning after symmetric diagonal equilibration (N -> D N D, D = diag(N)^-1/2): a column of huge magnitude
            # (a raw timestamp in a linear term) inflates cond(N) by its square without making the problem any harder for a
            # QR / SVD based solve, which is invariant to column scaling; thresholds follow the equilibrated number
            dg = np.sqrt(np.clip(np.diag(N), 1e-300, None))
            Neq = N / dg[:, None] / dg[None, :]
            eve = np.linalg.eigvalsh((Neq + Neq.T) / 2)
            res['cond'] = float(eve.max() / max(eve.min(), 1e-300))
            # right-hand side measured without cancellation (|B|'W^2|z|): two identical rows with opposite responses have
            # B'W^2 z = 0 and optimum beta = 0 exactly, and a backward error relative to |rhs| + |N||beta| would be noise / noise
            rhs_abs_vec = np.abs(B).T @ np.where(keep, np.abs(wk / (V * g * g) * z), 0.0)
            res['be_norm'] = float(np.linalg.norm(grad) / (2 * (np.linalg.norm(N, 2) * np.linalg.norm(coef) + res['rhs_abs_norm']) + 1e-300))
            # (numerator less the rounding noise of the gradient itself, 256 eps (|B|'|w r| + |A||beta|) componentwise: with
            # 1e9-weighted constraint terms or responses of size 1e-8 under the inverse link that noise is not negligible)
            gnoise = 256 * EPS * np.linalg.norm(scale / dg)
            res['be_eq'] = float(max(0.0, np.linalg.norm(grad / dg) - gnoise) / (2 * (np.linalg.norm(Neq, 2) * np.linalg.norm(coef * dg) + np.linalg.norm(rhs_abs_vec / dg)) + 1e-300))
            res['be_comp'] = float(np.max(np.abs(grad) / (2 * (np.abs(N) @ np.abs(coef) + np.abs(rhs)) + 1e-300)))
            try:
                delta = np.linalg.solve(Neq, grad / dg / 2) / dg
                res['newton_lp'] = float(np.linalg.norm(B @ delta) / res['lp_scale'])
                res['newton_energy'] = float(np.sqrt(abs(delta @ N @ delta) / (abs(coef @ N @ coef) + 1e-300)))
            except np.linalg.LinAlgError:
                res['newton_lp'] = res['newton_energy'] = float('nan')

        if attempt == 0:
            with np.errstate(all='ignore'):
                zeroish = (np.linalg.norm(eta) <= 1e-9 * res['lp_scale']
                           and np.linalg.norm(coef) <= max(1e-8, 10 * EPS * res['cond']) * res['lp_scale'])
            if not zeroish:
                break
            res['zero_solution'] = True
            coef = np.zeros_like(coef)
    return dict(coef=coef, grad=grad, scale=scale, asym=asym)


def _closed_form(res, B, A, y, Wm):
    """normal / identity: fitted values of the closed-form penalised weighted least-squares solution -> res['closed_form_pred']"""
    try:
        Nls = B.T @ (Wm[:, None] * B) + A
        dls = np.sqrt(np.clip(np.diag(Nls), 1e-300, None))
        beta_ls = np.linalg.solve(Nls / dls[:, None] / dls[None, :], (B.T @ (Wm * y)) / dls) / dls
        res['closed_form_pred'] = B @ beta_ls
    except np.linalg.LinAlgError:
        pass        # normal matrix singular to working precision: no closed form to compare with (cond counter says so)


def _worker(case):
    import warnings
    warnings.filterwarnings('ignore')
    pygam = common.import_pygam()
    from pygam.callbacks import CallBack
    try:
        b = fitgen.build(case, pygam, opt_in=True)
    except ValueError as e:
        return dict(case=case, status='generator-rejected', msg=str(e)[:80])
    gam, X, y, w = b['gam'], b['X'], b['y'], b['weights']
    expo = b.get('exposure')
    fkw = {} if expo is None else dict(exposure=expo)

    class Capture(CallBack):
        def __init__(self):
            super().__init__(name='capture')
            self.last = None
            self.start = None      # coefficients the last iteration started from (its constraint matrix is built from them)
            self.cur = None

        def on_loop_end(self, W, mask, E, Q, R, U, d, Vt, WB, coef_new, diff):
            self.start, self.cur = self.cur, np.asarray(coef_new, dtype=float).copy()
            self.last = dict(Wd=np.asarray(W.diagonal()).copy(), mask=np.asarray(mask).copy(), E=np.asarray(E).copy(),
                             Q=np.asarray(Q).copy(), R=np.asarray(R).copy(), U=np.asarray(U).copy(), d=np.asarray(d).copy(),
                             Vt=np.asarray(Vt).copy(), WB=np.asarray(WB.todense()) if hasattr(WB, 'todense') else np.asarray(WB).copy(),
                             diff=float(diff))
            return float(diff)

    # history: the judged fit may be a re-fit of an object that was fitted before with other smoothing parameters
    # (set through the public term attributes) or on other data; the optimum is that of the model as it is specified now
    hist = case.get('history', 'none')
    if hist == 'refit-lam':
        def leaves():
            for t in gam.terms:
                if t.isintercept:
                    continue
                for s_ in (t._terms if t.istensor else [t]):
                    yield s_
        saved = [s_.lam for s_ in leaves()]
        for s_ in leaves():
            s_.lam = [(1e3 if v < 1.0 else 1e-3) for v in np.atleast_1d(s_.lam)]
        st0, _ = fitgen.fit_quiet(gam, X, y, w, **fkw)
        for s_, v in zip(leaves(), saved):
            s_.lam = v
        hist += ':' + st0
    elif hist == 'refit-pen':
        # the same object was fitted before with other penalty KINDS (same sizes, same lam): every penalty swapped for
        # 'none' (a penalised one) or 'l2' (an unpenalised one) through the public term attribute, then put back
        def leaves2():
            for t in gam.terms:
                if t.isintercept:
                    continue
                for s_ in (t._terms if t.istensor else [t]):
                    yield s_
        saved = [list(s_.penalties) for s_ in leaves2()]
        for s_ in leaves2():
            s_.penalties = ['l2' if p_ in (None, 'none') else 'none' for p_ in s_.penalties]
        st0, _ = fitgen.fit_quiet(gam, X, y, w, **fkw)
        for s_, v in zip(leaves2(), saved):
            s_.penalties = v
        hist += ':' + st0
    elif hist == 'refit-data':
        h = max(X.shape[0] // 2, 1)
        st0, _ = fitgen.fit_quiet(gam, X[:h], y[:h], None if w is None else w[:h], **({} if expo is None else dict(exposure=expo[:h])))
        hist += ':' + st0
    cap = Capture()
    gam.callbacks = list(gam.callbacks) + [cap]
    status, out = fitgen.fit_quiet(gam, X, y, w, **fkw)
    res = dict(case=case, status=status, msg=out if status != 'ok' else '', desc=b['desc'], history=hist)
    if status != 'ok':
        return res
    converged = 'did not converge' not in out
    diffs = gam.logs_['diffs']
    res.update(converged=converged, n_iter=len(diffs), last_diff=float(diffs[-1]))
    coef = np.asarray(gam.coef_, dtype=float).ravel()
    if not np.isfinite(coef).all():
        res['status'] = 'nonfinite-coef'
        return res
    n, m = X.shape[0], len(coef)
    B = np.asarray(gam.terms.build_columns(X).todense(), dtype=float)
    P = np.asarray(gam.terms.build_penalties().todense(), dtype=float)
    A = P + np.sqrt(EPS) * np.eye(m)
    if gam.terms.hasconstraint:
        C = np.asarray(gam.terms.build_constraints(coef, gam._constraint_lam, gam._constraint_l2).todense(), dtype=float)
        A = A + C
    if expo is not None:
        # documented meaning of exposure: the model is for the RATE y / e, observed with weight w * e
        w = (np.ones(n) if w is None else np.asarray(w, dtype=float)) * expo
        y = np.asarray(y, dtype=float) / expo
    wv = np.ones(n) if w is None else np.asarray(w, dtype=np.float32).astype(float)
    L = cap.last
    keep = L['mask'].astype(bool)
    dist, link, levels = case['dist'], case['link'], float(case['levels'])
    tau = case['expectile']
    res.update(n=n, m=m, B=B, A=A, y=np.asarray(y, dtype=float), w=wv, keep=keep, coef=coef,
               pred=np.asarray(gam.predict_mu(X), dtype=float), has_constraint=bool(gam.terms.hasconstraint),
               exposure=(expo is not None), colmax=float(np.abs(B).max()) if B.size else 0.0,
               col_ratio=(lambda cn: float(cn.max() / np.median(cn[cn > 0])) if (cn > 0).any() else 1.0)(np.linalg.norm(B, axis=0)) if B.size else 1.0)

    # ---- LAPACK / Cholesky contracts on the loop locals of the last iteration
    k = L['R'].shape[0]
    con = {}
    con['QtQ'] = float(np.abs(L['Q'].T @ L['Q'] - np.eye(L['Q'].shape[1])).max())
    con['QR'] = float(np.abs(L['Q'] @ L['R'] - L['WB']).max() / (np.abs(L['WB']).max() + 1e-300))
    # E of the last iteration factors S + P + C(beta at the start of that iteration): the violation mask of the soft
    # constraints can differ from the one at the final coef_ where a constrained difference is ~ 0 (ties)
    A_E = A
    if gam.terms.hasconstraint:
        if cap.start is None:
            A_E = None
        else:
            A_E = P + np.sqrt(EPS) * np.eye(m) + np.asarray(gam.terms.build_constraints(cap.start, gam._constraint_lam, gam._constraint_l2).todense(), dtype=float)
    con['EtE'] = 0.0 if A_E is None else float(np.abs(L['E'].T @ L['E'] - A_E).max() / (np.abs(A_E).max() + 1e-300))
    RE = np.vstack([L['R'], L['E']])
    con['SVD'] = float(np.abs(L['U'][:, :m] @ np.diag(L['d']) @ L['Vt'] - RE).max() / (np.abs(RE).max() + 1e-300))
    con['UtU'] = float(np.abs(L['U'].T @ L['U'] - np.eye(L['U'].shape[0])).max())
    con['VtV'] = float(np.abs(L['Vt'] @ L['Vt'].T - np.eye(m)).max())
    con['dmin'] = float(L['d'].min())
    res['contracts'] = con
    res['k_rows'] = int(k)

    # ---- independent oracle: gradient of the penalised criterion at coef_
    coef_fit = coef
    orc = _oracle(res, B, A, y, wv, keep, coef, dist, link, levels, tau)
    if orc is None:
        return res
    coef, grad, scale, asym = orc['coef'], orc['grad'], orc['scale'], orc['asym']
    res['coef'] = coef_fit
    # central differences of the criterion along 3 random directions (validates the analytic gradient itself)
    rs = np.random.default_rng(case['seed'] + 1)

    def crit(bv):
        e = B @ bv
        mm = fitgen.np_mu(link, levels, e)
        if tau is None:
            dv = fitgen.np_deviance(dist, levels, y, mm)
            return float(np.sum((wv * keep) * dv) + bv @ A @ bv)
        return float(np.sum(wv * keep * asym * (y - mm) ** 2) + bv @ A @ bv)
    fd = []
    for _ in range(3):
        dvec = rs.normal(size=m)
        dvec /= np.linalg.norm(dvec)
        h = 1e-5 * (1 + np.linalg.norm(coef))
        with np.errstate(all='ignore'):
            num = (crit(coef + h * dvec) - crit(coef - h * dvec)) / (2 * h)
        ana = float(grad @ dvec)
        fd.append((num, ana, float(np.abs(scale) @ np.abs(dvec))))
    res['fd'] = fd
    if dist == 'normal' and link == 'identity' and tau is None and not gam.terms.hasconstraint:
        _closed_form(res, B, A, y, wv * keep)
    return res


def _oracle_verdict(r):
    """the stationarity criteria (i) - (iii) and the closed form, on the measures of `_oracle` -> (thr, judged_ii, judged_iii, reason or None)"""
    thr = max(1e-6, 10 * EPS * r.get('cond_raw', r['cond']))
    judged_ii = thr <= 1e-3
    # (iii) is for problems whose raw conditioning comes from the SCALE OF THE COLUMNS (largest column norm >= 1e6 x the median one);
    # a raw condition number inflated by the working weights (means spread over 12 decades) is genuine ill-conditioning
    judged_iii = (not judged_ii) and 10 * EPS * r['cond'] <= 1e-3 and r.get('col_ratio', 1.0) >= 1e6
    oracle_bad = None
    if not (r['be_norm'] <= 1e-6):
        oracle_bad = 'normwise backward error of the score equation %.3g > 1e-6' % r['be_norm']
    elif judged_ii and not (r['newton_lp'] <= thr):
        oracle_bad = 'remaining Newton step moves the linear predictor by %.3g > %.3g (relative)' % (r['newton_lp'], thr)
    elif judged_iii and not (r['newton_lp'] <= 1e-3 and r.get('be_eq', 0.0) <= 1e-3):
        oracle_bad = ('badly scaled but well-posed problem (equilibrated cond %.3g): Newton step moves the linear predictor by %.3g, equilibrated backward error %.3g (> 1e-3)'
                      % (r['cond'], r['newton_lp'], r.get('be_eq', 0.0)))
    if 'closed_form_pred' in r and oracle_bad is None:
        dcf = float(np.abs(r['closed_form_pred'] - r['pred']).max() / (max(np.abs(r['pred']).max(), np.abs(r['closed_form_pred']).max()) + 1e-300))
        if dcf > max(1e-6, thr):
            oracle_bad = 'fitted values differ from the closed-form penalised WLS solution by %.3g (relative)' % dcf
    return thr, judged_ii, judged_iii, oracle_bad


# ---------------------------------------------------------------------------------------------------------------
# fit.entrypoints: fitted models obtained through the OTHER public entry points (a model left behind by gridsearch or
# by ExpectileGAM.fit_quantile, a fit called with positional arguments) are fitted models too
# ---------------------------------------------------------------------------------------------------------------
_ENTRY_CLS = {  # name -> (class, distribution, link, levels)
    'LinearGAM': ('LinearGAM', 'normal', 'identity', 1), 'LogisticGAM': ('LogisticGAM', 'binomial', 'logit', 1),
    'PoissonGAM': ('PoissonGAM', 'poisson', 'log', 1), 'GammaGAM': ('GammaGAM', 'gamma', 'log', 1),
    'InvGaussGAM': ('InvGaussGAM', 'inv_gauss', 'log', 1), 'ExpectileGAM': ('ExpectileGAM', 'normal', 'identity', 1),
    'GAM normal/log': ('GAM', 'normal', 'log', 1), 'GAM poisson/log': ('GAM', 'poisson', 'log', 1),
    'GAM gamma/identity': ('GAM', 'gamma', 'identity', 1),
}


def _entry_cases(rng):
    """the fixed list of entry-point cases of every run (only the data seeds follow the run's seed)"""
    out = []

    def add(**kw):
        d = dict(seed=rng.randrange(10 ** 9), model='LinearGAM', terms='ss', n=160, weights='none', exposure=False, y_scale=1.0,
                 expectile=None, prefit=False, positional=False)
        d.update(kw)
        out.append(d)
    lam4 = [0.05, 0.6, 8.0, 100.0]
    # ---- gridsearch (keep_best): the model left in `self`; with return_scores every candidate model as well
    add(entry='gridsearch', model='LinearGAM', weights='pos', grid=dict(lam=lam4), return_scores=True)
    add(entry='gridsearch', model='LinearGAM', terms='sl', weights='zeros', grid=dict(lam=[[0.1, 10.0], [0.0, 3.0]]), y_scale=1e-6, prefit=True)
    add(entry='gridsearch', model='LogisticGAM', weights='int', grid=dict(lam=lam4), positional=True)
    add(entry='gridsearch', model='PoissonGAM', exposure=True, weights='pos', grid=dict(lam=lam4), return_scores=True)
    add(entry='gridsearch', model='PoissonGAM', exposure=True, grid=dict(lam=lam4), prefit=True)
    add(entry='gridsearch', model='PoissonGAM', terms='s', exposure=True, weights='int', grid=dict(lam=[0.3, 30.0], n_splines=[8, 14]), positional=True)
    add(entry='gridsearch', model='PoissonGAM', weights='pos', grid=dict(lam=lam4))
    add(entry='gridsearch', model='PoissonGAM', terms='sl', grid=dict(lam=lam4), positional=True)
    add(entry='gridsearch', model='GammaGAM', weights='pos', grid=dict(lam=lam4), y_scale=1e4, return_scores=True)
    add(entry='gridsearch', model='InvGaussGAM', terms='s', weights='int', grid=dict(lam=lam4))
    add(entry='gridsearch', model='ExpectileGAM', expectile=0.9, weights='pos', grid=dict(lam=lam4), return_scores=True)
    add(entry='gridsearch', model='ExpectileGAM', expectile=0.2, terms='s', grid=dict(lam=[0.3, 30.0], n_splines=[8, 14]), y_scale=1e-6, prefit=True)
    add(entry='gridsearch', model='GAM normal/log', weights='pos', grid=dict(lam=lam4))
    add(entry='gridsearch', model='GAM poisson/log', terms='sl', weights='int', grid=dict(lam=lam4), positional=True)
    add(entry='gridsearch', model='GAM gamma/identity', terms='s', weights='pos', grid=dict(lam=lam4), y_scale=1e-6)
    # ---- ExpectileGAM.fit_quantile: search ended by tol / by max_iter, on a fresh and on an already fitted model
    add(entry='fit_quantile', model='ExpectileGAM', terms='s', quantile=0.9, max_iter=20, tol_q=0.01)
    add(entry='fit_quantile', model='ExpectileGAM', terms='s', quantile=0.95, max_iter=3, tol_q=1e-3)
    add(entry='fit_quantile', model='ExpectileGAM', quantile=0.05, max_iter=2, tol_q=1e-3, weights='pos')
    add(entry='fit_quantile', model='ExpectileGAM', quantile=0.9, max_iter=1, tol_q=1e-3, prefit=True)
    add(entry='fit_quantile', model='ExpectileGAM', terms='sl', expectile=0.8, quantile=0.3, max_iter=2, tol_q=1e-3, weights='int', y_scale=1e-6, prefit=True)
    add(entry='fit_quantile', model='ExpectileGAM', quantile=0.5, max_iter=20, tol_q=0.08)
    add(entry='fit_quantile', model='ExpectileGAM', terms='s', quantile=0.75, max_iter=20, tol_q=0.01, weights='zeros', y_scale=1e4, prefit=True)
    add(entry='fit_quantile', model='ExpectileGAM', terms='s', expectile=0.3, quantile=0.8, max_iter=1, tol_q=1e-3, positional=True)
    add(entry='fit_quantile', model='ExpectileGAM', quantile=0.2, max_iter=5, tol_q=1e-4, weights='pos', prefit=True, positional=True)
    # ---- fit with positional arguments
    add(entry='fit', model='LinearGAM', weights='pos', positional=True)
    add(entry='fit', model='PoissonGAM', exposure=True, weights='pos', positional=True)
    add(entry='fit', model='PoissonGAM', terms='s', exposure=True, positional=True)
    add(entry='fit', model='ExpectileGAM', expectile=0.9, weights='int', positional=True)
    return out


def _entry_worker(ec):
    """obtain fitted model(s) through the entry point of `ec` and evaluate the NumPy oracle at each model's coef_ with the
    model's OWN settings (basis, penalty matrix = its lam and penalties, expectile) on the data that were passed"""
    import contextlib
    import io
    import warnings
    warnings.filterwarnings('ignore')
    pygam = common.import_pygam()
    from pygam import s as s_, l as l_
    clsname, dist, link, levels = _ENTRY_CLS[ec['model']]
    rs = np.random.default_rng(ec['seed'])
    n = ec['n']
    X = np.column_stack([np.sort(rs.uniform(0.0, 10.0, n)), rs.uniform(-1.0, 1.0, n)])
    eta = np.sin(X[:, 0]) + 0.5 * X[:, 1]
    y = fitgen._response(rs, dist, link, levels, eta)
    if dist in ('normal', 'gamma'):
        y = y * ec['y_scale']
    w = {'none': lambda: None, 'pos': lambda: rs.choice([0.25, 0.5, 1.0, 1.5, 2.0, 3.0], size=n),
         'int': lambda: rs.integers(1, 4, size=n).astype(float),
         'zeros': lambda: rs.choice([0.0, 1.0, 2.0], size=n, p=[0.2, 0.5, 0.3])}[ec['weights']]()
    expo = None
    if ec['exposure']:
        expo = rs.choice([0.5, 1.0, 2.0, 3.0, 7.5], size=n)
        y = rs.poisson(np.exp(0.6 * eta + 0.5) * expo).astype(float)
    # normal / identity models (one step, or finitely many for expectiles) keep the default intercept; the others are specified without the directions that only the
    # sqrt(eps) ridge identifies (intercept next to a spline, two derivative-penalised splines): there the relative change
    # of coef_ stalls at ~ eps / sqrt(eps) = 1e-8 > tol and no convergence is reported, so nothing would be judged
    intercept = (dist, link) == ('normal', 'identity')
    terms = {'s': lambda: s_(0, n_splines=12),
             'ss': lambda: s_(0, n_splines=10) + s_(1, n_splines=6, lam=2.0, penalties=('derivative' if intercept else 'l2')),
             'sl': lambda: s_(0, n_splines=9, lam=0.3) + l_(1, lam=0.0)}[ec['terms']]()
    if ec['terms'] == 's':
        X = X[:, :1]
    kw = dict(tol=1e-10, max_iter=150, fit_intercept=intercept)
    if clsname == 'GAM':
        kw.update(distribution=dist, link=link)
    if ec['expectile'] is not None:
        kw['expectile'] = ec['expectile']
    gam = getattr(pygam, clsname)(terms, **kw)
    # the arguments of the data: keyword or positional, in the documented order (X, y[, exposure], weights)
    is_pois = clsname == 'PoissonGAM'
    if ec['positional']:
        dargs = (X, y, expo, w) if is_pois else (X, y, w)
        dkw = {}
    else:
        dargs = (X, y)
        dkw = dict(weights=w)
        if is_pois:
            dkw['exposure'] = expo
    res = dict(case=ec, status='ok', msg='', models=[])
    buf = io.StringIO()
    models = []
    # (the progress bar of gridsearch writes to the process's stderr: silenced at the descriptor, in this pool process only)
    import os
    sys_err = os.dup(2)
    devnull = os.open(os.devnull, os.O_WRONLY)
    os.dup2(devnull, 2)
    try:
        with warnings.catch_warnings(), contextlib.redirect_stdout(buf):
            warnings.simplefilter('ignore')
            if ec['prefit']:
                gam.fit(*dargs, **dkw)
            if ec['entry'] == 'fit':
                ret = gam.fit(*dargs, **dkw)
                models = [('self', gam)]
            elif ec['entry'] == 'gridsearch':
                gs = dict(ec['grid'])
                if ec.get('return_scores'):
                    gs['return_scores'] = True
                ret = gam.gridsearch(*dargs, **dkw, **gs)
                models = [('self', gam)]
                if ec.get('return_scores'):
                    models += [('candidate %d' % i_, g_) for i_, g_ in enumerate(ret.keys()) if g_ is not gam]
            else:
                if ec['positional']:
                    ret = gam.fit_quantile(X, y, ec['quantile'], ec['max_iter'], ec['tol_q'], w)
                else:
                    ret = gam.fit_quantile(X, y, quantile=ec['quantile'], max_iter=ec['max_iter'], tol=ec['tol_q'], weights=w)
                models = [('self', gam)]
    except ValueError as e:
        res.update(status='ValueError', msg=str(e)[:200])
        return res
    except Exception as e:  # noqa
        res.update(status=type(e).__name__, msg=str(e)[:300])
        return res
    finally:
        os.dup2(sys_err, 2)
        os.close(sys_err)
        os.close(devnull)
    # the criterion of the data that were passed (documented meaning of exposure: rate y / e observed with weight w * e)
    yv = np.asarray(y, dtype=float)
    wv = np.ones(n) if w is None else np.asarray(w, dtype=np.float32).astype(float)
    if expo is not None:
        wv = wv * expo
        yv = yv / expo
    keep = np.ones(n, dtype=bool)
    for name, g in models:
        mr = dict(name=name)
        res['models'].append(mr)
        if not getattr(g, '_is_fitted', False) or 'diffs' not in getattr(g, 'logs_', {}) or not len(g.logs_['diffs']):
            mr['status'] = 'not-fitted'
            continue
        coef = np.asarray(g.coef_, dtype=float).ravel()
        mr.update(status='ok', converged=bool(g.logs_['diffs'][-1] < g.tol), last_diff=float(g.logs_['diffs'][-1]),
                  lam=[float(v) for v in np.ravel(np.asarray(g.lam, dtype=float))], m=len(coef), n=n)
        if not np.isfinite(coef).all():
            mr['status'] = 'nonfinite-coef'
            continue
        B = np.asarray(g.terms.build_columns(X).todense(), dtype=float)
        A = np.asarray(g.terms.build_penalties().todense(), dtype=float) + np.sqrt(EPS) * np.eye(len(coef))
        tau = None
        if clsname == 'ExpectileGAM':
            tau = float(g.expectile)            # the model's own expectile, whatever the search did to it
            mr['expectile'] = tau
            if ec['entry'] == 'fit_quantile':
                ratio = float(np.mean(B @ coef > yv))
                mr['ended_by'] = 'tol' if abs(ratio - ec['quantile']) <= ec['tol_q'] else 'max_iter'
        cn = np.linalg.norm(B, axis=0)
        mr['col_ratio'] = float(cn.max() / np.median(cn[cn > 0])) if (cn > 0).any() else 1.0
        mr['pred'] = np.asarray(g.predict_mu(X), dtype=float)
        if _oracle(mr, B, A, yv, wv, keep, coef, dist, link, float(levels), tau) is None:
            continue
        if dist == 'normal' and link == 'identity' and tau is None:
            _closed_form(mr, B, A, yv, wv)
        for k_ in ('pred', 'closed_form_pred'):
            if k_ in mr:
                mr[k_] = np.asarray(mr[k_])
    return res


def _bits(a):
    return ' '.join(common.f2bits(v) for v in np.asarray(a, dtype=float).ravel())


def run(ctx):
    common.import_pygam()
    st = 'pirls.step'
    st_cf = 'normal.closed-form'
    st_con = 'lapack.contracts'
    st_or = 'stationarity.oracle'
    ctx.stream(st, 'model PIRLS step at the implementation coef_ (Float driver): relative score residual and relative linear-predictor change <= 1e-6 for converged fits')
    ctx.stream(st_cf, 'normal/identity: fitted values == model closed form (solution of the penalised normal equations) to 1e-7')
    ctx.stream(st_con, "contracts of the solve validated on the loop locals: Q'Q=I, WB=QR, E'E=S+P+C, [R;E]=U1..diag(d)V', U,V orthogonal, d>0")
    st_en = 'fit.entrypoints'
    ctx.stream(st_en, "fitted models obtained through the other public entry points (the model kept by gridsearch and every candidate it returns, "
                      "for several classes incl. PoissonGAM with exposure and weights; ExpectileGAM.fit_quantile ended by tol and by max_iter, on fresh and "
                      "already fitted models; fit with positional arguments): NumPy oracle at coef_ with the model's own expectile, lam and penalties")
    ctx.stream(st_or, 'NumPy oracle on the real code: relative gradient of the penalised deviance / asymmetric LS criterion at coef_ (analytic, checked by central differences); lstsq closed form')
    ctx.extra['rule'] = ('cases = model class / distribution x link pair x random term program x n relative to m (m-1, m, m+1, 12, 60, 200) x weights mode x lam mode; '
                         'distinct = distinct case dicts; non-trivial = converged fit with a non-default ingredient (weights, n <= m, constraints, non-default lam, non-canonical pair); '
                         'fit.entrypoints: a fixed list of gridsearch / fit_quantile / positional-fit calls (data seeds follow the run), every model handed back as converged is a case')
    ncase = 52 if ctx.tier == 'quick' else 650
    cases = fitgen.gen_cases(ctx.subrng('cases'), ncase, ctx.tier)
    # in every run: one badly scaled but well-posed design (raw timestamp in a linear term) per class / link pair
    cases += [dict(c, forced='huge-linear', feature_units='huge', history='none', constraints=False,
                   n_mode=('mid' if k_ % 2 else 'large'), lam_mode='default', y_scale=1.0)
              for k_, c in enumerate(cases[:len(fitgen.PAIRS)])]
    # in every run: each class / link pair once with a history before the judged fit (other penalty kinds, other lam,
    # other data) on a plain, well-conditioned design with penalties that matter — where a stale factor is a failing input
    cases += [dict(c, history=['refit-pen', 'refit-lam', 'refit-pen', 'refit-data'][k_ % 4], feature_units='plain', constraints=False,
                   n_mode=('mid' if k_ % 2 else 'large'), lam_mode=('big' if k_ % 3 == 0 else 'default'), seed=c['seed'] + 1)
              for k_, c in enumerate(cases[:len(fitgen.PAIRS)])]
    # in every run: the identity-link models whose PIRLS needs several iterations (expectiles, gamma / identity), with the
    # response in small units — coefficients far below 1, where any absolute quantity in the stopping rule ends the loop early
    multi = [c for c in cases if c['cls'] == 'ExpectileGAM' or (c['dist'], c['link']) == ('gamma', 'identity')][:3]
    cases += [dict(c, forced='small-units', history='none', feature_units='plain', constraints=False, n_mode='mid', lam_mode='default',
                   weights_mode='none', y_scale=ys, expectile=(tau_ if c['cls'] == 'ExpectileGAM' else None), seed=c['seed'] + 2 + j_)
              for j_, (ys, tau_) in enumerate([(1e-12, 0.9), (1e-9, 0.1), (1e-12, 0.95)]) for c in multi]
    ecases = _entry_cases(ctx.subrng('entrypoints'))
    with mp.get_context('fork').Pool(min(16, len(cases))) as pool:
        eres_async = pool.map_async(_entry_worker, ecases, chunksize=1)
        results = pool.map(_worker, cases, chunksize=1)
        eresults = eres_async.get()
    # ---- fit.entrypoints: every model that an entry point hands back as fitted and converged is judged like a fit
    for er in eresults:
        ec = er['case']
        label = '%s %s' % (ec['model'], ec['entry'])
        ctx.count('entry point: status', '%s: %s' % (ec['entry'], er['status']))
        if er['status'] == 'ValueError':
            continue
        if er['status'] != 'ok':
            ctx.case(st_en, dict(entry=ec), nontrivial=True)
            ctx.fail(st_en, dict(kind='exception', entry=ec['entry'], cls=ec['model'], exc=er['status']), dict(entry=ec), observed='%s: %s' % (er['status'], er['msg']),
                     expected='a fitted model or a ValueError', oracle='a public fitting entry point must not raise an unrelated exception')
            continue
        for mr in er['models']:
            if mr['status'] != 'ok' or not mr.get('converged'):
                ctx.count('entry point: models not judged', '%s: %s' % (label, mr['status'] if mr['status'] != 'ok' else 'not converged'))
                continue
            sig = dict(entry=ec, model=mr['name'])
            small = dict(entry=ec, model=mr['name'], lam=mr['lam'], expectile=mr.get('expectile'), ended_by=mr.get('ended_by'), n=mr['n'], m=mr['m'],
                         last_diff=mr['last_diff'], be_norm=mr['be_norm'], newton_lp=mr['newton_lp'], cond=mr['cond'])
            ctx.case(st_en, sig, nontrivial=True, sample=small)
            ctx.count('entry point: judged models', '%s%s%s%s' % (label, ' +exposure' if ec['exposure'] else '', ' +weights' if ec['weights'] != 'none' else '',
                                                               ' (fitted before)' if ec['prefit'] else ''))
            if ec['entry'] == 'fit_quantile':
                ctx.count('fit_quantile ended by', '%s (%s model)' % (mr.get('ended_by'), 'already fitted' if ec['prefit'] else 'fresh'))
            thr, judged_ii, judged_iii, bad = _oracle_verdict(mr)
            if not (judged_ii or judged_iii):
                ctx.count('entry point: models not judged', '%s: ill-conditioned ((ii) not judged)' % label)
            if bad:
                ctx.fail(st_en, dict(kind='stationarity', entry=ec['entry'], cls=ec['model'], model=mr['name']), small,
                         observed=dict(reason=bad, lam=mr['lam'], expectile=mr.get('expectile'), ended_by=mr.get('ended_by'), last_diff=mr['last_diff']),
                         expected="stationary point of the penalised criterion defined by the model's own basis, penalty matrix and expectile on the data passed to the entry point",
                         oracle='NumPy gradient of the penalised deviance / asymmetric least-squares criterion at coef_')
    ops, idx = [], []
    for i, r in enumerate(results):
        c = r['case']
        ctx.count('fit status', r['status'] + ('/converged' if r.get('converged') else ('/not-converged' if r['status'] == 'ok' else '')))
        ctx.count('pair', '%s %s/%s' % (c['cls'], c['dist'], c['link']))
        ctx.count('response units', '%g' % c.get('y_scale', 1.0))
        ctx.count('feature units / exposure', '%s%s' % (c.get('feature_units', 'plain'), ' + exposure' if r.get('exposure') else ''))
        ctx.count('history before the judged fit', r.get('history', 'none'))
        if r['status'] not in ('ok', 'ValueError', 'generator-rejected', 'nonfinite-coef', 'nonfinite-oracle'):
            ctx.case(st_or, dict(case=c), nontrivial=True)
            ctx.fail(st_or, dict(kind='exception', exc=r['status']), dict(case=c), observed='%s: %s' % (r['status'], r['msg']),
                     expected='a fit or a ValueError', oracle='fit must not raise an unrelated exception')
            continue
        if r['status'] != 'ok' or not r.get('converged'):
            continue
        ctx.count('n vs m', 'n<m' if r['n'] < r['m'] else ('n=m' if r['n'] == r['m'] else 'n>m'))
        tau = c['expectile']
        ops.append('C01 step %s %s %s %s %d %d | %s | %s | %s | %s | %s | %s' % (
            c['dist'], c['link'], common.f2bits(float(c['levels'])), '-' if tau is None else common.f2bits(tau), r['n'], r['m'],
            _bits(r['B']), _bits(r['A']), _bits(r['y']), _bits(r['w']), ' '.join('1' if k else '0' for k in r['keep']), _bits(r['coef'])))
        idx.append(i)
    outs = ctx.driver.run(ops, parallel=min(16, max(1, len(ops))))
    for i, out in zip(idx, outs):
        r = results[i]
        c = r['case']
        sig = dict(case=c)
        nontriv = (c['weights_mode'] != 'none' or r['n'] <= r['m'] or r['has_constraint'] or c['lam_mode'] != 'default' or c['cls'] in ('GAM', 'ExpectileGAM'))
        small = dict(case=c, n=r['n'], m=r['m'], n_iter=r['n_iter'], last_diff=r['last_diff'], be_norm=r['be_norm'], newton_lp=r['newton_lp'], cond=r['cond'])
        # ---- contracts
        con = r['contracts']
        ctx.case(st_con, sig, nontrivial=nontriv)
        cbad = [k for k in ('QtQ', 'UtU', 'VtV') if con[k] > 1e-9] + [k for k in ('QR', 'EtE', 'SVD') if con[k] > 1e-8] + (['dmin'] if not con['dmin'] > 0 else [])
        if cbad:
            ctx.disagree(st_con, sig, con, 'contracts', 'LAPACK/Cholesky contract(s) %s not met numerically' % cbad)
        # ---- oracle
        ctx.case(st_or, sig, nontrivial=nontriv, sample=small)
        # stationarity "to numerical precision": (i) normwise backward error of the score equation
        # |grad| / (2 (|N| |beta| + |rhs|)) <= 1e-6 (clean tree: <= 1.5e-8 over 355 fits), and (ii) the Newton step the
        # gradient still asks for moves the linear predictor by <= thr = max(1e-6, 10 eps cond(N)) relatively
        # (clean tree: <= eps cond); problems with 10 eps cond(N) > 1e-3 are too ill-conditioned for (ii) to mean anything.
        # pyGAM solves the un-equilibrated system, so (ii) is judged against the RAW condition number; a problem that is
        # only badly SCALED (a raw timestamp in a linear term: cond_raw ~ 1e25, equilibrated cond ~ 1e3) is judged by the
        # coarse criterion (iii): the equilibrated backward error and the Newton step must stay below 1e-3 (clean tree:
        # <= 2.2e-5 on such problems; a solve that drops directions is off by O(1))
        thr, judged_ii, judged_iii, oracle_bad = _oracle_verdict(r)
        ctx.count('conditioning', 'cond<=4.5e11 (judged)' if judged_ii else ('badly scaled only: coarse criterion (iii)' if judged_iii else 'ill-conditioned ((ii) not judged)'))
        fd_ok = all(abs(num - ana) <= 1e-4 * sc + 1e-6 * abs(ana) for (num, ana, sc) in r['fd'])
        if not fd_ok:
            ctx.count('oracle', 'fd-mismatch of the analytic gradient (non-smooth point or cancellation)')
        if oracle_bad:
            ctx.fail(st_or, dict(kind='stationarity', cls=c['cls'], pair='%s/%s' % (c['dist'], c['link']), nm=('n<m' if r['n'] < r['m'] else 'n>=m')), dict(case=c, n=r['n'], m=r['m']),
                     observed=dict(reason=oracle_bad, n_iter=r['n_iter'], last_diff=r['last_diff']), expected='stationary point of the penalised criterion / closed-form solution',
                     oracle='NumPy gradient of the penalised deviance at coef_')
        # ---- model step (the Float model solves the RAW normal equations by Gaussian elimination: its accuracy follows the
        # raw condition number, not the equilibrated one the oracle uses)
        thr_m = max(1e-6, 10 * EPS * r.get('cond_raw', r['cond']))
        judged_m = thr_m <= 1e-3
        ctx.case(st, sig, nontrivial=nontriv, sample=small)
        if out == 'bad-op':
            if judged_m:
                ctx.disagree(st, sig, 'n/a', 'bad-op', 'model could not evaluate the step (singular normal matrix or malformed op)')
            else:
                # 10 eps cond(N) > 1e-3: the normal matrix is singular to working precision, Gaussian elimination in the
                # Float model finds no pivot; nothing is judged on such a problem (see conditioning counter)
                ctx.count('model step', 'not evaluated: normal matrix singular to working precision (not judged)')
            continue
        vals = [common.bits2f(t) for t in out.split()]
        rel_res, rel_lp, beta1 = vals[0], vals[1], np.array(vals[2:])
        # the model reports both relative to |rhs| / |eta|; re-express them on the cancellation-free scales used for
        # the oracle (|B|'W^2|z| and max(|eta|, |z|)), from the model's own step beta1
        # (the residual rhs - N beta is a difference of terms of size |B|'W^2|z| and |A||beta| — the latter is 1e9-weighted
        # when constraints are active — so its rounding noise is relative to their sum)
        rel_res = rel_res * r['rhs_norm'] / (r['rhs_abs_norm'] + r.get('Abeta_abs_norm', 0.0) + 1e-300)
        rel_lp = float(np.linalg.norm(r['B'] @ (beta1 - r['coef'])) / r['lp_scale'])
        bad_step = None
        if r.get('zero_solution'):
            # coef_ is rounding noise around the exact optimum 0 (no information in the kept rows): relative residuals of
            # the model step at coef_ are noise / noise; the oracle above judged the claim beta = 0
            ctx.count('zero solution (judged as the claim beta = 0)', 'n')
        elif judged_m and not (rel_res <= thr_m * 10):
            bad_step = 'model score residual %.3g (relative to the right-hand side) > %.3g' % (rel_res, thr_m * 10)
        elif judged_m and not (rel_lp <= thr_m):
            bad_step = 'linear predictor moves by %.3g (relative) under one model step > %.3g' % (rel_lp, thr_m)
        elif abs(rel_lp - r['newton_lp']) > 1e-3 * max(rel_lp, r['newton_lp']) + 10 * thr_m and judged_m:
            bad_step = 'model step and NumPy Newton step disagree: %.3g vs %.3g' % (rel_lp, r['newton_lp'])
        if bad_step and not oracle_bad:
            ctx.disagree(st, sig, dict(last_diff=r['last_diff'], be_norm=r['be_norm'], newton_lp=r['newton_lp'], cond=r['cond']), dict(rel_score_residual=rel_res, rel_lp_change=rel_lp), bad_step)
        if 'closed_form_pred' in r:
            ctx.case(st_cf, sig, nontrivial=nontriv)
            mp_ = r['B'] @ beta1
            dm = float(np.abs(mp_ - r['pred']).max() / (max(np.abs(r['pred']).max(), np.abs(mp_).max()) + 1e-300))
            if dm > max(1e-6, thr_m) and not oracle_bad:
                ctx.disagree(st_cf, sig, dict(pred=r['pred'][:5].tolist()), dict(model=mp_[:5].tolist(), reldiff=dm), 'model closed form differs from the fitted values')
    ctx.partial.append('solve_correct is proved under the LAPACK/Cholesky contracts (validated numerically each run), not for LAPACK itself; IEEE rounding and the sqrt(eps) ridge are not modelled')


def replay(ctx, rp):
    run(ctx)
