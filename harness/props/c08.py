"""
C08 — reported model statistics equal their documented definitions at the fit.

Theorems: lean/PyGam/Props/C08.lean (under the LAPACK / Cholesky contracts of the PIRLS solve: tr(U1 U1') is the trace
of the influence matrix WB (WB'WB + A)^-1 WB' and lies in (0, min(n, m)]; B B' = N^-1 (WB'WB) N^-1; se^2 = diag cov;
scale = user value or Pearson / (n - edof); AIC / AICc / GCV / UBRE / explained deviance / McFadden / deviance
residual / accuracy / p-value formulas made explicit and related to each other).

Correspondence (lean/PyGam/Drv/C08.lean runs lean/PyGam/Model/Stats.lean at Float), after real fits of every model
class (known / unknown scale, weights incl. zeros, n < m, n = m, n > m, constraints, all lam modes — harness/gen/fitgen.py):
  stats.closed-form   every scalar entry of statistics_ (scale, AIC, AICc, GCV, UBRE, pseudo_r2 x3, deviance) ==
                      Stats.scalars(y, mu, w, edof, loglik, null loglik) to 1e-8
  stats.solve         statistics_['edof'], ['cov'] (entrywise, relative to max |cov|), ['se'] == Stats.edofOf / covOf /
                      seOf on the Gaussian-elimination solution of (WB'WB + A) Bm = WB' at the exported (B, A, y, w,
                      coef_, mask), to thr = max(1e-6, 10 eps cond(N)) (not judged when thr > 1e-3)
  eval.outputs        deviance_residuals (scaled and not), score, LogisticGAM.accuracy, loglikelihood (as the kernel
                      difference to the null mean) on held-out data and on the training data == model
  wald.pvalues        statistics_['p_values'] == 1 - cdf(Stats.cdfArgs(Stats.waldStat(pinv block, centred coefficients)))
  accuracy.literals   LogisticGAM.accuracy(y=, mu=) on vectors seeded with the numeric literals of the code (0.5 +- ulp)
  lapack.contracts    the contracts the theorems assume, validated on the loop locals of the last iteration
Oracle (NumPy / SciPy only, independent of pyGAM internals and of the model): dense influence-matrix trace and a QR
form of it, sandwich covariance, Pearson scale, closed-form log-densities (gammaln), information criteria, pseudo R^2,
Wald p-values with an eigen-decomposition pseudo-inverse, residuals, accuracy.
"""
import ast
import inspect
import multiprocessing as mp
import textwrap

import numpy as np

from harness import common
from harness.gen import fitgen

EPS = np.finfo(float).eps
GAMMA = 1.4      # documented default of _estimate_GCV_UBRE (property text)


# ---------------------------------------------------------------------------------------------------------
# independent NumPy / SciPy formulas (oracle side)
# ---------------------------------------------------------------------------------------------------------
def np_loglik_terms(dist, levels, scale, y, mu, w):
    """closed-form log-densities of the exponential-dispersion families with prior weights w (dispersion scale / w);
    the binomial has no dispersion (weights do not enter), the Poisson mean is mu * w (weights are exposures)"""
    from scipy.special import gammaln
    with np.errstate(all='ignore'):
        if dist == 'normal':
            s2 = scale / w
            return -0.5 * np.log(2 * np.pi * s2) - (y - mu) ** 2 / (2 * s2)
        if dist == 'binomial':
            n = levels
            p = mu / n
            lc = gammaln(n + 1) - gammaln(y + 1) - gammaln(n - y + 1)
            t1 = np.where(y == 0, 0.0, y * np.log(p))
            t2 = np.where(n - y == 0, 0.0, (n - y) * np.log1p(-p))
            return lc + t1 + t2
        if dist == 'poisson':
            lam = mu * w
            return np.where(y == 0, 0.0, y * np.log(lam)) - lam - gammaln(y + 1)
        if dist == 'gamma':
            a = w / scale
            return a * np.log(a / mu) + (a - 1) * np.log(y) - a * y / mu - gammaln(a)
        if dist == 'inv_gauss':
            lam = w / scale
            return 0.5 * np.log(lam / (2 * np.pi * y ** 3)) - lam * (y - mu) ** 2 / (2 * mu ** 2 * y)
    raise ValueError(dist)


def np_loglik(dist, levels, scale, y, mu, w, poisson_gam):
    """the documented densities in closed form, double precision throughout
    (PoissonGAM treats the weights as exposures: the pmf is evaluated at the counts round(y * w))"""
    if poisson_gam:
        y = np.round(y * w)
    return np.float64(np.sum(np_loglik_terms(dist, levels, scale, y, mu, w)))


def np_total_dev(dist, levels, y, mu, w):
    with np.errstate(all='ignore'):
        return np.float64(np.sum(w * fitgen.np_deviance(dist, levels, y, mu)))


def np_pinv_sym(C):
    """Moore-Penrose inverse of a symmetric PSD block by eigen-decomposition, with SciPy's documented cut-off
    max(M, N) * eps * largest singular value; returns (pinv, rank, gap) — gap = distance (in factors) of the nearest
    eigenvalue to the cut-off"""
    Cs = (C + C.T) / 2
    la, V = np.linalg.eigh(Cs)
    a = np.abs(la)
    cut = max(C.shape) * EPS * a.max()
    keep = a > cut
    rank = int(keep.sum())
    with np.errstate(all='ignore'):
        inv = np.where(keep, 1.0 / np.where(keep, la, 1.0), 0.0)
    P = (V * inv) @ V.T
    ratios = np.concatenate([a[keep] / max(cut, 1e-300), max(cut, 1e-300) / np.maximum(a[~keep], 1e-300)]) if len(a) else np.array([np.inf])
    gap = float(ratios.min()) if len(ratios) else float('inf')
    cond_eff = float(a.max() / a[keep].min()) if rank else float('inf')
    return P, rank, gap, cond_eff


def _sgn_sq(r):
    return r * np.abs(r)


# ---------------------------------------------------------------------------------------------------------
# one fit
# ---------------------------------------------------------------------------------------------------------
def _f(a):
    return np.asarray(a, dtype=float)


def _worker(case):
    import warnings
    warnings.filterwarnings('ignore')
    import scipy as sp
    import scipy.stats  # noqa
    import scipy.linalg  # noqa
    pygam = common.import_pygam()
    from pygam.callbacks import CallBack
    from pygam.terms import SplineTerm
    try:
        b = fitgen.build(case, pygam)
    except ValueError as e:
        return dict(case=case, status='generator-rejected', msg=str(e)[:80])
    gam, X, y, w = b['gam'], b['X'], b['y'], b['weights']

    class Capture(CallBack):
        def __init__(self):
            super().__init__(name='capture')
            self.last = None

        def on_loop_end(self, W, mask, E, Q, R, U, d, Vt, WB, U1, diff):
            self.last = dict(Wd=np.asarray(W.diagonal()).copy(), mask=np.asarray(mask).copy(), E=np.asarray(E).copy(),
                             Q=np.asarray(Q).copy(), R=np.asarray(R).copy(), U=np.asarray(U).copy(), d=np.asarray(d).copy(),
                             Vt=np.asarray(Vt).copy(), U1=np.asarray(U1).copy(),
                             WB=np.asarray(WB.todense()) if hasattr(WB, 'todense') else np.asarray(WB).copy(), diff=float(diff))
            return float(diff)

    cap = Capture()
    gam.callbacks = list(gam.callbacks) + [cap]
    first = None
    if case.get('refit'):
        # history: the SAME object is first fitted on other data (other sample size, very different noise level, other
        # weights); every statistic checked below must be that of the second fit alone
        X1, y1, w1 = _first_data(case, X, y, w)
        # scale event between the fits (dedicated classes): the first fit runs with another setting of the public `scale`
        # parameter (a supplied value where the judged fit estimates, or the other way round), changed back through
        # set_params before the judged fit — what counts is the setting at the time of the fit
        ev = case.get('first_scale', 'same')
        if ev != 'same':
            gam.set_params(scale=ev)
        st1, out1 = fitgen.fit_quiet(gam, X1, y1, w1)
        if ev != 'same':
            gam.set_params(scale=case.get('scale'))
        first = dict(status=st1, n=len(y1), scale_event=('same' if ev == 'same' else '%s -> %s' % ('supplied' if ev is not None else 'estimated', 'supplied' if case.get('scale') is not None else 'estimated')))
        if st1 == 'ok':
            first['scale'] = float(gam.statistics_['scale'])
    status, out = fitgen.fit_quiet(gam, X, y, w)
    res = dict(case=case, status=status, msg=out if status != 'ok' else '', desc=b['desc'], first=first)
    if status != 'ok':
        return res
    converged = 'did not converge' not in out
    diffs = gam.logs_['diffs']
    res.update(converged=converged, n_iter=len(diffs), last_diff=float(diffs[-1]))
    coef = _f(gam.coef_).ravel()
    n, m = X.shape[0], len(coef)
    dist, link, levels = case['dist'], case['link'], float(case['levels'])
    tau = case['expectile']
    poisson_gam = case['cls'] == 'PoissonGAM'
    known = 1.0 if dist in ('binomial', 'poisson') else case.get('scale')
    S = gam.statistics_
    B = _f(gam.terms.build_columns(X).todense())
    P = _f(gam.terms.build_penalties().todense())
    A = P + np.sqrt(EPS) * np.eye(m)
    if gam.terms.hasconstraint:
        A = A + _f(gam.terms.build_constraints(coef, gam._constraint_lam, gam._constraint_l2).todense())
    wv = np.ones(n) if w is None else np.asarray(w, dtype=np.float32).astype(float)
    yv = _f(y)
    mu = _f(gam.predict_mu(X))
    L = cap.last
    keep = L['mask'].astype(bool)
    impl = dict(edof=float(S['edof']), scale=float(S['scale']), cov=_f(S['cov']), se=_f(S['se']), AIC=float(S['AIC']),
                AICc=float(S['AICc']), GCV=None if S['GCV'] is None else float(S['GCV']),
                UBRE=None if S['UBRE'] is None else float(S['UBRE']),
                explained=float(S['pseudo_r2']['explained_deviance']), mcf=float(S['pseudo_r2']['McFadden']),
                mcfadj=float(S['pseudo_r2']['McFadden_adj']), r2_keys=list(S['pseudo_r2'].keys()),
                deviance=float(S['deviance']), ll=float(S['loglikelihood']), p_values=[float(p) for p in S['p_values']],
                n_samples=int(S['n_samples']), edof_per_coef=_f(S['edof_per_coef']), keys=sorted(S.keys()))
    res.update(n=n, m=m, B=B, A=A, y=yv, w=wv, keep=keep, coef=coef, mu=mu, impl=impl, known=known,
               has_constraint=bool(gam.terms.hasconstraint), poisson_gam=poisson_gam)

    # ---------------- contracts on the loop locals of the last iteration
    k = L['R'].shape[0]
    con = {}
    con['QtQ'] = float(np.abs(L['Q'].T @ L['Q'] - np.eye(L['Q'].shape[1])).max())
    con['QR'] = float(np.abs(L['Q'] @ L['R'] - L['WB']).max() / (np.abs(L['WB']).max() + 1e-300))
    con['EtE'] = float(np.abs(L['E'].T @ L['E'] - A).max() / (np.abs(A).max() + 1e-300))
    RE = np.vstack([L['R'], L['E']])
    con['SVD'] = float(np.abs(L['U'][:, :m] @ np.diag(L['d']) @ L['Vt'] - RE).max() / (np.abs(RE).max() + 1e-300))
    con['UtU'] = float(np.abs(L['U'].T @ L['U'] - np.eye(L['U'].shape[0])).max())
    con['UUt'] = float(np.abs(L['U'] @ L['U'].T - np.eye(L['U'].shape[0])).max())     # row contract of edof_le_k
    con['U1'] = float(np.abs(L['U'][:k, :m] - L['U1']).max()) if L['U1'].shape == (k, m) else float('inf')
    con['VtV'] = float(np.abs(L['Vt'] @ L['Vt'].T - np.eye(m)).max())
    con['dmin'] = float(L['d'].min())
    con['k'] = int(k)
    con['k_ok'] = bool(k == min(int(keep.sum()), m))
    res['contracts'] = con
    res['a_ok'] = bool(con['EtE'] <= 1e-8)

    # ---------------- independent oracle
    orc = {}
    eta = B @ coef
    with np.errstate(all='ignore'):
        mu_o = fitgen.np_mu(link, levels, eta)
        g = fitgen.np_grad(link, levels, mu_o)
        V = fitgen.np_V(dist, levels, mu_o)
        asym = np.ones(n) if tau is None else np.where(yv > mu_o, tau, 1 - tau)
        W2 = wv * asym / (V * g * g)
        Wd = np.sqrt(W2)
        keep_o = (np.abs(Wd) >= np.sqrt(EPS)) & np.isfinite(Wd)
    orc['mu_rel'] = float(np.abs(mu_o - mu).max() / (np.abs(mu).max() + 1e-300))
    orc['mask_equal'] = bool((keep_o == keep).all())
    WB = (Wd[:, None] * B)[keep_o]
    M = WB.T @ WB
    N = M + A
    if not np.isfinite(N).all():
        res['status'] = 'nonfinite-oracle'
        return res
    ev = np.linalg.eigvalsh((N + N.T) / 2)
    cond = float(ev.max() / max(ev.min(), 1e-300))
    res['cond'] = cond
    try:
        Bm = np.linalg.solve(N, WB.T)
        orc['edof_dense'] = float(np.trace(WB @ Bm))           # trace of the dense influence matrix
        orc['covB'] = Bm @ Bm.T                                # N^-1 WB'WB N^-1
    except np.linalg.LinAlgError:
        orc['edof_dense'] = float('nan')
        orc['covB'] = np.full((m, m), np.nan)
    # numerically stable form: thin QR of [WB; A^(1/2)]
    la, Ve = np.linalg.eigh((A + A.T) / 2)
    Ah = (Ve * np.sqrt(np.clip(la, 0, None))) @ Ve.T
    Qt, Rt = np.linalg.qr(np.vstack([WB, Ah]))
    Q1 = Qt[:WB.shape[0]]
    orc['edof_qr'] = float(np.sum(Q1 * Q1))
    try:
        Bm2 = sp.linalg.solve_triangular(Rt, Q1.T)
        orc['covB_qr'] = Bm2 @ Bm2.T
    except Exception:  # noqa
        orc['covB_qr'] = np.full((m, m), np.nan)
    edof = np.float64(impl['edof'])
    ll_i = np.float64(impl['ll'])
    with np.errstate(all='ignore'):
        pear = np.float64(np.sum(wv * (yv - mu) ** 2 / fitgen.np_V(dist, levels, mu)))
        scale_o = np.float64(known) if known is not None else pear / (n - edof)
        orc['scale'] = scale_o
        sc = np.float64(impl['scale'])       # the scale the remaining formulas are documented in terms of
        ll_o = np_loglik(dist, levels, sc, yv, mu, wv, poisson_gam)
        mu0 = np.full(n, yv.mean())
        ll0_o = np_loglik(dist, levels, sc, yv, mu0, wv, poisson_gam)
        D = np_total_dev(dist, levels, yv, mu, wv)
        D0 = np_total_dev(dist, levels, yv, mu0, wv)
        orc.update(ll=ll_o, ll0=ll0_o, D=D, D0=D0)
        est = known is None
        aic = -2 * ll_i + 2 * edof + (2 if est else 0)
        orc['AIC'] = aic
        orc['AICc_corr'] = 2 * (edof + 1) * (edof + 2) / (n - edof - 2)
        orc['AICc'] = aic + orc['AICc_corr']
        orc['GCV'] = (n * D / (n - GAMMA * edof) ** 2) if est else None
        orc['UBRE'] = None if est else (D / n + 2 * GAMMA * edof * sc / n)
        orc['explained'] = 1 - D / D0
        orc['mcf'] = 1 - ll_i / ll0_o
        orc['mcfadj'] = 1 - (ll_i - edof) / ll0_o
        orc['deviance'] = D / sc
        orc['dtol'] = 1e-8 * abs(D) + 1e-11 * np.float64(np.sum(wv * (np.abs(yv) + np.abs(mu) + 1)))
        orc['d0tol'] = 1e-8 * abs(D0) + 1e-11 * np.float64(np.sum(wv * (np.abs(yv) + np.abs(mu0) + 1)))
    res['ll0'] = ll0_o

    # ---------------- Wald p-values: inputs for the model + independent recomputation
    wald = []
    for ti in range(len(gam.terms)):
        idxs = gam.terms.get_coef_indices(ti)
        Cb = impl['cov'][idxs][:, idxs]
        cb = coef[idxs].copy()
        is_spline = isinstance(gam.terms[ti], SplineTerm)
        ent = dict(term=ti, k=len(idxs), is_spline=bool(is_spline), c=cb, p_impl=impl['p_values'][ti], kind=gam.terms[ti]._name)
        if not np.isfinite(Cb).all():
            ent['skip'] = 'nonfinite-cov'
            wald.append(ent)
            continue
        Pinv, rank = sp.linalg.pinv(Cb, return_rank=True)        # library contract (trusted): SciPy's pseudo-inverse
        ent.update(P=_f(Pinv), rank=int(rank))
        cn = np.abs(Cb).max() + 1e-300
        ent['mp1'] = float(np.abs(Cb @ Pinv @ Cb - Cb).max() / cn)
        # independent: eigen-decomposition pseudo-inverse, scipy.stats reference distributions
        Po, rank_o, gap, cond_eff = np_pinv_sym(Cb)
        cc = cb - cb.mean() if is_spline else cb
        score_o = float(cc @ Po @ cc)
        with np.errstate(all='ignore'):
            if known is not None:
                p_o = 1 - sp.stats.chi2.cdf(score_o, rank_o) if rank_o > 0 else float('nan')
            else:
                p_o = 1 - sp.stats.f.cdf(score_o / rank_o, rank_o, n - edof) if rank_o > 0 else float('nan')
        ent.update(rank_o=rank_o, gap=gap, cond_eff=cond_eff, score_o=score_o, p_o=float(p_o))
        wald.append(ent)
    res['wald'] = wald

    # ---------------- evaluation data: held-out and training
    rs = np.random.default_rng(case['seed'] + 7)
    Xq = b['Xq']
    nq = Xq.shape[0]
    evals = []
    sets = [('train', X, yv, w)]
    yq = fitgen._response(rs, dist, link, int(case['levels']), rs.normal(size=nq))
    wq = rs.choice([0.25, 0.5, 1.0, 1.5, 2.0, 3.0], size=nq) if case['seed'] % 3 else None
    sets.append(('heldout', Xq, yq, wq))
    for name, Xe, ye, we in sets:
        ent = dict(name=name, y=_f(ye), w=np.ones(len(ye)) if we is None else np.asarray(we, dtype=np.float32).astype(float),
                   weighted=we is not None)
        try:
            import contextlib
            import io
            with contextlib.redirect_stdout(io.StringIO()):
                mue = _f(gam.predict_mu(Xe))
                if name == 'heldout' and dist in ('normal', 'gamma', 'inv_gauss') and len(ye) > 2 and np.isfinite(mue[2]) and mue[2] > 0:
                    ye = ye.copy()
                    ye[2] = mue[2]                       # exact fit: sign 0, zero residual
                    ent['y'] = _f(ye)
                kw = {} if we is None else dict(weights=we)
                ent['mu'] = mue
                ent['r0'] = _f(gam.deviance_residuals(Xe, ye, scaled=False, **kw))
                ent['r1'] = _f(gam.deviance_residuals(Xe, ye, scaled=True, **kw))
                if case['cls'] == 'LogisticGAM':
                    ent['score'] = float(gam.score(Xe, ye))                   # accuracy
                    ent['acc'] = float(gam.accuracy(Xe, ye))
                    ent['acc_mu'] = float(gam.accuracy(y=ye, mu=mue))
                    from pygam import GAM
                    ent['expl'] = float(GAM.score(gam, Xe, ye, **kw))          # the base-class explained deviance
                else:
                    ent['score'] = float(gam.score(Xe, ye, **kw))
                    ent['expl'] = ent['score']
                ent['ll'] = float(gam.loglikelihood(Xe, ye, **kw))
            ent['status'] = 'ok'
        except ValueError as e:
            ent['status'] = 'ValueError'
            ent['msg'] = str(e)[:100]
            evals.append(ent)
            continue
        we_ = ent['w']
        ye = ent['y']
        with np.errstate(all='ignore'):
            mu0e = np.full(len(ye), ye.mean())
            ent['mu0'] = mu0e
            ent['ll_o'] = np_loglik(dist, levels, impl['scale'], ye, mue, we_, poisson_gam)
            ent['ll0_o'] = np_loglik(dist, levels, impl['scale'], ye, mu0e, we_, poisson_gam)
            dv = we_ * fitgen.np_deviance(dist, levels, ye, mue)
            ent['r0_o'] = np.sign(ye - mue) * np.sqrt(dv)
            ent['r1_o'] = np.sign(ye - mue) * np.sqrt(dv / impl['scale'])
            De, D0e = np.float64(np.sum(dv)), np_total_dev(dist, levels, ye, mu0e, we_)
            ent['expl_o'] = 1 - De / D0e
            ent['D0e'] = float(D0e)
            ent['expl_tol'] = 1e-8 * (1 + abs(De / D0e)) + (1e-8 * abs(De) + 1e-11 * np.float64(np.sum(we_ * (np.abs(ye) + np.abs(mue) + 1)))) / abs(D0e) * (1 + abs(De / D0e))
            ent['acc_o'] = float(np.mean((mue > 0.5).astype(float) == ye))
            ent['mag'] = we_ * (np.abs(ye) + np.abs(mue) + 1)
        evals.append(ent)
    res['evals'] = evals
    # the statistics describe the FIT: evaluating the model on other data (score, residuals, log-likelihood on the held-out
    # set above) must leave every entry as it was reported after the fit
    S2 = gam.statistics_
    changed = []
    try:
        after = dict(edof=float(S2['edof']), scale=float(S2['scale']), AIC=float(S2['AIC']), AICc=float(S2['AICc']),
                     GCV=None if S2['GCV'] is None else float(S2['GCV']), UBRE=None if S2['UBRE'] is None else float(S2['UBRE']),
                     explained=float(S2['pseudo_r2']['explained_deviance']), mcf=float(S2['pseudo_r2']['McFadden']),
                     mcfadj=float(S2['pseudo_r2']['McFadden_adj']), deviance=float(S2['deviance']), ll=float(S2['loglikelihood']),
                     n_samples=int(S2['n_samples']))
        for k_, v_ in after.items():
            a_ = impl[k_]
            same = (a_ is None and v_ is None) or (a_ is not None and v_ is not None and (a_ == v_ or (a_ != a_ and v_ != v_)))
            if not same:
                changed.append((k_, a_, v_))
        if not (np.array_equal(_f(S2['cov']), impl['cov'], equal_nan=True) and np.array_equal(_f(S2['se']), impl['se'], equal_nan=True)
                and [float(p) for p in S2['p_values']] == impl['p_values'] or any(p != p for p in impl['p_values'])):
            changed.append(('cov/se/p_values', None, None))
    except Exception as e:  # noqa
        changed.append(('statistics_ unreadable after the evaluations: %s' % type(e).__name__, None, None))
    res['stats_changed'] = changed
    res['orc'] = orc
    return res


def _first_data(case, X, y, w):
    """data of the first fit of a refit case: every other row (half the sample size, all rows when n < 8), responses
    with a very different level and noise (still in the support of the family / domain of the link), other weights"""
    rs = np.random.default_rng(case['seed'] + 13)
    n = len(y)
    idx = np.arange(0, n, 2) if n >= 8 else np.arange(n)
    X1, y1 = X[idx].copy(), np.asarray(y, dtype=float)[idx].copy()
    d = case['dist']
    if d == 'normal' and case['link'] == 'identity':
        y1 = 3.0 * y1 + 5.0 * rs.normal(size=len(y1))
    elif d in ('normal', 'gamma', 'inv_gauss'):            # positive responses
        y1 = y1 * np.exp(0.8 * rs.normal(size=len(y1)))
    else:                                                  # binomial / poisson: permute
        y1 = y1[rs.permutation(len(y1))]
    w1 = None if (w is not None and case['seed'] % 2) else rs.choice([0.5, 1.0, 2.0, 3.0], size=len(y1))
    return X1, y1, w1


def gen_refit_cases(rng, tier):
    """refit cases: generic GAM with a distribution given by name (the Distribution object survives between fits),
    the dedicated classes as controls, estimated and user-supplied scale, with and without weights"""
    pairs = [('GAM', 'normal', 'identity'), ('GAM', 'gamma', 'log'), ('GAM', 'inv_gauss', 'log'), ('GAM', 'normal', 'log'),
             ('GAM', 'gamma', 'inverse'), ('GAM', 'inv_gauss', 'inv_squared'), ('GAM', 'binomial', 'logit'), ('GAM', 'poisson', 'log'),
             ('LinearGAM', 'normal', 'identity'), ('GammaGAM', 'gamma', 'log'), ('InvGaussGAM', 'inv_gauss', 'log'),
             ('ExpectileGAM', 'normal', 'identity'), ('LogisticGAM', 'binomial', 'logit'), ('PoissonGAM', 'poisson', 'log')]
    reps = 2 if tier == 'quick' else 8
    cases = []
    for rep in range(reps):
        for i, (cls, dist, link) in enumerate(pairs):
            dedicated = cls in ('LinearGAM', 'GammaGAM', 'InvGaussGAM', 'ExpectileGAM')
            cases.append(dict(
                seed=rng.randrange(10 ** 9), cls=cls, dist=dist, link=link,
                levels=rng.choice([2, 5]) if (cls == 'GAM' and dist == 'binomial') else 1,
                expectile=rng.choice([0.25, 0.5, 0.9]) if cls == 'ExpectileGAM' else None,
                scale=((None, rng.choice([0.3, 2.5]))[(rep + i) % 2] if rep < 2 else rng.choice([None, None, 0.3, 2.5])) if dedicated else None,
                first_scale=((0.7, None)[(rep + i) % 2] if (dedicated and rep < 2) else 'same'),
                n_mode=rng.choice(['mid', 'large'] if tier == 'quick' else ['m+1', 'small', 'mid', 'large']),
                weights_mode=['none', 'pos'][(rep + i) % 2] if tier == 'quick' else rng.choice(['none', 'pos', 'int']),
                lam_mode=rng.choice(['default', 'default', 'mixed']), constraints=False, max_terms=rng.choice([1, 2]),
                refit=True))
    return cases


def _bits(a):
    return ' '.join(common.f2bits(v) for v in np.asarray(a, dtype=float).ravel())


def _close(a, b, tol, rtol=0.0):
    """nan / inf aware: both nan, or equal, or within tol + rtol * size"""
    if a is None or b is None:
        return a is None and b is None
    a, b = float(a), float(b)
    # magnitudes beyond 1e300 are overflow territory: +-inf and +-1e305 are the same answer ("diverged, with this sign")
    if abs(a) > 1e300 and abs(b) > 1e300 and (a > 0) == (b > 0):
        return True
    if a == b:
        return True
    if a != a or b != b:
        return (a != a) and (b != b)
    if np.isinf(a) or np.isinf(b):
        return False
    if not np.isfinite(tol):
        tol = 0.0
    return abs(a - b) <= tol + rtol * max(abs(a), abs(b))


def _resid_ok(a, b, tol):
    """deviance residuals compared through their signed squares (the weighted unit deviances); a NaN on one side is
    accepted where the other side is a zero within rounding (a unit deviance that rounds to -1e-17 has a NaN root)"""
    with np.errstate(all='ignore'):
        sa, sb = _sgn_sq(a), _sgn_sq(b)
        ok = (np.abs(sa - sb) <= tol) | (np.isnan(a) & np.isnan(b)) | (a == b)
        ok |= np.isnan(a) & (np.abs(sb) <= tol)
        ok |= np.isnan(b) & (np.abs(sa) <= tol)
    return ok


def _ll_tol(ll, n, wmax, scale):
    with np.errstate(all='ignore'):
        a = np.float64(wmax) / abs(np.float64(scale))       # largest shape parameter w / scale: gammaln(a) ~ a log a cancels
        t = 1e-9 * (1 + abs(np.float64(ll))) + 1e-12 * n * (1 + a) * (1 + np.log1p(a))
    return float(t) if np.isfinite(t) else 0.0


def _scalar_tols(r):
    """tolerances of the closed-form statistics (1e-8 relative to the size of the parts they are computed from)"""
    I, O = r['impl'], r['orc']
    n = np.float64(r['n'])
    edof, sc = np.float64(I['edof']), np.float64(I['scale'])
    ll = np.float64(I['ll'])
    with np.errstate(all='ignore'):
        t = {}
        t['scale'] = 1e-8 * abs(O['scale'])
        t['AIC'] = 1e-8 * (abs(2 * ll) + 2 * abs(edof) + 2)
        t['AICc'] = t['AIC'] + 1e-8 * abs(O['AICc_corr'])
        t['GCV'] = None if O['GCV'] is None else 1e-8 * abs(O['GCV']) + n * O['dtol'] / (n - GAMMA * edof) ** 2
        t['UBRE'] = None if O['UBRE'] is None else 1e-8 * (abs(O['D']) / n + abs(2 * GAMMA * edof * sc / n)) + O['dtol'] / n
        q = abs(O['D'] / O['D0']) if O['D0'] else float('inf')
        t['explained'] = 1e-8 * (1 + q) + (O['dtol'] + q * O['d0tol']) / abs(O['D0']) if O['D0'] else 0.0
        # the null log-likelihood is recomputed (the fitted one is passed through): its own rounding enters the ratios
        l0t = _ll_tol(O['ll0'], n, np.max(r['w']), sc) / abs(O['ll0']) if O['ll0'] else 0.0
        t['mcf'] = (1e-8 + l0t) * (1 + abs(ll / O['ll0'])) if O['ll0'] else 0.0
        t['mcfadj'] = (1e-8 + l0t) * (1 + abs((ll - edof) / O['ll0']) + abs(edof / O['ll0'])) if O['ll0'] else 0.0
        t['deviance'] = 1e-8 * abs(O['deviance']) + O['dtol'] / abs(sc)
    for k_, v in t.items():
        if v is not None and not np.isfinite(v):
            t[k_] = 0.0
    return t


SCALARS = ['scale', 'AIC', 'AICc', 'GCV', 'UBRE', 'explained', 'mcf', 'mcfadj', 'deviance']


def _oracle_findings(r, margin=10.0):
    """list of (stat, observed, expected, detail) where the real code departs from the documented formula by more than
    margin x tolerance"""
    I, O = r['impl'], r['orc']
    n, m = r['n'], r['m']
    bad = []
    tols = _scalar_tols(r)
    zero_scale = (I['scale'] == 0)      # perfect fit with an estimated scale: every scaled deviance is 0/0 (not judged, see _process)
    for s_ in SCALARS:
        tol = tols[s_]
        if zero_scale and s_ in ('explained', 'deviance'):
            continue
        if s_ == 'explained' and not (abs(O.get('D0', 1.0)) > 0):
            continue        # null deviance exactly 0 (a single observation): 1 - D / 0 is +-inf by the sign of rounding noise in D
        if s_ in ('mcf', 'mcfadj') and not (np.isfinite(O.get('ll0', 0.0)) and abs(O.get('ll0', 0.0)) > 0 and np.isfinite(I['ll'])):
            continue        # null log-likelihood exactly 0 or non-finite (a single observation, a zero scale): 1 - ll / ll0 is 0/0 or x/0
        if not _close(I[s_], O[s_], (tol or 0.0) * margin, rtol=1e-9 * margin):
            bad.append((s_, I[s_], O[s_], 'tol %.3g' % ((tol or 0.0) * margin)))
    # log-likelihood against the closed-form densities
    if np.isfinite(I['ll']) or np.isfinite(O['ll']):
        tol = _ll_tol(O['ll'], n, np.max(r['w']), I['scale'])
        if not _close(I['ll'], O['ll'], tol * margin):
            bad.append(('loglikelihood', I['ll'], O['ll'], 'tol %.3g' % (tol * margin)))
    if I['n_samples'] != n:
        bad.append(('n_samples', I['n_samples'], n, ''))
    if I['r2_keys'] != ['explained_deviance', 'McFadden', 'McFadden_adj']:
        bad.append(('pseudo_r2 keys', I['r2_keys'], ['explained_deviance', 'McFadden', 'McFadden_adj'], ''))
    if (I['GCV'] is None) == (I['UBRE'] is None) or (I['UBRE'] is None) != (r['known'] is None):
        bad.append(('GCV/UBRE selection', dict(GCV=I['GCV'], UBRE=I['UBRE']), 'UBRE iff the scale is known', ''))
    # se = sqrt(diag cov)
    with np.errstate(all='ignore'):
        se_o = np.sqrt(np.diag(I['cov']))
    if not np.allclose(I['se'], se_o, rtol=1e-8 * margin, atol=0, equal_nan=True):
        bad.append(('se', I['se'][:4].tolist(), se_o[:4].tolist(), 'se != sqrt(diag(cov))'))
    if not np.allclose(I['cov'], I['cov'].T, rtol=0, atol=1e-9 * margin * (np.abs(I['cov']).max() + 1e-300), equal_nan=True):
        bad.append(('cov symmetry', 'asymmetric', 'symmetric', ''))
    # edof per coefficient: diag of U1 U1', each in [0, 1], summing to edof
    epc = I['edof_per_coef']
    if abs(float(epc.sum()) - I['edof']) > 1e-9 * margin * max(1, abs(I['edof'])) or epc.min() < -1e-9 * margin or epc.max() > 1 + 1e-9 * margin:
        bad.append(('edof_per_coef', [float(epc.min()), float(epc.max()), float(epc.sum())], 'entries in [0,1] summing to edof', ''))
    if r['converged']:
        thr = max(1e-6, 10 * EPS * r['cond'])
        if thr <= 1e-3 and r['a_ok']:
            e_or = O['edof_qr']
            if not abs(I['edof'] - e_or) <= thr * margin * max(1.0, abs(e_or)):
                bad.append(('edof', I['edof'], e_or, 'trace of the influence matrix (QR form; dense form %.12g), tol %.3g' % (O['edof_dense'], thr * margin)))
            cm = float(np.abs(O['covB_qr']).max() * abs(I['scale'])) + 1e-300
            # natural size of a covariance entry: scale / d_min^2 (d the singular values of [R; E]); when the kept rows carry
            # no information (WB = 0: a by-variable that is 0 on every row) cov is exactly 0 and what is computed is rounding
            # noise of size eps^2 — compared on the natural scale, not relative to itself
            cm = max(cm, 1e-12 * abs(I['scale']) / max(float(r['contracts'].get('dmin', 1.0)), 1e-150) ** 2)
            dc = float(np.abs(O['covB_qr'] * I['scale'] - I['cov']).max() / cm)
            dc2 = float(np.abs(O['covB'] * I['scale'] - I['cov']).max() / cm)
            if not min(dc, dc2) <= thr * margin:
                bad.append(('cov', 'max rel diff %.3g (dense form %.3g)' % (dc, dc2), 'scale * N^-1 WB\'WB N^-1', 'tol %.3g' % (thr * margin)))
        # bounds 0 < edof <= min(n, m)
        kept = int(r['keep'].sum())
        if not (I['edof'] > 0 and I['edof'] <= min(n, m, kept) * (1 + 1e-9) + 1e-9):
            bad.append(('edof bounds', I['edof'], '(0, min(n, m)] = (0, %d]' % min(n, m, kept), ''))
    # p-values
    for wz in r['wald']:
        if 'skip' in wz or not np.isfinite(wz['p_o']):
            continue
        if wz['gap'] < 1e3 or wz['rank'] != wz['rank_o'] or wz['cond_eff'] > 1e8:
            continue
        # sensitivity of the p-value to the relative error eps * cond_eff of the two pseudo-inverses
        tol = 1e-7 + 1e-5 * min(1.0, wz['cond_eff'] * 1e-8) + _p_sens(r, wz, wz['score_o'], 1e-10 * wz['cond_eff'] * abs(wz['score_o']))
        if not _close(wz['p_impl'], wz['p_o'], tol * margin):
            bad.append(('p_value', wz['p_impl'], wz['p_o'], 'term %d (%s, rank %d), tol %.3g' % (wz['term'], wz['kind'], wz['rank'], tol * margin)))
    for (k_, a_, v_) in r.get('stats_changed', []):
        bad.append(('statistics_ changed by evaluating the model on other data: ' + str(k_), v_, a_, 'value reported after the fit vs value read after score / residuals / log-likelihood on held-out data'))
    # evaluation outputs
    for ent in r['evals']:
        if ent['status'] != 'ok':
            continue
        for nm_, key in (('deviance_residuals', 'r0'), ('deviance_residuals(scaled)', 'r1')):
            if zero_scale and key == 'r1':
                continue
            a, bq = ent[key], ent[key + '_o']
            sc_ = 1.0 if key == 'r0' else float(np.nan_to_num(1.0 / abs(np.float64(r['impl']['scale'])), posinf=0.0))
            tol = 1e-8 * np.nan_to_num(np.abs(_sgn_sq(bq)), nan=0.0, posinf=0.0) + 1e-11 * ent['mag'] * sc_
            ok = _resid_ok(a, bq, tol * margin)
            if not ok.all():
                i = int(np.argmin(ok))
                bad.append(('%s/%s' % (nm_, ent['name']), float(a[i]), float(bq[i]), 'row %d' % i))
        # (null deviance exactly 0 or not finite — one effective observation — makes 1 - D / D0 +-inf by the sign of rounding noise: not judged)
        if not zero_scale and abs(ent.get('D0e', 1.0)) > 0 and np.isfinite(ent.get('D0e', 1.0)) and not _close(ent['expl'], ent['expl_o'], ent['expl_tol'] * margin, rtol=1e-8 * margin):
            bad.append(('score/%s' % ent['name'], ent['expl'], ent['expl_o'], 'explained deviance'))
        if 'acc' in ent:
            for kk in ('acc', 'acc_mu', 'score'):
                if not _close(ent[kk], ent['acc_o'], 1e-12):
                    bad.append(('accuracy(%s)/%s' % (kk, ent['name']), ent[kk], ent['acc_o'], ''))
        # (an extrapolated mean beyond 1e+-60 overflows / underflows inside the closed form of the oracle itself: inf - inf)
        extreme_mu = bool(np.isnan(ent['ll_o']) and (np.min(np.abs(ent['mu'])) < 1e-60 or np.max(np.abs(ent['mu'])) > 1e60))
        if (np.isfinite(ent['ll']) or np.isfinite(ent['ll_o'])) and not extreme_mu:
            tol = _ll_tol(ent['ll_o'], len(ent['y']), np.max(ent['w']), r['impl']['scale'])
            if not _close(ent['ll'], ent['ll_o'], tol * margin):
                bad.append(('loglikelihood()/%s' % ent['name'], ent['ll'], ent['ll_o'], 'tol %.3g' % (tol * margin)))
    if r['evals'] and r['evals'][0]['status'] == 'ok':
        e0 = r['evals'][0]
        if not _close(e0['expl'], I['explained'], 1e-10 * (1 + abs(I['explained']))):
            bad.append(('score(train) vs pseudo_r2', e0['expl'], I['explained'], ''))
    return bad


def _p_of(r, wz, a1, a2=None):
    import scipy.stats as st
    with np.errstate(all='ignore'):
        if r['known'] is not None:
            return float(1 - st.chi2.cdf(a1, wz['rank']))
        return float(1 - st.f.cdf(a1, wz['rank'], a2 if a2 is not None else r['n'] - r['impl']['edof']))


def _p_sens(r, wz, score, dscore):
    """change of the p-value when the score moves by dscore"""
    div = 1.0 if r['known'] is not None else max(wz['rank'], 1)
    p1 = _p_of(r, wz, (score - dscore) / div)
    p2 = _p_of(r, wz, (score + dscore) / div)
    return abs(p1 - p2) if np.isfinite(p1) and np.isfinite(p2) else 0.0


def _literals(pygam):
    """numeric literals of the functions under test"""
    vals = set()
    fns = [pygam.GAM._estimate_AIC, pygam.GAM._estimate_AICc, pygam.GAM._estimate_r2, pygam.GAM._estimate_GCV_UBRE,
           pygam.GAM._compute_p_value, pygam.GAM.deviance_residuals, pygam.LogisticGAM.accuracy, pygam.LogisticGAM.predict]
    for f in fns:
        try:
            tree = ast.parse(textwrap.dedent(inspect.getsource(f)))
        except Exception:  # noqa
            continue
        for node in ast.walk(tree):
            if isinstance(node, ast.Constant) and isinstance(node.value, (int, float)) and not isinstance(node.value, bool):
                vals.add(float(node.value))
    return sorted(vals)


def _nm(r):
    return 'n<m' if r['n'] < r['m'] else ('n=m' if r['n'] == r['m'] else 'n>m')


st_cf = 'stats.closed-form'
st_sv = 'stats.solve'
st_ev = 'eval.outputs'
st_wd = 'wald.pvalues'
st_ac = 'accuracy.literals'
st_con = 'lapack.contracts'
st_or = 'stats.oracle'
st_rf = 'refit.statistics'


def _declare(ctx):
    ctx.stream(st_cf, 'scale, AIC, AICc, GCV, UBRE, pseudo_r2 (3), deviance of statistics_ == Stats.scalars(y, mu, w, edof, loglik, null loglik) at Float, 1e-8')
    ctx.stream(st_sv, 'edof, cov (entrywise rel. to max), se == Stats.edofOf/covOf/seOf on the solution of (WB\'WB+A)Bm = WB\' at the exported (B, A, y, w, coef_, mask); thr = max(1e-6, 10 eps cond)')
    ctx.stream(st_ev, 'deviance_residuals (scaled / unscaled), score, accuracy, loglikelihood (kernel difference to the null mean) on held-out and training data == model')
    ctx.stream(st_wd, 'p_values == 1 - cdf(Stats.cdfArgs(Stats.waldStat(SciPy pinv of the cov block, centred coefficients for spline terms)))')
    ctx.stream(st_ac, 'LogisticGAM.accuracy(y=, mu=) == Stats.accuracy on vectors seeded with the literals of the code and their neighbours')
    ctx.stream(st_con, "contracts assumed by the theorems, on the loop locals: Q'Q=I, WB=QR, E'E=S+P+C, [R;E]=U diag(d) V', U'U = UU' = I, V'V=I, d>0, U1 = U[:k,:m], k = min(rows, m); Moore-Penrose C P C = C of SciPy pinv")
    ctx.stream(st_or, 'NumPy/SciPy oracle on the real code: influence-matrix trace, sandwich covariance, Pearson scale, closed-form log-densities, AIC/AICc/GCV/UBRE/R2, Wald p-values (eigen pinv), residuals, score, accuracy, bounds 0 < edof <= min(n, m)')
    ctx.stream(st_rf, 'history independence of the statistics: the same object is fitted on other data first (other n, noise level, weights); every statistics_ entry and evaluation output of the SECOND fit == oracle and model for the second data set (generic GAM by distribution name, dedicated classes, estimated and known scale)')
    ctx.extra['rule'] = ('cases = (fresh object | object already fitted on other data) x model class / distribution x link pair x random term program x n relative to m (m-1, m, m+1, 12, 60, 200) x weights mode '
                         '(none / positive / integer / with zeros) x lam mode x known or estimated scale; distinct = distinct case dicts; '
                         'non-trivial = fit with a non-default ingredient (weights, n <= m, constraints, non-default lam, known scale, generic GAM / ExpectileGAM)')
    ctx.assumptions.append('SciPy chi2.cdf, f.cdf, linalg.pinv (Moore-Penrose, validated as C P C = C each run), special.gammaln and the log-density normalisers are trusted library parameters')


def run(ctx):
    pygam = common.import_pygam()
    _declare(ctx)
    ncase = 52 if ctx.tier == 'quick' else 520
    cases = fitgen.gen_cases(ctx.subrng('cases'), ncase, ctx.tier) + gen_refit_cases(ctx.subrng('refit'), ctx.tier)
    with mp.get_context('fork').Pool(min(16, len(cases))) as pool:
        results = pool.map(_worker, cases, chunksize=1)
    _process(ctx, results)
    _accuracy_literals(ctx, pygam)
    _notes(ctx)


def _process(ctx, results):
    """model (driver) vs implementation vs oracle for a list of worker results"""
    ops, meta = [], []
    for i, r in enumerate(results):
        c = r['case']
        ctx.count('fit status', r['status'] + ('/converged' if r.get('converged') else ('/not-converged' if r['status'] == 'ok' else '')))
        ctx.count('pair', '%s %s/%s' % (c['cls'], c['dist'], c['link']))
        if r['status'] != 'ok':
            continue
        ctx.count('n vs m', _nm(r))
        ctx.count('scale', 'known' if r['known'] is not None else 'estimated')
        ctx.count('weights', c['weights_mode'])
        I = r['impl']
        tau = c['expectile']
        if not (np.isfinite(I['ll']) and np.isfinite(r['ll0'])):
            ctx.count('loglikelihood', 'non-finite (zero weights / degenerate null model)')
        ops.append('C08 fit %s %s %s %s %s %d %d %s %s %s | %s | %s | %s | %s | %s | %s | %s' % (
            c['dist'], c['link'], common.f2bits(float(c['levels'])), '-' if tau is None else common.f2bits(tau),
            '-' if r['known'] is None else common.f2bits(r['known']), r['n'], r['m'],
            common.f2bits(I['ll']), common.f2bits(r['ll0']), common.f2bits(I['edof']),
            _bits(r['B']), _bits(r['A']), _bits(r['y']), _bits(r['w']), ' '.join('1' if k else '0' for k in r['keep']),
            _bits(r['coef']), _bits(r['mu'])))
        meta.append(('fit', i, None))
        for j, ent in enumerate(r['evals']):
            ctx.count('eval', '%s/%s' % (ent['name'], ent['status']))
            if ent['status'] != 'ok':
                continue
            ops.append('C08 eval %s %s %s %s %d | %s | %s | %s | %s' % (
                c['dist'], common.f2bits(float(c['levels'])), common.f2bits(I['scale']), '1' if r['poisson_gam'] else '0',
                len(ent['y']), _bits(ent['y']), _bits(ent['w']), _bits(ent['mu']), _bits(ent['mu0'])))
            meta.append(('eval', i, j))
        for j, wz in enumerate(r['wald']):
            if 'skip' in wz:
                continue
            ops.append('C08 wald %s %s %d %d %d %s | %s | %s' % (
                '1' if wz['is_spline'] else '0', '1' if r['known'] is not None else '0', wz['k'], wz['rank'], r['n'],
                common.f2bits(I['edof']), _bits(wz['P']), _bits(wz['c'])))
            meta.append(('wald', i, j))
    outs = ctx.driver.run(ops, parallel=min(16, max(1, len(ops) // 4)))
    by_case = {}
    for (kind, i, j), out in zip(meta, outs):
        by_case.setdefault(i, []).append((kind, j, out))

    for i, r in enumerate(results):
        if r['status'] != 'ok':
            if r['status'] not in ('ValueError', 'generator-rejected', 'nonfinite-oracle', 'OptimizationError'):
                ctx.case(st_or, dict(case=r['case']), nontrivial=True)
                ctx.fail(st_or, dict(kind='exception', exc=r['status']), dict(case=r['case']), observed='%s: %s' % (r['status'], r['msg']),
                         expected='a fit or a ValueError', oracle='fit must not raise an unrelated exception')
            continue
        c, I, O = r['case'], r['impl'], r['orc']
        sig = dict(case=c)
        nontriv = (c['weights_mode'] != 'none' or r['n'] <= r['m'] or r['has_constraint'] or c['lam_mode'] != 'default'
                   or c['cls'] in ('GAM', 'ExpectileGAM') or c.get('scale') is not None)
        thr = max(1e-6, 10 * EPS * r['cond'])
        judged = thr <= 1e-3 and r['converged']
        ctx.count('conditioning', 'judged (converged, cond <= 4.5e11)' if judged else ('not converged' if not r['converged'] else 'ill-conditioned (solve not judged)'))
        small = dict(case=c, n=r['n'], m=r['m'], edof=I['edof'], scale=I['scale'], AIC=I['AIC'], cond=r['cond'])

        # ---- contracts
        con = r['contracts']
        ctx.case(st_con, sig, nontrivial=nontriv)
        cbad = ([k for k in ('QtQ', 'UtU', 'UUt', 'VtV', 'U1') if con[k] > 1e-9] + [k for k in ('QR', 'EtE', 'SVD') if con[k] > 1e-8]
                + (['dmin'] if not con['dmin'] > 0 else []) + ([] if con['k_ok'] else ['k']))
        if 'EtE' in cbad and r['has_constraint']:
            # the constraint matrix C(coef) is piecewise constant in coef: the exported A is built at the final coef_, the E of
            # the last iteration at the coefficients entering it; when the active set differs the exported A is not the
            # penalty of the final regression and the solve stream cannot be judged
            cbad.remove('EtE')
            judged = False
            ctx.count('conditioning', 'constraint active set changed in the last iteration (solve not judged)')
        mp_bad = [w_['term'] for w_ in r['wald'] if 'mp1' in w_ and w_['mp1'] > 1e-7]
        if mp_bad:
            ctx.count('pinv', 'C P C = C not met to 1e-7 (ill-conditioned block)')
        if cbad:
            ctx.disagree(st_con, sig, con, 'contracts', 'LAPACK/Cholesky contract(s) %s not met numerically' % cbad)
        if not O['mask_equal']:
            ctx.count('mask', 'oracle mask differs from the implementation mask')
        if O['mu_rel'] > 1e-9:
            ctx.count('mu', 'predict_mu differs from g^-1(B coef) by > 1e-9')

        # ---- oracle
        refit = bool(c.get('refit'))
        so = st_rf if refit else st_or
        ctx.case(st_or, sig, nontrivial=nontriv, sample=small)
        if refit:
            f1 = r.get('first') or {}
            ctx.case(st_rf, sig, nontrivial=f1.get('status') == 'ok', sample=dict(small, first_fit=f1))
            ctx.count('refit', 'first fit %s; scale %s' % (f1.get('status'), 'known' if r['known'] is not None else 'estimated'))
            ctx.count('refit: scale event between the fits', f1.get('scale_event', 'same'))
            if f1.get('status') == 'ok' and r['known'] is None and I['scale'] != 0:
                ctx.count('refit scale ratio (first / second fit)', '%.0e' % (f1['scale'] / I['scale']))
        if I['scale'] == 0:
            # interpolating fit with an estimated scale of exactly 0: every *scaled* deviance is 0/0 (explained deviance,
            # score, statistics_['deviance'], scaled residuals); explained_scale_free is stated for scale != 0
            ctx.count('not-judged: zero estimated scale', 'scaled-deviance statistics are 0/0 = NaN (not compared with the oracle)')
        bad = _oracle_findings(r, margin=10.0)
        oracle_bad = bool(bad)
        if bad:
            # confirm by re-executing the case once more on the real code
            r2 = _worker(c)
            bad2 = _oracle_findings(r2, margin=10.0) if r2['status'] == 'ok' else [('status', r2['status'], 'ok', '')]
            names2 = {b_[0] for b_ in bad2}
            conf = [b_ for b_ in bad if b_[0] in names2]
            if conf:
                stat, obs, exp, det = conf[0]
                ctx.fail(so, dict(kind='statistic', stat=stat.split('/')[0], cls=c['cls'], pair='%s/%s' % (c['dist'], c['link']), nm=_nm(r),
                                     scale='known' if r['known'] is not None else 'estimated', weights=c['weights_mode'], refit=refit),
                         dict(case=c, n=r['n'], m=r['m']),
                         observed=dict(stat=stat, value=obs, all_bad=[b_[0] for b_ in conf][:12]), expected=dict(value=exp, detail=det),
                         oracle='NumPy/SciPy recomputation of the documented formula from (B, A, y, mu, w, coef_)')
            else:
                ctx.count('oracle', 'finding not reproduced on re-execution')
                oracle_bad = False

        outs_i = by_case.get(i, [])
        for kind, j, out in outs_i:
            if kind == 'fit':
                ctx.case(st_cf, sig, nontrivial=nontriv, sample=small)
                if out == 'bad-op':
                    ctx.count('model', 'bad-op (singular normal matrix in Gaussian elimination)')
                    if judged and not oracle_bad:
                        ctx.disagree(st_cf, sig, 'n/a', 'bad-op', 'model could not evaluate the statistics')
                    continue
                parts = [p.split() for p in out.split('|')]
                edofM = common.bits2f(parts[0][0])
                sc = [None if t == 'none' else common.bits2f(t) for t in parts[1]]
                seM = np.array([common.bits2f(t) for t in parts[2]])
                covM = np.array([common.bits2f(t) for t in parts[3]]).reshape(r['m'], r['m'])
                tols = _scalar_tols(r)
                model = dict(zip(SCALARS, sc))
                dis = [s_ for s_ in SCALARS if not _close(I[s_], model[s_], tols[s_] or 0.0, rtol=1e-9)]
                if not (np.isfinite(r['orc'].get('ll0', 0.0)) and abs(r['orc'].get('ll0', 0.0)) > 0 and np.isfinite(I['ll'])):
                    dis = [s_ for s_ in dis if s_ not in ('mcf', 'mcfadj')]     # 1 - ll / ll0 with ll0 = 0 or non-finite: not judged (as in the oracle)
                if dis and not oracle_bad:
                    ctx.disagree(st_rf if refit else st_cf, sig, {s_: I[s_] for s_ in dis}, {s_: model[s_] for s_ in dis}, 'closed-form statistics differ: %s' % dis)
                if r['converged']:
                    ctx.case(st_sv, sig, nontrivial=nontriv, sample=dict(small, edof_model=edofM, thr=thr))
                    if judged and not oracle_bad:
                        cm = float(np.abs(I['cov']).max()) + 1e-300
                        # zero-information fits (WB = 0): cov and se are rounding noise around 0; natural scale as in the oracle
                        nat = 1e-12 * abs(I['scale']) / max(float(r['contracts'].get('dmin', 1.0)), 1e-150) ** 2
                        cm = max(cm, nat)
                        de = abs(edofM - I['edof']) / max(1.0, abs(I['edof']))
                        dc = float(np.abs(covM - I['cov']).max() / cm)
                        ds = float(np.abs(seM - I['se']).max() / max(np.abs(I['se']).max() + 1e-300, np.sqrt(nat)))
                        if not (de <= thr and dc <= thr and ds <= thr):
                            ctx.disagree(st_rf if refit else st_sv, sig, dict(edof=I['edof']), dict(edof=edofM, rel_edof=de, rel_cov=dc, rel_se=ds, thr=thr),
                                         'edof / cov / se differ from the model solve')
            elif kind == 'eval':
                ent = r['evals'][j]
                esig = dict(case=c, set=ent['name'])
                ctx.case(st_ev, esig, nontrivial=nontriv or ent['weighted'])
                if out == 'bad-op':
                    ctx.disagree(st_ev, esig, 'n/a', 'bad-op', 'model could not evaluate')
                    continue
                parts = [p.split() for p in out.split('|')]
                scoreM, accM, kdM = [common.bits2f(t) for t in parts[0]]
                r0M = np.array([common.bits2f(t) for t in parts[1]])
                r1M = np.array([common.bits2f(t) for t in parts[2]])
                dis = []
                for key, rm in (('r0', r0M), ('r1', r1M)):
                    a = ent[key]
                    sc_ = 1.0 if key == 'r0' else float(np.nan_to_num(1.0 / abs(np.float64(I['scale'])), posinf=0.0))
                    tol = 1e-8 * np.nan_to_num(np.abs(_sgn_sq(rm)), nan=0.0, posinf=0.0) + 1e-11 * ent['mag'] * sc_
                    ok = _resid_ok(a, rm, tol)
                    if not ok.all():
                        dis.append('%s row %d: %r vs %r' % (key, int(np.argmin(ok)), float(a[int(np.argmin(ok))]), float(rm[int(np.argmin(ok))])))
                if abs(ent.get('D0e', 1.0)) > 0 and np.isfinite(ent.get('D0e', 1.0)) and not _close(ent['expl'], scoreM, ent['expl_tol'], rtol=1e-8):
                    dis.append('score %r vs %r' % (ent['expl'], scoreM))
                if 'acc' in ent and not (_close(ent['acc'], accM, 1e-12) and _close(ent['score'], accM, 1e-12) and _close(ent['acc_mu'], accM, 1e-12)):
                    dis.append('accuracy %r vs %r' % (ent['acc'], accM))
                if np.isfinite(ent['ll']) and np.isfinite(ent['ll0_o']) and np.isfinite(kdM):
                    tol = _ll_tol(abs(ent['ll']) + abs(ent['ll0_o']), len(ent['y']), np.max(ent['w']), I['scale'])
                    if not abs((ent['ll'] - ent['ll0_o']) - kdM) <= tol:
                        dis.append('loglikelihood - null %r vs kernel difference %r' % (ent['ll'] - ent['ll0_o'], kdM))
                else:
                    ctx.count('eval', 'loglikelihood kernel difference not finite (not compared)')
                if dis and not oracle_bad:
                    ctx.disagree(st_ev, esig, dis[:3], 'model', 'evaluation outputs differ')
            elif kind == 'wald':
                wz = r['wald'][j]
                wsig = dict(case=c, term=wz['term'])
                ctx.case(st_wd, wsig, nontrivial=True)
                ctx.count('wald term', '%s%s' % (wz['kind'], '' if wz['rank'] == wz['k'] else ' (rank-deficient block)'))
                if out == 'bad-op':
                    ctx.disagree(st_wd, wsig, 'n/a', 'bad-op', 'model could not evaluate')
                    continue
                score, a1, a2, mag = [common.bits2f(t) for t in out.split()]
                if wz['rank'] == 0 or not np.isfinite(score):
                    ctx.count('wald', 'rank 0 or non-finite score (not compared)')
                    continue
                pM = _p_of(r, wz, a1, a2)
                dsc = 1e-12 * mag * max(wz['k'], 1)
                tol = 1e-9 + _p_sens(r, wz, score, dsc)
                if not _close(wz['p_impl'], pM, tol) and not oracle_bad:
                    ctx.disagree(st_wd, wsig, wz['p_impl'], pM, 'p-value differs from the model Wald statistic through the reference cdf (score %r, rank %d)' % (score, wz['rank']))



def _accuracy_literals(ctx, pygam):
    # ---- accuracy on literal-seeded vectors
    lits = _literals(pygam)
    ctx.extra['literals'] = lits
    rs = np.random.default_rng(ctx.subrng('acc').randrange(10 ** 9))
    Xs = rs.uniform(size=(40, 1))
    ys = (rs.uniform(size=40) < 0.3 + 0.4 * Xs[:, 0]).astype(float)
    import contextlib
    import io
    with contextlib.redirect_stdout(io.StringIO()):
        lg = pygam.LogisticGAM(pygam.s(0, n_splines=5)).fit(Xs, ys)
    pts = set()
    for v in lits + [0.5]:
        if 0 <= v <= 1:
            pts.update([v, float(np.nextafter(v, 0)), float(np.nextafter(v, 1)), v * (1 - 1e-6), min(1.0, v * (1 + 1e-6))])
    pts = sorted(p for p in pts if 0 <= p <= 1)
    aops, acases = [], []
    for t in range(60 if ctx.tier == 'quick' else 400):
        nn = int(rs.integers(1, 12))
        mu_ = np.array([pts[int(rs.integers(len(pts)))] if rs.uniform() < 0.7 else float(rs.uniform()) for _ in range(nn)])
        y_ = rs.integers(0, 2, size=nn).astype(float)
        acases.append((y_, mu_))
        aops.append('C08 acc %d | %s | %s' % (nn, _bits(y_), _bits(mu_)))
    aouts = ctx.driver.run(aops)
    for (y_, mu_), out in zip(acases, aouts):
        asig = dict(y=y_.tolist(), mu=[common.f2bits(v) for v in mu_])
        ctx.case(st_ac, asig, nontrivial=True)
        got = float(lg.accuracy(y=y_, mu=mu_))
        exp_o = float(np.mean(np.where(mu_ > 0.5, 1.0, 0.0) == y_))
        if out == 'bad-op':
            ctx.disagree(st_ac, asig, got, 'bad-op', 'model could not evaluate')
            continue
        mod = common.bits2f(out)
        if abs(got - exp_o) > 1e-12:
            got2 = float(lg.accuracy(y=y_, mu=mu_))
            if abs(got2 - exp_o) > 1e-12:
                ctx.fail(st_ac, dict(kind='statistic', stat='accuracy'), dict(y=y_.tolist(), mu=mu_.tolist()), observed=got, expected=exp_o,
                         oracle='mean((mu > 0.5) == y)')
        elif abs(got - mod) > 1e-12:
            ctx.disagree(st_ac, asig, got, mod, 'accuracy differs from the model')



def _notes(ctx):
    ctx.partial.append('edof / cov theorems are proved under the LAPACK / Cholesky contracts (validated numerically each run), not for LAPACK itself; '
                       'edof_le_k needs the extra row-orthonormality contract U1 U1\' + U1b U1b\' = 1 (explicit hypothesis, validated as U U\' = I)')
    ctx.partial.append('p-values: the Wald quadratic form, centring, rank division and choice of reference distribution are modelled; SciPy pinv / chi2.cdf / f.cdf are trusted parameters')
    ctx.partial.append('log-likelihood: only the mu-dependent kernel is modelled (normalisers gammaln / log terms are SciPy parameters); IEEE rounding is not modelled')


def replay(ctx, rp):
    """re-execute the single failing fit of a replay file (or everything when the replay names no fit)"""
    case = (rp.get('case') or {}).get('case') if isinstance(rp.get('case'), dict) else None
    if not (isinstance(case, dict) and 'seed' in case and 'cls' in case):
        return run(ctx)
    common.import_pygam()
    _declare(ctx)
    _process(ctx, [_worker(case)])
    _notes(ctx)
