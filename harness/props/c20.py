"""
C20 — the optimiser loop terminates, stops at tol and logs one record per iteration.

Theorems: lean/PyGam/Props/C20.lean about `PyGam.Loop.fit` / `pirls` (Model/Loop.lean): iteration bounds,
stopping rule, non-convergence report, statistics, one log entry per hook per iteration, logged deviance /
coef / accuracy belong to the coefficients *entering* the iteration, final coef = last step, logs are
appended on refit, every model class forwards `callbacks`.

Correspondence (every run): real fits of all seven model classes on small data with every subset of the
built-in callbacks, user-defined CallBack subclasses, max_iter 1..30, tol 1e-12..1 (incl. tolerances placed
exactly on / one ulp around a recorded diff).  The recorded diffs are replayed through the Lean model
(`C20 fit …`), which predicts iteration count, the `did not converge` line, the statistics flag and the
complete symbolic content of `logs_`; the symbols are resolved with NumPy (deviance / accuracy recomputed
from the coefficients entering each iteration) and compared with `gam.logs_`, stdout, `statistics_`, `coef_`.
`loop.scale` (every run): the same for every class whose distribution scale the user may fix, with a scale other
than 1 (scale= of the subclasses, a distribution object for GAM; in the units of the response); every configuration
enables the deviance callback -- the logged value is the unscaled family deviance at the entering coefficients.
Further streams: constructor table (which arguments reach the base class, defaults), argument binding of
hooks (every local name of `_pirls`), refits (logs appended), invalid `max_iter`.

Oracle (NumPy only, independent of the model): the property sentence by sentence on the recorded run.
"""
import ast
import contextlib
import inspect
import io
import itertools
import json
import math
import multiprocessing
import os
import struct
import textwrap

import numpy as np

from harness import common

BUILTINS = ['deviance', 'diffs', 'accuracy', 'coef']
STAT_KEYS = {'n_samples', 'm_features', 'edof', 'scale', 'cov', 'se', 'AIC', 'AICc', 'pseudo_r2', 'GCV',
             'UBRE', 'loglikelihood', 'deviance', 'p_values'}

# label -> (constructor, distribution, link, extra kwargs)
CLASSES = {
    'LinearGAM': ('LinearGAM', 'normal', 'identity', {}),
    'LogisticGAM': ('LogisticGAM', 'binomial', 'logit', {}),
    'PoissonGAM': ('PoissonGAM', 'poisson', 'log', {}),
    'GammaGAM': ('GammaGAM', 'gamma', 'log', {}),
    'InvGaussGAM': ('InvGaussGAM', 'inv_gauss', 'log', {}),
    'ExpectileGAM': ('ExpectileGAM', 'normal', 'identity', {'expectile': 0.5}),
    'ExpectileGAM.2': ('ExpectileGAM', 'normal', 'identity', {'expectile': 0.2}),
    'ExpectileGAM.9': ('ExpectileGAM', 'normal', 'identity', {'expectile': 0.9}),
    'GAM/normal/identity': ('GAM', 'normal', 'identity', {'distribution': 'normal', 'link': 'identity'}),
    'GAM/binomial/logit': ('GAM', 'binomial', 'logit', {'distribution': 'binomial', 'link': 'logit'}),
    'GAM/poisson/log': ('GAM', 'poisson', 'log', {'distribution': 'poisson', 'link': 'log'}),
    'GAM/gamma/log': ('GAM', 'gamma', 'log', {'distribution': 'gamma', 'link': 'log'}),
    'GAM/inv_gauss/log': ('GAM', 'inv_gauss', 'log', {'distribution': 'inv_gauss', 'link': 'log'}),
    'GAM/normal/log': ('GAM', 'normal', 'log', {'distribution': 'normal', 'link': 'log'}),
}
TERMS = ['lin', 'lin0', 'spl', 'mono']   # see make_terms
WEIGHTS = ['none', 'pos', 'zeros']


def f2b(x):
    return common.f2bits(float(x))


def b2f(s):
    return common.bits2f(s)


def nextafter(x, up):
    return float(np.nextafter(x, math.inf if up else -math.inf))


# --------------------------------------------------------------------------------------------
# data, models, user callbacks
# --------------------------------------------------------------------------------------------
def make_data(desc):
    """deterministic small data set for a group descriptor (class label, terms, n, weights mode, gseed)"""
    import random
    rng = random.Random('c20-data-%s' % desc['gseed'])
    n = desc['n']
    dist = CLASSES[desc['cls']][1]
    link = CLASSES[desc['cls']][2]
    X = np.array([[rng.randint(0, 64) / 64.0, rng.randint(-32, 32) / 32.0] for _ in range(n)])
    a, b, c = rng.uniform(0.5, 2.0), rng.uniform(-1.0, 1.0), rng.uniform(-0.3, 0.3)
    eta = a * np.sin(2.5 * X[:, 0]) * 0.7 + b * X[:, 1] * 0.6 + c
    noise = np.array([rng.gauss(0, 1) for _ in range(n)])
    u = np.array([rng.random() for _ in range(n)])
    if dist == 'normal':
        y = eta + 0.3 * noise
        if link == 'log':
            y = np.exp(0.6 * eta) + 0.05 * np.abs(noise) + 0.2
        else:
            # identity link: the response may be recorded in any unit (capacitances in farad ~ 1e-12); the relative
            # coefficient change that stops the loop must not depend on it
            y = y * desc.get('unit', 1.0)
    elif dist == 'binomial':
        p = 1 / (1 + np.exp(-1.5 * eta))
        y = (u < p).astype(float)
        if y.min() == y.max():
            y[0] = 1 - y[0]
    elif dist == 'poisson':
        lam = np.exp(0.8 * eta + 0.7)
        y = np.array([float(_poisson(rng, l)) for l in lam])
    else:  # gamma, inv_gauss: positive, moderate spread
        y = np.exp(0.6 * eta) * np.exp(0.25 * noise) + 0.05
    wm = desc['weights']
    if wm == 'none':
        w = None
    else:
        w = np.array([rng.randint(2, 12) / 4.0 for _ in range(n)])   # exactly representable in float32
        if wm == 'zeros':
            for i in rng.sample(range(n), max(1, n // 8)):
                w[i] = 0.0
    return X, y, w


def _poisson(rng, lam):
    # Knuth; lam is small here
    L = math.exp(-lam)
    k, p = 0, 1.0
    while True:
        p *= rng.random()
        if p <= L:
            return k
        k += 1


def make_terms(pygam, kind):
    from pygam import s, l
    if kind in ('lin', 'lin0'):
        return l(0) + l(1)
    if kind == 'spl':
        return s(0, n_splines=6) + l(1)
    if kind == 'mono':
        return s(0, n_splines=5, constraints='monotonic_inc') + l(1)
    raise ValueError(kind)


_USER_CACHE = {}
# user callbacks whose hooks return None: kind -> (return rule for the model item, hooks)
#   'n' = always None (side-effect / progress callback), 'e' = None in even iterations (metric every other iteration)
NONE_KINDS = {'nas': ('n', 's'), 'nae': ('n', 'e'), 'nab': ('n', 'b'), 'nss': ('e', 's'), 'nse': ('e', 'e'), 'nsb': ('e', 'b')}
HOOKS_PER_KIND = {'probe': 2, 'startonly': 1, 'endonly': 1, 'both': 2, 'noargs': 1, 'locals': 2,
                  'nas': 1, 'nae': 1, 'nab': 2, 'nss': 1, 'nse': 1, 'nsb': 2}


def user_callback(pygam, kind, name):
    """user-defined CallBack subclasses.  Hooks receive loop locals by argument name; their local variables are
    their own business (kind 'locals')."""
    from pygam.callbacks import CallBack
    key = kind
    if key not in _USER_CACHE:
        if kind == 'probe':
            class Probe(CallBack):
                def __init__(self, name):
                    super(Probe, self).__init__(name=name)

                def on_loop_start(self, gam, y, mu, _):
                    return dict(h='s', k=_, coef=np.array(gam.coef_, copy=True), y=np.array(y, copy=True),
                                mu=np.array(mu, copy=True), gam_id=id(gam))

                def on_loop_end(self, gam, diff, coef_new, _):
                    return dict(h='e', k=_, diff=float(diff), coef_new=np.array(coef_new, copy=True),
                                coef_after=np.array(gam.coef_, copy=True))
            _USER_CACHE[key] = Probe
        elif kind == 'startonly':
            class StartOnly(CallBack):
                def __init__(self, name):
                    super(StartOnly, self).__init__(name=name)

                def on_loop_start(self, _):
                    return dict(h='s', k=_)
            _USER_CACHE[key] = StartOnly
        elif kind == 'endonly':
            class EndOnly(CallBack):
                def __init__(self, name):
                    super(EndOnly, self).__init__(name=name)

                def on_loop_end(self, _, diff):
                    return dict(h='e', k=_, diff=float(diff))
            _USER_CACHE[key] = EndOnly
        elif kind == 'both':
            class Both(CallBack):
                def __init__(self, name):
                    super(Both, self).__init__(name=name)

                def on_loop_start(self, _, mu):
                    return dict(h='s', k=_)

                def on_loop_end(self, _, diff, coef_new):
                    return dict(h='e', k=_, diff=float(diff))
            _USER_CACHE[key] = Both
        elif kind == 'locals':
            class WithLocals(CallBack):
                def __init__(self, name):
                    super(WithLocals, self).__init__(name=name)

                def on_loop_start(self, _, mu):
                    k = _
                    Q = 'a local named like a later loop variable'
                    nosuch = len(mu) + len(Q)
                    return dict(h='s', k=k if nosuch else k)

                def on_loop_end(self, _, diff):
                    twice = 2 * diff
                    halved = twice / 2
                    return dict(h='e', k=_, diff=float(halved))
            _USER_CACHE[key] = WithLocals
        elif kind in NONE_KINDS:
            ret, hooks = NONE_KINDS[kind]

            def init(self, name):
                CallBack.__init__(self, name=name)
                self.n_start = 0      # the callback's own tally of calls: the iteration count it witnessed
                self.n_end = 0

            def on_loop_start(self, _):
                self.n_start += 1
                return None if (ret == 'n' or _ % 2 == 0) else dict(h='s', k=_)

            def on_loop_end(self, _, diff):
                self.n_end += 1
                return None if (ret == 'n' or _ % 2 == 0) else dict(h='e', k=_, diff=float(diff))
            body = dict(__init__=init)
            if hooks in ('s', 'b'):
                body['on_loop_start'] = on_loop_start
            if hooks in ('e', 'b'):
                body['on_loop_end'] = on_loop_end
            _USER_CACHE[key] = type('NoneCb_' + kind, (CallBack,), body)
        elif kind == 'noargs':
            class NoArgs(CallBack):
                def __init__(self, name):
                    super(NoArgs, self).__init__(name=name)

                def on_loop_end(self):
                    return dict(h='e', k=None)
            _USER_CACHE[key] = NoArgs
        else:
            raise ValueError(kind)
    return _USER_CACHE[key](name)


def hook_spec(cb):
    """`u/<name>/<start>/<end>` item for the model: per hook `<args>~<locals>` -- argument names
    (co_varnames[:co_argcount] minus `self`) and local-variable names (the rest of co_varnames), read from the
    *unwrapped* function (validate_callback wraps with functools.wraps)"""
    def names(attr):
        if not hasattr(cb, attr):
            return '-'
        f = getattr(cb, attr)
        f = getattr(f, '__wrapped__', f)
        code = f.__code__
        args = [v for v in code.co_varnames[:code.co_argcount] if v != 'self']
        locs = list(code.co_varnames[code.co_argcount:])
        spec = '+'.join(args) if args else '.'
        if locs:
            spec += '~' + '+'.join(locs)
        return spec
    return 'u/%s/%s/%s' % (str(cb), names('on_loop_start'), names('on_loop_end'))


def build_callbacks(pygam, items):
    """items: list of built-in names or ['user', kind, name]"""
    out = []
    for it in items:
        if isinstance(it, str):
            out.append(it)
        else:
            out.append(user_callback(pygam, it[1], it[2]))
    return out


def model_items(pygam, items):
    toks = []
    for it in items:
        if isinstance(it, str):
            toks.append(it)
        else:
            tok = hook_spec(user_callback(pygam, it[1], it[2]))
            if it[1] in NONE_KINDS:
                tok += '/' + NONE_KINDS[it[1]][0]
            toks.append(tok)
    return '=' + ','.join(toks)


def make_model(pygam, desc, cbs, max_iter, tol):
    ctor, dist, link, extra = CLASSES[desc['cls']]
    kw = dict(extra)
    kw['terms'] = make_terms(pygam, desc['terms'])
    kw['max_iter'] = max_iter
    kw['tol'] = tol
    if desc['terms'] == 'lin0':
        kw['fit_intercept'] = False
    if cbs is not None:
        kw['callbacks'] = cbs
    kw.update(scale_kwargs(pygam, desc))
    return getattr(pygam, ctor)(**kw)


# families whose scale the user may fix (binomial / Poisson have the constant scale 1)
SCALE_DISTS = {'normal': 'NormalDist', 'gamma': 'GammaDist', 'inv_gauss': 'InvGaussDist'}
SCALE_VALUES = [4.0, 0.25, 0.5, 9.0, 0.125, 2.5]      # never 1: a known scale of 1 cannot be told from an unknown one


def scale_kwargs(pygam, desc):
    """constructor arguments of a model with a user-supplied distribution scale (`desc['scale']`, in the units of the
    family's variance): `scale=` for the subclasses, a distribution object for `GAM`"""
    sc = desc.get('scale')
    if sc is None:
        return {}
    ctor, dist, _, _ = CLASSES[desc['cls']]
    if ctor == 'GAM':
        import pygam.distributions as dm
        return dict(distribution=getattr(dm, SCALE_DISTS[dist])(scale=sc))
    return dict(scale=sc)


def fit_captured(gam, X, y, w):
    buf = io.StringIO()
    exc = None
    with contextlib.redirect_stdout(buf):
        try:
            gam.fit(X, y, weights=w)
        except Exception as e:  # noqa
            exc = e
    return buf.getvalue(), exc


# --------------------------------------------------------------------------------------------
# NumPy oracle pieces
# --------------------------------------------------------------------------------------------
def np_mu(link, lp):
    if link == 'identity':
        return lp
    if link == 'log':
        return np.exp(lp)
    if link == 'logit':
        e = np.exp(lp)
        return e / (e + 1)
    raise ValueError(link)


def np_deviance(dist, y, mu):
    from scipy.special import xlogy
    if dist == 'normal':
        d = (y - mu) ** 2
    elif dist == 'binomial':
        d = 2 * (xlogy(y, y / mu) + xlogy(1 - y, (1 - y) / (1 - mu)))
    elif dist == 'poisson':
        d = 2 * (xlogy(y, y / mu) - (y - mu))
    elif dist == 'gamma':
        d = 2 * ((y - mu) / mu - np.log(y / mu))
    elif dist == 'inv_gauss':
        d = (y - mu) ** 2 / (mu ** 2 * y)
    else:
        raise ValueError(dist)
    return float(np.sum(d))


def np_design(desc, X):
    """design matrix of the linear term sets, independent of pyGAM (the intercept is the last column)"""
    if desc['terms'] == 'lin':
        return np.hstack([X, np.ones((len(X), 1))])
    if desc['terms'] == 'lin0':
        return X.copy()
    return None


def rel_close(a, b, rtol):
    a = float(a)
    b = float(b)
    if a == b:
        return True
    if not (math.isfinite(a) and math.isfinite(b)):
        return (a != a) and (b != b)
    return abs(a - b) <= rtol * max(1.0, abs(a), abs(b))


def dev_close(a, b, rtol, nat):
    """deviances agree relative to their own size or the size of the constant-fit deviance `nat` (cancellation in
    y - mu is relative to the data, not to a near-zero deviance) -- no absolute threshold"""
    a = float(a)
    b = float(b)
    if a == b:
        return True
    if not (math.isfinite(a) and math.isfinite(b)):
        return (a != a) and (b != b)
    return abs(a - b) <= rtol * max(abs(a), abs(b), nat)


def jsonable(v):
    if isinstance(v, dict):
        return {k: jsonable(x) for k, x in v.items() if k not in ('gam_id',)}
    if isinstance(v, np.ndarray):
        return v.tolist()
    if isinstance(v, (np.floating, np.integer)):
        return v.item()
    if isinstance(v, (list, tuple)):
        return [jsonable(x) for x in v]
    return v


# --------------------------------------------------------------------------------------------
# one configuration: instrumented run (A), plain run (B), oracle, material for the model comparison
# --------------------------------------------------------------------------------------------
def run_config(desc, cfg, rtol=1e-9):
    """returns a JSON-able record: observations of run A (with probe) and run B (as configured), the oracle's
    findings, and the data the parent needs to resolve the model's symbolic log entries"""
    pygam = common.import_pygam()
    ctor, dist, link, extra = CLASSES[desc['cls']]
    X, y, w = make_data(desc)
    tol = b2f(cfg['tol'])
    max_iter = cfg['max_iter']
    items = cfg['items']          # None = callbacks argument not given
    rec = dict(desc=desc, cfg=cfg, fails=[], quirks=[], skipped=None)

    def fail(kind, **kw):
        rec['fails'].append(dict(kind=kind, **jsonable(kw)))

    if items is not None:
        base_items = list(items)
    else:
        # callbacks argument not given: what the class enables by default is read off a fresh object (public
        # parameter); whether that is the documented default is the model's business (table `defaultCallbacks`)
        base_items = [str(c) for c in getattr(pygam, ctor)(**dict(extra, **scale_kwargs(pygam, desc))).callbacks]
    has_probe = any((not isinstance(it, str)) and it[1] == 'probe' for it in base_items)
    a_items = base_items if has_probe else base_items + [['user', 'probe', 'probe']]
    probe_name = [it[2] for it in a_items if not isinstance(it, str) and it[1] == 'probe'][0]

    # ---- run A: instrumented -------------------------------------------------------------------
    gA = make_model(pygam, desc, build_callbacks(pygam, a_items), max_iter, tol)
    outA, excA = fit_captured(gA, X, y, w)
    if excA is not None:
        name = type(excA).__name__
        if name in ('OptimizationError', 'LinAlgError') or (name == 'ValueError' and 'NaN' in str(excA)):
            rec['skipped'] = name      # numerical breakdown of the data set: not this property
            return rec
        fail('fit raised', exc=name, msg=str(excA)[:200], run='A')
        return rec
    logsA = dict(gA.logs_)
    pr = logsA.get(probe_name, [])
    starts = [e for e in pr if e['h'] == 's']
    ends = [e for e in pr if e['h'] == 'e']
    k = len(ends)
    diffs = [e['diff'] for e in ends]
    rec['diffs'] = [f2b(d) for d in diffs]
    rec['k'] = k
    rec['a_items'] = a_items
    rec['a_model_items'] = model_items(pygam, a_items)
    rec['b_model_items'] = model_items(pygam, items) if items is not None else '-'

    # ---- oracle on run A (property, sentence by sentence) -------------------------------------
    if len(starts) != len(ends) or len(pr) != 2 * k or any(pr[2 * i]['h'] != 's' or pr[2 * i + 1]['h'] != 'e' for i in range(k)):
        fail('probe hooks not called alternately once per iteration', seq=[e['h'] for e in pr])
        return rec
    if not (1 <= k <= max_iter):
        fail('iteration count outside [1, max_iter]', k=k, max_iter=max_iter)
    if any(starts[i]['k'] != i or ends[i]['k'] != i for i in range(k)):
        fail('loop index seen by the hooks is not 0..k-1', ks=[e['k'] for e in pr])
    early = [i for i in range(k - 1) if diffs[i] < tol]
    if early:
        fail('did not stop at the first iteration with diff < tol', first=early[0], diffs=diffs, tol=tol)
    if k >= 1 and k < max_iter and not (diffs[-1] < tol):
        fail('stopped before max_iter although last diff >= tol', k=k, last=diffs[-1], tol=tol, max_iter=max_iter)
    conv = k >= 1 and diffs[-1] < tol
    if outA not in ('', 'did not converge\n'):
        fail('unexpected stdout', out=outA[:200])
    if (outA == 'did not converge\n') != (not conv):
        fail('non-convergence report wrong', printed=outA, last=diffs[-1] if k else None, tol=tol)
    st = getattr(gA, 'statistics_', None)
    if not isinstance(st, dict) or not STAT_KEYS.issubset(st.keys()):
        fail('statistics_ not populated', keys=sorted(st.keys()) if isinstance(st, dict) else None)
    # coefficients: chain and final
    c_in = [np.asarray(e['coef']) for e in starts]
    c_new = [np.asarray(e['coef_new']) for e in ends]
    for i in range(k):
        if not np.array_equal(ends[i]['coef_after'], c_new[i]):
            fail('coef_ after the update is not coef_new', it=i)
        if i + 1 < k and not np.array_equal(c_in[i + 1].ravel(), c_new[i].ravel()):
            fail('coefficients entering iteration are not those produced by the previous one', it=i + 1)
    if k >= 1 and not np.array_equal(np.asarray(gA.coef_), c_new[-1]):
        fail('final coef_ is not the coef_new of the last iteration')
    # recorded diff = relative coefficient change
    for i in range(k):
        cn = c_new[i].ravel()
        true = float(np.linalg.norm(c_in[i].ravel() - cn) / np.linalg.norm(cn)) if np.linalg.norm(cn) > 0 else float('nan')
        if not rel_close(diffs[i], true, rtol):
            if c_in[i].ndim == 2 and i == 0:
                # initial estimate of non-LinearGAM models has shape (m, 1): (m,1)-(m,) broadcasts to (m,m)
                # the property speaks of the *recorded* diff; here it is the Frobenius norm of the broadcast difference
                mirrored = float(np.linalg.norm(c_in[i].reshape(-1, 1) - c_new[i].reshape(1, -1)) / np.linalg.norm(cn))
                if rel_close(diffs[i], mirrored, rtol):
                    rec['quirks'].append(dict(kind='first recorded diff of a model whose initial estimate has shape (m,1) is the norm of the '
                                                   'broadcast (m,m) difference over ||coef_new||', recorded=diffs[i], relative_change=true))
                else:
                    fail('first recorded diff is neither the relative change nor its (m,1)-broadcast form', recorded=diffs[i], true=true, mirrored=mirrored)
            else:
                fail('recorded diff is not ||c - c_new|| / ||c_new||', it=i, recorded=diffs[i], true=true)
    # expected values of the observables at the coefficients entering each iteration (NumPy)
    mask = np.ones(len(y), bool) if w is None else (w > 0)
    ym = y[mask]
    D = np_design(desc, X)
    dev_exp, acc_exp, dev_w = [], [], []
    for i in range(k):
        mu_p = np.asarray(starts[i]['mu'])
        if D is not None:
            mu_i = np_mu(link, (D @ c_in[i].reshape(-1, 1)).ravel())[mask]
            if mu_p.shape != mu_i.shape or not np.allclose(mu_p, mu_i, rtol=1e-9, atol=1e-12):
                fail('loop-start mu is not link^-1(X c) of the entering coefficients', it=i)
        else:
            mu_i = mu_p
            try:
                mm = gA._modelmat(X)
                mu_x = np_mu(link, np.asarray(mm.dot(c_in[i].reshape(-1, 1))).ravel())[mask]
                if mu_p.shape != mu_x.shape or not np.allclose(mu_p, mu_x, rtol=1e-8, atol=1e-11 * min(1.0, float(np.abs(mu_x).max()) if np.size(mu_x) else 1.0)):
                    fail('loop-start mu is not link^-1(B c) of the entering coefficients', it=i)
            except AttributeError:
                pass
        if np.asarray(starts[i]['y']).shape != ym.shape or not np.array_equal(starts[i]['y'], ym):
            fail('loop-start y is not the (unmasked) response', it=i)
        dev_exp.append(np_deviance(dist, ym, mu_i))
        acc_exp.append(float(np.mean(ym == (mu_i > 0.5))))
        if w is not None:
            dev_w.append(float(np.sum(w[mask] * _pointwise_dev(dist, ym, mu_i))))
    rec['dev_exp'] = dev_exp
    # natural size of a deviance on these data: that of the constant fit (the absolute floor 1.0 of rel_close would make the
    # comparison vacuous for responses recorded in small units)
    with np.errstate(all='ignore'):
        dev_nat = np_deviance(dist, ym, np.full(len(ym), float(np.mean(ym)))) if len(ym) else 0.0
    dev_nat = dev_nat if math.isfinite(dev_nat) and dev_nat > 0 else 1.0
    rec['acc_exp'] = acc_exp
    rec['coef_in'] = [c.ravel().tolist() for c in c_in]
    rec['coef_final'] = np.asarray(gA.coef_).ravel().tolist()
    if w is not None and k and any(not rel_close(a, b, 1e-6) for a, b in zip(dev_exp, dev_w)):
        rec['quirks'].append(dict(kind='logged deviance is unweighted (the Deviance callback is not given the sample weights)', unweighted=dev_exp[-1], weighted=dev_w[-1]))
    # built-in logs of run A against the oracle's values
    _oracle_builtin_logs(fail, logsA, a_items, k, dev_exp, acc_exp, c_in, diffs, rtol, run='A', gam=gA, dev_nat=dev_nat)
    rec['A'] = observe(gA, outA, probe_name)
    if desc.get('scale') is not None:
        rec['scale_seen'] = jsonable(getattr(gA.distribution, 'scale', None))

    # ---- run B: exactly the configured callbacks (no probe unless configured) ------------------
    if has_probe and items is not None:
        rec['B'] = None
    else:
        gB = make_model(pygam, desc, build_callbacks(pygam, items) if items is not None else None, max_iter, tol)
        outB, excB = fit_captured(gB, X, y, w)
        if excB is not None:
            fail('fit raised', exc=type(excB).__name__, msg=str(excB)[:200], run='B')
            return rec
        logsB = dict(gB.logs_)
        if outB != outA:
            fail('stdout differs between the run with and without the probe callback', A=outA, B=outB)
        if not np.array_equal(np.asarray(gB.coef_), np.asarray(gA.coef_)):
            fail('final coef_ differs between the run with and without the probe callback')
        stB = getattr(gB, 'statistics_', None)
        if not isinstance(stB, dict) or not STAT_KEYS.issubset(stB.keys()):
            fail('statistics_ not populated', run='B')
        _oracle_builtin_logs(fail, logsB, base_items, k, dev_exp, acc_exp, c_in, diffs, rtol, run='B', gam=gB, dev_nat=dev_nat)
        rec['B'] = observe(gB, outB, None)
    return rec


def _pointwise_dev(dist, y, mu):
    from scipy.special import xlogy
    if dist == 'normal':
        return (y - mu) ** 2
    if dist == 'binomial':
        return 2 * (xlogy(y, y / mu) + xlogy(1 - y, (1 - y) / (1 - mu)))
    if dist == 'poisson':
        return 2 * (xlogy(y, y / mu) - (y - mu))
    if dist == 'gamma':
        return 2 * ((y - mu) / mu - np.log(y / mu))
    return (y - mu) ** 2 / (mu ** 2 * y)


def _default_items(desc):
    return ['deviance', 'diffs', 'accuracy'] if CLASSES[desc['cls']][0] == 'LogisticGAM' else ['deviance', 'diffs']


def _oracle_builtin_logs(fail, logs, items, k, dev_exp, acc_exp, c_in, diffs, rtol, run, gam=None, dev_nat=1.0):
    """each enabled callback has exactly one entry per iteration (per hook) with the right content"""
    want = {}
    for it in items:
        name = it if isinstance(it, str) else it[2]
        per = 1 if isinstance(it, str) else HOOKS_PER_KIND[it[1]]
        want[name] = want.get(name, 0) + per
    for name, per in want.items():
        got = len(logs.get(name, []))
        if got != per * k:
            fail('number of log entries is not hooks x iterations', key=name, entries=got, hooks=per, iterations=k, run=run)
    # callbacks whose hooks return None: one entry per call all the same, and the callback's own tally of calls
    # (its count of the iterations) must be the iteration count
    for it in items:
        if isinstance(it, str) or it[1] not in NONE_KINDS:
            continue
        ret, hooks = NONE_KINDS[it[1]]
        cb = next((c for c in getattr(gam, 'callbacks', []) if str(c) == it[2]), None) if gam is not None else None
        if cb is not None:
            tally = dict(start=cb.n_start if hooks in ('s', 'b') else None, end=cb.n_end if hooks in ('e', 'b') else None)
            if any(v is not None and v != k for v in tally.values()):
                fail('user hook not called once per iteration', key=it[2], calls=tally, iterations=k, run=run)
            calls = sum(v for v in tally.values() if v is not None)
            if len(logs.get(it[2], [])) != calls:
                fail('a callback whose hook returns None logged fewer entries than it was called', key=it[2],
                     entries=len(logs.get(it[2], [])), calls=calls, iterations=k, run=run)
                continue
        ent = logs.get(it[2], [])
        per = HOOKS_PER_KIND[it[1]]
        if len(ent) == per * k:
            for i in range(k):
                for v in ent[i * per:(i + 1) * per]:
                    if (v is None) != (ret == 'n' or i % 2 == 0):
                        fail('entry of a None-returning hook is not what the hook returned', key=it[2], it=i, run=run)
    extra = sorted(set(logs.keys()) - set(want.keys()))
    if extra:
        fail('log keys of callbacks that are not enabled', keys=extra, run=run)
    mult = {n: sum(1 for it in items if it == n) for n in BUILTINS}
    for n in BUILTINS:
        if mult[n] == 0 or len(logs.get(n, [])) != mult[n] * k:
            continue
        ent = logs[n]
        for i in range(k):
            for r in range(mult[n]):
                v = ent[i * mult[n] + r]
                if n == 'deviance' and not dev_close(v, dev_exp[i], rtol, dev_nat):
                    fail('logged deviance is not the deviance of the coefficients entering the iteration', it=i, logged=float(v), expected=dev_exp[i],
                         next=dev_exp[i + 1] if i + 1 < k else None, run=run,
                         expected_over_logged=(dev_exp[i] / float(v)) if float(v) else None,
                         distribution_scale=getattr(getattr(gam, 'distribution', None), 'scale', None))
                elif n == 'accuracy' and not rel_close(v, acc_exp[i], rtol):
                    fail('logged accuracy is not that of the coefficients entering the iteration', it=i, logged=float(v), expected=acc_exp[i], run=run)
                elif n == 'coef' and not np.array_equal(np.asarray(v).ravel(), c_in[i].ravel()):
                    fail('logged coef is not the coefficient vector entering the iteration', it=i, run=run)
                elif n == 'diffs' and not (float(v) == diffs[i] or (v != v and diffs[i] != diffs[i])):
                    fail('logged diff is not the diff the stopping rule tested', it=i, logged=float(v), recorded=diffs[i], run=run)


def observe(gam, out, probe_name):
    """canonical, JSON-able view of what the public API shows after the fit"""
    logs = {}
    for key, ent in dict(gam.logs_).items():
        row = []
        for v in ent:
            if v is None:
                row.append(dict(none=True))
            elif isinstance(v, dict):
                row.append(dict(h=v['h'], k=v['k'], diff=f2b(v['diff']) if 'diff' in v else None))
            elif isinstance(v, np.ndarray):
                row.append(dict(vec=np.asarray(v).ravel().tolist()))
            else:
                row.append(dict(num=float(v)))
        logs[key] = row
    st = getattr(gam, 'statistics_', None)
    return dict(logs=logs, printed=(out == 'did not converge\n'), out=out[:60],
                stats=bool(isinstance(st, dict) and STAT_KEYS.issubset(st.keys())),
                coef=np.asarray(gam.coef_).ravel().tolist())


# --------------------------------------------------------------------------------------------
# model comparison (parent process)
# --------------------------------------------------------------------------------------------
def fit_op(desc, cfg, items_tok, diffs, old='-'):
    ctor = CLASSES[desc['cls']][0]
    return 'C20 fit %s %d %s %d %s %s %s' % (ctor, cfg['max_iter'], cfg['tol'], 1 if desc['terms'] == 'mono' else 0,
                                              items_tok, old, ' '.join(diffs))


def parse_fit(out):
    """-> dict(status, iters, coef, printed, stats, logs={key: [entry,…]})"""
    if not out.startswith('ok '):
        return dict(status=out)
    head, _, tail = out.partition(' logs')
    d = dict(status='ok')
    for tok in head.split()[1:]:
        k_, v = tok.split('=')
        d[k_] = int(v)
    logs = {}
    for tok in tail.split():
        key, _, ents = tok.partition('=')
        logs[key] = ents.split('|') if ents else []
    d['logs'] = logs
    return d


def compare_with_model(rec, obs, pred, rtol=1e-9, old_obs=None):
    """list of differences between what the model predicts and what the implementation showed"""
    diffs = []
    if pred['status'] != 'ok':
        return ['model outcome %s, implementation fitted' % pred['status']]
    k = rec['k']
    if pred['iters'] != k:
        diffs.append('iterations: model %d, implementation %d' % (pred['iters'], k))
    if bool(pred['printed']) != obs['printed']:
        diffs.append('did-not-converge line: model %s, implementation %s' % (bool(pred['printed']), obs['printed']))
    if bool(pred['stats']) != obs['stats']:
        diffs.append('statistics: model %s, implementation %s' % (bool(pred['stats']), obs['stats']))
    traj = rec['coef_in'] + [rec['coef_final']]
    if pred['coef'] >= len(traj) or obs['coef'] != traj[pred['coef']]:
        diffs.append('final coef_ is not trajectory point %d' % pred['coef'])
    if sorted(pred['logs'].keys()) != sorted(obs['logs'].keys()):
        diffs.append('log keys: model %s, implementation %s' % (sorted(pred['logs']), sorted(obs['logs'])))
        return diffs
    for key, ents in pred['logs'].items():
        got = obs['logs'][key]
        if len(ents) != len(got):
            diffs.append('len(logs_[%s]): model %d, implementation %d' % (key, len(ents), len(got)))
            continue
        for j, (e, g) in enumerate(zip(ents, got)):
            bad = None
            if e.startswith('old'):
                if old_obs is not None and old_obs[key][int(e[3:])] != g:
                    bad = 'old entry changed'
            elif e.startswith('dev@'):
                i = int(e[4:])
                if 'num' not in g or i >= len(rec['dev_exp']) or not rel_close(g['num'], rec['dev_exp'][i], rtol):
                    bad = 'deviance at trajectory point %d expected %r' % (i, rec['dev_exp'][i] if i < len(rec['dev_exp']) else None)
            elif e.startswith('acc@'):
                i = int(e[4:])
                if 'num' not in g or i >= len(rec['acc_exp']) or not rel_close(g['num'], rec['acc_exp'][i], rtol):
                    bad = 'accuracy at trajectory point %d' % i
            elif e.startswith('coef@'):
                i = int(e[5:])
                if 'vec' not in g or i >= len(traj) or g['vec'] != traj[i]:
                    bad = 'coef at trajectory point %d' % i
            elif e.startswith('diff:'):
                if 'num' not in g or f2b(g['num']) != e[5:]:
                    bad = 'diff %s' % e[5:]
            elif e == 'none':
                if g != dict(none=True):
                    bad = 'the hook returned None: an entry None'
            elif e.startswith('us:'):
                i = int(e.rsplit('@', 1)[1])
                if g.get('h') != 's' or g.get('k') not in (i, None):
                    bad = 'start-hook value of iteration %d' % i
            elif e.startswith('ue:'):
                body = e.rsplit('@', 1)[1]
                i = int(body.split('>')[0])
                bits = body.split(':')[1]
                if g.get('h') != 'e' or g.get('k') not in (i, None) or (g.get('diff') is not None and g['diff'] != bits):
                    bad = 'end-hook value of iteration %d' % i
            else:
                bad = 'unknown model entry ' + e
            if bad:
                diffs.append('logs_[%s][%d]: %s, implementation %s' % (key, j, bad, json.dumps(g)[:120]))
                break
    return diffs


# --------------------------------------------------------------------------------------------
# generators
# --------------------------------------------------------------------------------------------
def harvest_literals(pygam):
    """numeric literals of the functions under test (literal-seeded sampling)"""
    import pygam.callbacks as cbm
    fns = [pygam.GAM._pirls, pygam.GAM._on_loop_start, pygam.GAM._on_loop_end, pygam.GAM.fit, pygam.GAM._validate_params,
           cbm.validate_callback_data, cbm.validate_callback, cbm.Deviance.on_loop_start, cbm.Accuracy.on_loop_start,
           cbm.Diffs.on_loop_end, cbm.Coef.on_loop_start]
    lits = set()
    for f in fns:
        try:
            f = getattr(f, '__wrapped__', f)
            tree = ast.parse(textwrap.dedent(inspect.getsource(f)))
        except Exception:  # noqa
            continue
        for node in ast.walk(tree):
            if isinstance(node, ast.Constant) and isinstance(node.value, (int, float)) and not isinstance(node.value, bool):
                lits.add(float(node.value))
    return sorted(lits)


def pirls_local_names(pygam):
    """every name assigned in `_pirls` (plus its parameters): the candidates for hook arguments"""
    tree = ast.parse(textwrap.dedent(inspect.getsource(pygam.GAM._pirls)))
    names = set()
    for node in ast.walk(tree):
        if isinstance(node, ast.Name) and isinstance(node.ctx, ast.Store):
            names.add(node.id)
        elif isinstance(node, ast.arg):
            names.add(node.arg)
    return sorted(names)


def group_configs(rng, desc, ref_diffs, lits, n_cfg):
    """configurations for one data set: callbacks x max_iter x tol, with tolerances placed on the recorded diffs"""
    cfgs = []
    kref = len(ref_diffs)
    fin = [d for d in ref_diffs if math.isfinite(d) and d > 0]
    subsets = [list(c) for r in range(5) for c in itertools.combinations(BUILTINS, r)]
    users = ['none', 'none', 'probe', 'startonly', 'endonly', 'both', 'locals', 'shared', 'twice', 'noargs', 'default'] + sorted(NONE_KINDS)
    for j in range(n_cfg):
        # tol
        mode = rng.choice(['log', 'log', 'on', 'above', 'below', 'lit', 'edge'])
        if mode in ('on', 'above', 'below') and fin:
            d = rng.choice(fin)
            tol = d if mode == 'on' else nextafter(d, mode == 'above')
            if not (1e-12 <= tol <= 1.0):
                mode = 'log'
        if mode == 'lit':
            cand = [v for v in lits if 1e-12 <= v <= 1.0]
            tol = rng.choice(cand) if cand else 1e-4
        if mode == 'edge':
            tol = rng.choice([1e-12, 1.0, 1e-4, 0.5, 1e-8])
        if mode == 'log':
            tol = 10 ** rng.uniform(-12, 0)
        # max_iter
        kstop = next((i + 1 for i, d in enumerate(ref_diffs) if d < tol), kref)
        mi = rng.choice([1, 2, 3, max(1, kstop - 1), kstop, kstop + 1, rng.randint(1, 30), rng.randint(1, 30), 30])
        mi = min(max(1, mi), 30)
        # callbacks
        sub = list(rng.choice(subsets))
        rng.shuffle(sub)
        user = rng.choice(users)
        if user == 'default':
            items = None
        else:
            items = list(sub)
            if user == 'probe':
                items.insert(rng.randint(0, len(items)), ['user', 'probe', 'probe'])
            elif user in ('startonly', 'endonly', 'both', 'noargs', 'locals') or user in NONE_KINDS:
                items.insert(rng.randint(0, len(items)), ['user', user, 'u_' + user])
            elif user == 'shared':      # two user callbacks logging under one key
                items.insert(rng.randint(0, len(items)), ['user', 'both', 'dup'])
                items.insert(rng.randint(0, len(items)), ['user', 'endonly', 'dup'])
            elif user == 'twice' and sub:   # the same built-in enabled twice
                items.insert(rng.randint(0, len(items)), rng.choice(sub))
        cfgs.append(dict(max_iter=mi, tol=f2b(tol), items=items, user=user, tolmode=mode))
    return cfgs


def scale_configs(rng, desc, ref_diffs, lits, n_cfg):
    """configurations for a model with a user-supplied scale: every one logs the deviance (and most the coefficients
    it belongs to); the first three are fixed, the rest drawn like the main grid"""
    kref = len(ref_diffs)
    fixed = [dict(max_iter=30, tol=f2b(1e-4), items=None, user='default', tolmode='edge'),
             dict(max_iter=[1, 2, 3, 5][rng.randrange(4)], tol=f2b(1e-4), items=['deviance', 'coef', 'diffs'], user='none', tolmode='edge'),
             dict(max_iter=min(30, kref + 1), tol=f2b(1e-8), items=['coef', 'deviance', 'deviance'], user='twice', tolmode='edge')]
    drawn = group_configs(rng, desc, ref_diffs, lits, max(0, n_cfg - len(fixed)))
    for cfg in drawn:
        if cfg['items'] is not None and 'deviance' not in cfg['items']:
            cfg['items'].insert(rng.randint(0, len(cfg['items'])), 'deviance')
    return (fixed + drawn)[:max(n_cfg, 1)]


def run_group(args):
    """worker: one data set / model class; reference run, then the configurations"""
    desc, n_cfg, lits, seed = args
    import random
    common.import_pygam()
    rng = random.Random('c20-group-%s-%s' % (seed, desc['gseed']))
    # reference run: never stops on tol (diff < 0 is never true), probe only
    ref = run_config(desc, dict(max_iter=30, tol=f2b(0.0), items=[['user', 'probe', 'probe']], user='probe', tolmode='ref'))
    if ref['fails'] and not any(f['kind'] == 'fit raised' for f in ref['fails']):
        ref['fails'] = []          # tol = 0 is outside the property's domain: the run only supplies the diff sequence
    out = [ref]
    if ref.get('skipped') or 'diffs' not in ref:
        return out
    ref_diffs = [b2f(b) for b in ref['diffs']]
    for cfg in (scale_configs if desc.get('scale') is not None else group_configs)(rng, desc, ref_diffs, lits, n_cfg):
        rec = run_config(desc, cfg)
        if rec['fails']:
            # re-execute once more with a x10 margin on the float tolerances before anything is reported
            rec2 = run_config(desc, cfg, rtol=1e-8)
            kinds = {f['kind'] for f in rec2['fails']}
            rec['fails'] = [f for f in rec['fails'] if f['kind'] in kinds]
            rec['confirmed'] = True
        out.append(rec)
    return out


def descs_for(ctx):
    quick = ctx.tier == 'quick'
    rng = ctx.subrng('groups')
    descs = []
    labels = list(CLASSES)
    reps = 1 if quick else 16
    g = 0
    for rep in range(reps):
        for lab in labels:
            for terms in TERMS:
                wm = rng.choice(WEIGHTS) if rep or terms != 'lin' else 'none'
                descs.append(dict(cls=lab, terms=terms, n=rng.randint(30, 80), weights=wm, gseed='%d-%d' % (ctx.seed, g)))
                if CLASSES[lab][1] == 'normal' and CLASSES[lab][2] == 'identity':
                    descs[-1]['unit'] = [1.0, 1e-12, 1.0, 1e-6, 1e6, 1e-9][g % 6]
                g += 1
    return descs


def scale_descs(ctx):
    """every class whose distribution scale the user may fix (LinearGAM, GammaGAM, InvGaussGAM, ExpectileGAM, GAM with a
    distribution object), each with a linear term set (design rebuilt with NumPy) and a spline term set, and a scale
    other than 1 in the units of the response (variance of the normal family: unit^2)"""
    quick = ctx.tier == 'quick'
    rng = ctx.subrng('scale-groups')
    descs = []
    g = 0
    for rep in range(1 if quick else 6):
        for lab in CLASSES:
            if CLASSES[lab][1] not in SCALE_DISTS:
                continue
            for terms in (['lin', 'lin0'][(g + ctx.seed + rep) % 2], ['spl', 'mono'][(g // 2 + ctx.seed + rep) % 2]):
                d = dict(cls=lab, terms=terms, n=rng.randint(30, 80), weights=rng.choice(WEIGHTS) if rep or terms[0] != 'l' else 'none',
                         gseed='sc-%d-%d' % (ctx.seed, g))
                sc = SCALE_VALUES[(g + ctx.seed) % len(SCALE_VALUES)]
                if CLASSES[lab][1] == 'normal' and CLASSES[lab][2] == 'identity':
                    d['unit'] = [1.0, 1e-6, 1e3, 1.0, 1e-12, 1e6][(g // 2) % 6]
                    sc = sc * d['unit'] ** 2
                d['scale'] = sc
                descs.append(d)
                g += 1
    return descs


# --------------------------------------------------------------------------------------------
# streams
# --------------------------------------------------------------------------------------------
def report_record(ctx, st, rec):
    """oracle findings of one record -> ctx.fail; documented behaviour outside the property text -> 'observed-quirk' counters"""
    for s in rec.get('quirks', []):
        ctx.count('observed-quirk', s['kind'])
    for f in rec['fails']:
        sig = dict(stream=st, cls=rec['desc']['cls'], kind=f['kind'])
        ctx.fail(st, sig, dict(desc=rec['desc'], cfg=rec['cfg'], tol=b2f(rec['cfg']['tol'])), observed=f,
                 expected='property C20 on the recorded run (see kind)', oracle='NumPy oracle on the probe-recorded run, re-executed twice',
                 detail='replay: harness.props.c20.run_config(desc, cfg)')
        return True
    return False


def stream_trace(ctx, pool, lits, scaled=False):
    if scaled:
        st = 'loop.scale'
        ctx.stream(st, 'the same for models with a user-supplied distribution scale other than 1 (scale= of LinearGAM / GammaGAM / InvGaussGAM / '
                       'ExpectileGAM, GAM(distribution=NormalDist/GammaDist/InvGaussDist(scale=...))): every configuration logs the deviance, which '
                       'must be the unscaled NumPy family deviance at the coefficients entering the iteration -- fixing the scale changes the '
                       'statistics, not the quantity a callback records')
        descs = scale_descs(ctx)
        n_cfg = 7 if ctx.tier == 'quick' else 16
    else:
        st = 'loop.trace'
        ctx.stream(st, 'fits of every model class x callbacks x max_iter x tol: iterations, stdout, statistics_, logs_ (keys, lengths, '
                       'contents) and coef_ vs the Lean model replayed on the recorded diffs; symbols resolved with NumPy')
        descs = descs_for(ctx)
        n_cfg = 24 if ctx.tier == 'quick' else 40
    groups = pool.map(run_group, [(d, n_cfg, lits, ctx.seed) for d in descs], chunksize=1)
    ops, index = [], []
    for recs in groups:
        for rec in recs:
            d = rec['desc']
            ctx.count('class', d['cls'])
            ctx.count('terms', d['terms'])
            if rec.get('skipped'):
                ctx.count('skipped (numerical breakdown of the data set)', rec['skipped'])
                continue
            if report_record(ctx, st, rec) or 'A' not in rec:
                continue
            ops.append(fit_op(d, rec['cfg'], rec['a_model_items'], rec['diffs']))
            index.append((rec, 'A'))
            if rec.get('B') is not None:
                ops.append(fit_op(d, rec['cfg'], rec['b_model_items'], rec['diffs']))
                index.append((rec, 'B'))
    outs = ctx.driver.run(ops)
    for (rec, which), op, out in zip(index, ops, outs):
        d, cfg = rec['desc'], rec['cfg']
        pred = parse_fit(out)
        obs = rec[which]
        k = rec['k']
        tol = b2f(cfg['tol'])
        ctx.count('iterations', k)
        ctx.count('converged', 'yes' if not obs['printed'] else 'no (did not converge)')
        ctx.count('stopped', 'at max_iter' if k == cfg['max_iter'] else 'before max_iter')
        ctx.count('user callbacks', cfg['user'])
        ctx.count('tol placement', cfg['tolmode'])
        ctx.count('weights', d['weights'])
        if scaled:
            ctx.count('user-supplied scale / unit^2', '%s %g' % (CLASSES[d['cls']][0], d['scale'] / d.get('unit', 1.0) ** 2))
            ctx.count('scale seen on the fitted model', 'the given one' if rec.get('scale_seen') == d['scale'] else 'another: %r' % rec.get('scale_seen'))
        ctx.count('log10(tol)', int(math.floor(math.log10(tol))) if tol > 0 else 'ref(0)')
        items = cfg['items']
        sig = dict(cls=d['cls'], terms=d['terms'], w=d['weights'], run=which, max_iter=cfg['max_iter'], tol=cfg['tol'],
                   items=json.dumps(items), k=k, printed=obs['printed'], g=d['gseed'], scale=d.get('scale'))
        ctx.case(st, sig, nontrivial=(cfg['tolmode'] != 'ref'), sample=dict(op=op[:300], model=out[:300], cls=d['cls'], k=k))
        dd = compare_with_model(rec, obs, pred)
        if dd:
            ctx.disagree(st, dict(desc=d, cfg=cfg, run=which, op=op[:400]), impl=dict(k=k, printed=obs['printed'], keys={a: len(b) for a, b in obs['logs'].items()}),
                         model=out[:400], detail='; '.join(dd[:4]) + ' (the NumPy oracle found no failing input here)')


def stream_refit(ctx, lits):
    """logs_ persists across refits: entries are appended, old entries stay, the loop index restarts"""
    pygam = common.import_pygam()
    st = 'loop.refit'
    ctx.stream(st, 'two or three consecutive fits of one model object: logs_ appended (old entries untouched), per-fit trace vs model with `old` entries')
    rng = ctx.subrng('refit')
    labels = list(CLASSES)
    n_cases = 28 if ctx.tier == 'quick' else 200
    ops, meta = [], []
    for j in range(n_cases):
        lab = labels[j % len(labels)]
        desc = dict(cls=lab, terms=rng.choice(TERMS), n=rng.randint(30, 60), weights=rng.choice(['none', 'pos']), gseed='refit-%d-%d' % (ctx.seed, j))
        X, y, w = make_data(desc)
        sub = [b for b in BUILTINS if rng.random() < 0.6]
        items = sub + [['user', 'probe', 'probe']]
        mi = rng.choice([1, 2, 3, 5, 30])
        tol = rng.choice([1e-2, 1e-4, 1e-8, 1e-12, 1.0])
        cfg = dict(max_iter=mi, tol=f2b(tol), items=items, user='probe', tolmode='refit')
        gam = make_model(pygam, desc, build_callbacks(pygam, items), mi, tol)
        seen = {}
        prev_obs = None
        nfits = rng.choice([2, 2, 3])
        for r in range(nfits):
            out, exc = fit_captured(gam, X, y, w)
            if exc is not None:
                ctx.count('skipped (numerical breakdown of the data set)', type(exc).__name__)
                break
            logs = dict(gam.logs_)
            obs = observe(gam, out, 'probe')
            pr = logs.get('probe', [])
            # entries of this fit: from the last start-hook entry with loop index 0 on (works whether a refit
            # appends to logs_ -- what the code does, and the model says -- or would start a new log)
            i0 = max([i for i, e in enumerate(pr) if e['h'] == 's' and e['k'] == 0], default=len(pr))
            new_ends = [e for e in pr[i0:] if e['h'] == 'e']
            new_starts = [e for e in pr[i0:] if e['h'] == 's']
            k = len(new_ends)
            diffs = [f2b(e['diff']) for e in new_ends]
            bad = None
            kept = {}
            for key in set(logs) | set(seen):
                per = 2 if key == 'probe' else 1
                kept[key] = len(logs.get(key, [])) - per * k
            modes = set()
            for key, kp in kept.items():
                if kp == seen.get(key, 0):
                    modes.add('appended' if kp else 'fresh')
                elif kp == 0:
                    modes.add('reset')
                else:
                    bad = 'key %s: %d entries after the fit, %d before, %d iterations' % (key, len(logs.get(key, [])), seen.get(key, 0), k)
            if len(modes - {'fresh'}) > 1:
                bad = 'keys disagree on whether old entries are kept: %s' % sorted(kept.items())
            for m_ in modes:
                ctx.count('log entries of earlier fits', m_)
            old = ','.join('%s*%d' % (a, b) for a, b in sorted(kept.items()) if b > 0) or '-'
            if len(new_starts) != k or [e['k'] for e in new_ends] != list(range(k)) or not (1 <= k <= mi):
                bad = 'loop index / iteration count of the refit: %d start, %d end entries, max_iter %d' % (len(new_starts), k, mi)
            elif (out == 'did not converge\n') != (not (b2f(diffs[-1]) < tol)):
                bad = 'non-convergence report of the refit'
            elif not obs['stats']:
                bad = 'statistics_ not populated after refit'
            sig = dict(cls=lab, fit=r, k=k, max_iter=mi, tol=f2b(tol), items=json.dumps(sub), g=desc['gseed'])
            ctx.case(st, sig, nontrivial=(r > 0), sample=dict(cls=lab, fit=r, k=k, old=old))
            ctx.count('refit number', r)
            if bad:
                ctx.fail(st, dict(stream=st, cls=lab, kind=bad.split(':')[0][:40]), dict(desc=desc, cfg=cfg, fit=r), observed=bad,
                         expected='every fit adds hooks x iterations entries, reports non-convergence iff last diff >= tol, sets statistics_', oracle='logs_ / stdout / statistics_ after each of several fits of one object')
                break
            # material for the model: trajectory of this fit
            rec = dict(k=k, coef_in=[np.asarray(e['coef']).ravel().tolist() for e in new_starts],
                       coef_final=np.asarray(gam.coef_).ravel().tolist(), dev_exp=[], acc_exp=[])
            ctor, dist, link, _ = CLASSES[lab]
            mask = np.ones(len(y), bool) if w is None else (w > 0)
            for e in new_starts:
                rec['dev_exp'].append(np_deviance(dist, y[mask], np.asarray(e['mu'])))
                rec['acc_exp'].append(float(np.mean(y[mask] == (np.asarray(e['mu']) > 0.5))))
            ops.append(fit_op(desc, cfg, model_items(pygam, items), diffs, old=old))
            meta.append((rec, obs, dict(seen), prev_obs['logs'] if (r and 'appended' in modes) else None, dict(desc=desc, cfg=cfg, fit=r)))
            seen = {key: len(v) for key, v in logs.items()}
            prev_obs = obs
    outs = ctx.driver.run(ops)
    for (rec, obs, seen, old_obs, case), op, out in zip(meta, ops, outs):
        pred = parse_fit(out)
        dd = compare_with_model(rec, obs, pred, old_obs=old_obs)
        if dd:
            ctx.disagree(st, dict(case=case, op=op[:300]), impl={a: len(b) for a, b in obs['logs'].items()}, model=out[:300], detail='; '.join(dd[:4]))


def stream_ctor(ctx):
    """which constructor arguments each class accepts / hands to the base class; default callbacks"""
    pygam = common.import_pygam()
    from pygam.callbacks import CallBack
    st = 'ctor.table'
    ctx.stream(st, 'model class x constructor argument: accepted? reaches the attribute the optimiser reads? default / effective callbacks vs model table')
    classes = ['GAM', 'LinearGAM', 'LogisticGAM', 'PoissonGAM', 'GammaGAM', 'InvGaussGAM', 'ExpectileGAM']
    args = ['terms', 'max_iter', 'tol', 'distribution', 'link', 'callbacks', 'fit_intercept', 'verbose', 'scale', 'expectile']
    user_cb = user_callback(pygam, 'endonly', 'mine')
    values = dict(terms=pygam.l(0), max_iter=7, tol=0.03125, distribution='poisson', link='log', callbacks=['coef', user_cb],
                  fit_intercept=False, verbose=True, scale=0.75, expectile=0.25)
    cb_variants = {'=': [], '=coef': ['coef'], '=accuracy,deviance': ['accuracy', 'deviance'],
                   '=' + hook_spec(user_cb): [user_cb], '=diffs,' + hook_spec(user_cb) + ',coef': ['diffs', user_cb, 'coef'], '-': None}
    ops = ['C20 ctor %s %s' % (c, a) for c in classes for a in args]
    ops += ['C20 defaults %s' % c for c in classes]
    eff = [(c, tok) for c in classes for tok in cb_variants]
    ops += ['C20 effective %s %s' % (c, tok) for c, tok in eff]
    outs = ctx.driver.run(ops)
    it = iter(zip(ops, outs))
    X = np.array([[i / 10.0, (i * 7 % 10) / 10.0] for i in range(30)])
    yy = {'GAM': X[:, 0] * 2 + 1, 'LinearGAM': X[:, 0] * 2 + 1, 'ExpectileGAM': X[:, 0] * 2 + 1 + X[:, 1],
          'LogisticGAM': (X[:, 0] + X[:, 1] > 0.9).astype(float), 'PoissonGAM': np.round(np.exp(X[:, 0]) + X[:, 1]),
          'GammaGAM': np.exp(X[:, 0]) + 0.1, 'InvGaussGAM': np.exp(X[:, 0]) + 0.1}
    for c in classes:
        for a in args:
            op, out = next(it)
            cls = getattr(pygam, c)
            try:
                g = cls(**{a: values[a]})
                acc = True
            except TypeError:
                acc, g = False, None
            fwd = None
            if acc:
                got = getattr(g, a, None)
                if a == 'terms':
                    same = got is not None and str(got) == str(pygam.terms.TermList(values[a]))
                else:
                    same = (got is values[a]) or bool(got == values[a])
                fwd = bool(same) and a not in ('scale', 'expectile')
                if a in ('scale', 'expectile') and not same:
                    acc = None
            impl = '%d %d' % (1 if acc else 0, 1 if fwd else 0)
            ctx.case(st, dict(cls=c, arg=a), nontrivial=True, sample=dict(op=op, model=out, impl=impl))
            ctx.count('ctor argument', a)
            if impl != out:
                # oracle: the optimiser arguments must reach the attribute the loop reads
                if a in ('max_iter', 'tol', 'callbacks') and c != 'GAM' or (c == 'GAM' and a in ('max_iter', 'tol', 'callbacks')):
                    ctx.fail(st, dict(stream=st, cls=c, arg=a, kind='constructor drops argument'), dict(call='%s(%s=%r)' % (c, a, values[a])),
                             observed=dict(accepted=acc, attribute=repr(getattr(g, a, None))[:80] if g is not None else None),
                             expected='the argument is accepted and stored unchanged for the optimiser', oracle='attribute of the fresh model object')
                else:
                    ctx.disagree(st, dict(cls=c, arg=a), impl, out, 'constructor table differs')
    for c in classes:
        op, out = next(it)
        got = getattr(pygam, c)().callbacks
        ctx.case(st, dict(cls=c, defaults=True), nontrivial=True)
        if ' '.join(map(str, got)) != out:
            ctx.disagree(st, dict(cls=c, what='default callbacks'), list(map(str, got)), out, 'default callbacks differ')
    for c, tok in eff:
        op, out = next(it)
        cbs = cb_variants[tok]
        g = getattr(pygam, c)(terms=pygam.l(0) + pygam.l(1), max_iter=2, **({} if cbs is None else dict(callbacks=list(cbs))))
        txt, exc = fit_captured(g, X, yy[c], None)
        ctx.case(st, dict(cls=c, cbs=tok), nontrivial=True, sample=dict(op=op, model=out))
        if exc is not None:
            ctx.fail(st, dict(stream=st, cls=c, kind='fit raised'), dict(cls=c, callbacks=tok), observed=type(exc).__name__, expected='fit succeeds', oracle='fit on 30 points')
            continue
        got_names = [str(cb) for cb in g.callbacks]
        keys = sorted(dict(g.logs_).keys())
        if ' '.join(got_names) != out:
            want = out.split()
            if cbs is not None:
                ctx.fail(st, dict(stream=st, cls=c, kind='user callbacks do not reach the optimiser'), dict(cls=c, callbacks=tok),
                         observed=dict(callbacks=got_names, log_keys=keys), expected=want, oracle='gam.callbacks / keys of gam.logs_ after fit')
            else:
                ctx.disagree(st, dict(cls=c, cbs=tok), got_names, out, 'effective callbacks differ')
        elif keys != sorted(set(out.split())):
            ctx.fail(st, dict(stream=st, cls=c, kind='log keys are not the enabled callbacks'), dict(cls=c, callbacks=tok),
                     observed=keys, expected=sorted(set(out.split())), oracle='keys of gam.logs_ after fit')


def make_hook_callback(pygam, name, start_names, end_names, start_locals=(), end_locals=()):
    """user CallBack whose hooks take the given argument names (None = hook absent) and assign the given local variables"""
    from pygam.callbacks import CallBack
    ns = dict(CallBack=CallBack)
    src = ['class Dyn(CallBack):', '    def __init__(self):', '        super(Dyn, self).__init__(name=%r)' % name]
    for hook, names, locs in (('on_loop_start', start_names, start_locals), ('on_loop_end', end_names, end_locals)):
        if names is None:
            continue
        src.append('    def %s(self%s):' % (hook, ''.join(', ' + n for n in names)))
        for lv in locs:
            src.append('        %s = 1' % lv)
        src.append('        return 1')
    exec('\n'.join(src), ns)
    return ns['Dyn']()


def stream_bind(ctx):
    """argument binding: which loop locals a hook may name as *arguments* (every local of `_pirls` is probed), that
    its local variables are of no concern, and what happens with an unknown argument"""
    pygam = common.import_pygam()
    st = 'bind.names'
    ctx.stream(st, 'user hooks with each local of _pirls / unknown names / several names as arguments, and arbitrary local variables: '
                   'fit succeeds or raises AssertionError as the model says; hooks whose arguments are those of the built-ins must be accepted')
    rng = ctx.subrng('bind')
    cands = sorted((set(pirls_local_names(pygam)) | {'gam', 'nosuch', 'tol', 'coef_', 'logs_', 'callbacks', 'C', 'E', 'variables'}) - {'self'})
    local_cands = cands + ['twice', 'tmp', 'k', 'out']
    good = {'start': {'gam', 'y', 'mu'}, 'end': {'gam', 'y', 'mu', 'diff'}}    # what the built-in hooks themselves use
    X = np.array([[i / 16.0, ((i * 5) % 16) / 16.0] for i in range(32)])
    y = np.sin(3 * X[:, 0]) + X[:, 1]
    cases = []
    for hasC in (0, 1):
        for hook in ('start', 'end'):
            for nm in cands:
                cases.append((hasC, hook, [nm], []))
            for nm in local_cands:          # every name as a *local variable* of an otherwise valid hook
                cases.append((hasC, hook, ['mu'] if hook == 'start' else ['diff'], [nm] if nm not in ('mu', 'diff') else ['twice']))
    n_multi = 80 if ctx.tier == 'quick' else 800
    for j in range(n_multi):
        hook = rng.choice(['start', 'end'])
        pool = cands if rng.random() < 0.5 else sorted(good[hook])
        names = rng.sample(pool, rng.randint(0, min(4, len(pool))))
        locs = [v for v in rng.sample(local_cands, rng.randint(0, 3)) if v not in names]
        cases.append((rng.randint(0, 1), hook, names, locs))
    ops = []
    for hasC, hook, names, locs in cases:
        a_ = '+'.join(names) if names else '.'
        l_ = '+'.join(locs) if locs else '.'
        spec = a_ + ('~' + l_ if locs else '')
        item = 'u/dyn/%s/%s' % ((spec, '-') if hook == 'start' else ('-', spec))
        ops.append('C20 bind %s %d %s %s' % (hook, hasC, a_, l_))
        ops.append('C20 fit LinearGAM 2 %s %d =diffs,%s - %s %s' % (f2b(1e-30), hasC, item, f2b(1.0), f2b(0.5)))
    outs = ctx.driver.run(ops)
    for i, (hasC, hook, names, locs) in enumerate(cases):
        b_out, f_out = outs[2 * i], outs[2 * i + 1]
        cb = make_hook_callback(pygam, 'dyn', names if hook == 'start' else None, names if hook == 'end' else None,
                                start_locals=locs, end_locals=locs)
        spec_seen = hook_spec(cb)
        terms = (pygam.s(0, n_splines=5, constraints='monotonic_inc') + pygam.l(1)) if hasC else (pygam.l(0) + pygam.l(1))
        g = pygam.LinearGAM(terms, max_iter=2, tol=1e-30, callbacks=['diffs', cb])
        txt, exc = fit_captured(g, X, y, None)
        impl = 'ok' if exc is None else type(exc).__name__
        model = 'ok' if f_out.startswith('ok ') else f_out
        case = dict(hasC=hasC, hook=hook, args=names, locals=locs)
        ctx.case(st, case, nontrivial=True, sample=dict(op=ops[2 * i], model=b_out, impl=impl, spec=spec_seen))
        ctx.count('binding outcome', impl)
        ctx.count('hook local variables', len(locs))
        consistent = (b_out == 'ok') == (model == 'ok')
        if impl != 'ok' and set(names) <= good[hook]:
            # property oracle: a user callback whose hook takes only what the built-in hooks take is a valid callback
            ctx.fail(st, dict(stream=st, kind='valid user hook rejected', locals=bool(locs)), case,
                     observed=dict(outcome=impl, msg=str(exc)[:120]), expected='fit runs and logs one entry per iteration',
                     oracle='LinearGAM(max_iter=2, callbacks=[diffs, user]).fit on 32 points')
        elif impl != model or not consistent:
            ctx.disagree(st, case, impl, dict(bind=b_out, fit=f_out[:80]), 'binding outcome differs')
        elif impl == 'ok':
            n = len(dict(g.logs_).get('dyn', []))
            if n != len(dict(g.logs_).get('diffs', [])):
                ctx.fail(st, dict(stream=st, kind='user hook entries'), case, observed=n,
                         expected=len(dict(g.logs_).get('diffs', [])), oracle='one entry per iteration for a one-hook user callback')


def stream_invalid(ctx):
    pygam = common.import_pygam()
    st = 'loop.invalid'
    ctx.stream(st, 'max_iter < 1 is rejected before any iteration (ValueError), max_iter = 1 runs exactly one')
    X = np.array([[i / 16.0, ((i * 5) % 16) / 16.0] for i in range(32)])
    y = np.sin(3 * X[:, 0]) + X[:, 1] + 1.5
    classes = ['GAM', 'LinearGAM', 'PoissonGAM', 'GammaGAM', 'InvGaussGAM', 'ExpectileGAM']
    vals = [0, -1, -7, 1]
    ops = ['C20 fit %s %d %s 0 =diffs - %s' % (c, v, f2b(1e-4), f2b(1.0)) for c in classes for v in vals]
    outs = ctx.driver.run(ops)
    for (c, v), op, out in zip([(c, v) for c in classes for v in vals], ops, outs):
        g = getattr(pygam, c)(pygam.l(0) + pygam.l(1), max_iter=v, callbacks=['diffs'])
        txt, exc = fit_captured(g, X, np.round(y) if c == 'PoissonGAM' else y, None)
        impl = 'ok' if exc is None else type(exc).__name__
        n = len(dict(getattr(g, 'logs_', {})).get('diffs', []))
        model = 'ok' if out.startswith('ok ') or out == 'short' else out
        ctx.case(st, dict(cls=c, max_iter=v), nontrivial=True, sample=dict(op=op, model=out, impl=impl))
        if v < 1 and (impl == 'ok' or n):
            ctx.fail(st, dict(stream=st, cls=c, kind='max_iter < 1 accepted'), dict(cls=c, max_iter=v), observed=dict(outcome=impl, iterations=n),
                     expected='ValueError, no iteration', oracle='exception class and logs_')
        elif v == 1 and (impl != 'ok' or n != 1):
            ctx.fail(st, dict(stream=st, cls=c, kind='max_iter = 1'), dict(cls=c, max_iter=v), observed=dict(outcome=impl, iterations=n),
                     expected='exactly one iteration', oracle='len(logs_[diffs])')
        elif impl != model:
            ctx.disagree(st, dict(cls=c, max_iter=v), impl, out, 'outcome differs')


def run(ctx):
    pygam = common.import_pygam()
    ctx.extra['rule'] = ('loop.trace: one case = (model class incl. GAM distribution/link, term set, weights mode, data set, callbacks list '
                         'incl. order and user callbacks, max_iter, tol bit pattern, run with/without the probe); non-trivial = everything '
                         'except the reference run (tol = 0); distinct = distinct signatures.  tol is placed on / one ulp around recorded diffs, '
                         'on harvested literals, on the ends of [1e-12, 1] and log-uniformly; max_iter around the stopping iteration and 1..30')
    ctx.assumptions.append('PIRLS is deterministic for identical inputs within one process (runs with and without the probe callback are compared bit for bit)')
    ctx.assumptions.append('data sets on which pyGAM reports a numerical breakdown (OptimizationError / LinAlgError / NaN in QR) are skipped and counted')
    lits = harvest_literals(pygam)
    ctx.extra['harvested_literals'] = lits
    guarded(ctx, stream_ctor)
    with multiprocessing.get_context('fork').Pool(min(16, os.cpu_count() or 1)) as pool:
        guarded(ctx, stream_trace, pool, lits)
        guarded(ctx, stream_trace, pool, lits, True)
    guarded(ctx, stream_refit, lits)
    guarded(ctx, stream_bind)
    guarded(ctx, stream_invalid)


def guarded(ctx, f, *a):
    """once a confirmed failing input exists, a later stream that trips over the same breakage must not turn the
    verdict into an infrastructure error"""
    try:
        f(ctx, *a)
    except Exception as e:  # noqa
        if not ctx.failing:
            raise
        ctx.count('stream aborted after a confirmed failing input', '%s: %s' % (f.__name__, type(e).__name__))


def replay(ctx, rp):
    """re-execute the single failing case of a replay file (loop.trace), else the whole check"""
    case = rp.get('case') or {}
    if rp.get('stream') in ('loop.trace', 'loop.scale') and 'desc' in case and 'cfg' in case:
        st = rp['stream']
        ctx.stream(st, 'replay of one configuration')
        rec = run_config(case['desc'], case['cfg'])
        ctx.case(st, dict(replay=True), nontrivial=True)
        if not report_record(ctx, st, rec) and 'A' in rec:
            ops, which = [fit_op(case['desc'], case['cfg'], rec['a_model_items'], rec['diffs'])], ['A']
            if rec.get('B') is not None:
                ops.append(fit_op(case['desc'], case['cfg'], rec['b_model_items'], rec['diffs']))
                which.append('B')
            for w, op, out in zip(which, ops, ctx.driver.run(ops)):
                dd = compare_with_model(rec, rec[w], parse_fit(out))
                if dd:
                    ctx.disagree(st, dict(case=case, run=w), rec[w]['logs'].keys(), out[:300], '; '.join(dd[:4]))
        return
    run(ctx)
