"""
C10 — gridsearch evaluates exactly the requested candidates and keeps the minimiser.

Theorems: lean/PyGam/Props/C10.lean about the model lean/PyGam/Model/Search.lean (`combine`, grid
normalisation, objective resolution, candidate loop as a fold with strict `<`, keep_best / return_scores).

Correspondence streams (real code vs the Lean driver executing those very definitions):
  combine.values    pygam.utils.combine vs model `combine` (exact), oracle itertools.product
  objective.table   real gridsearch on every class kind x every objective name vs model `resolveObjective`
  grid.scripted     real GAM.gridsearch on a LinearGAM subclass whose `fit` is scripted (scores incl. ties, inf, nan,
                    ValueError skips): grid shapes (valid and rejected), candidate multiset, loop, keep_best, return value
  search.data       fitted models reject X with another number of columns (model `dataCheck`)
  search.real       real gridsearch with real fits (LinearGAM unknown/known scale, PoissonGAM with exposure, LogisticGAM,
                    GammaGAM): candidates, skipped ones, winner, self afterwards vs model `gridsearch`;
                    oracle: independent cold fits of the Cartesian product computed with itertools.
  search.otherdata  the same pipeline with the search run on data OTHER than the data the starting model was fitted on (sub-range
                    of the training rows, new rows over a shifted range, rows with fewer factor levels, a fresh sample of another
                    size), all class kinds.  Oracle: with keep_best=False, or when the fitted start stays the best, the model is
                    bit-for-bit itself afterwards (`observe_fitted`: predict_mu and partial dependence at fixed query rows,
                    edge_knots_ / n_splines / n_coefs of every term, coef_, statistics_); candidates = cold fits on the search data.
  search.optimiser  the same pipeline over the settings that steer the optimiser: max_iter 1..200 and tol 1e-12..1e-3 on the
                    model and as grid dimensions (alone, with lam, jointly), all class kinds, fitted / unfitted start, grid as
                    given and with every axis reversed.  Oracle: score AND coefficients of every candidate equal those of an
                    independent cold fit with the same max_iter / tol -- also when neither converges (then the candidate can
                    only be `max_iter iterations from the cold initial estimate`: flat tolerance); two converged fits are
                    compared with a tolerance that follows tol (`score_rtol`, `coef_rtol`).  The one combination the unchanged
                    tree does not honour (a warm-started candidate converges within max_iter, the independent cold fit with
                    the same max_iter / tol does not, and their scores or coefficients differ beyond the flat tolerance) is the
                    known finding C10-warm-start-converges-cold-does-not: a fixed reproduction runs in every run, random
                    occurrences carry the same key.  No other combination carries it.

  search.weights    the same pipeline with SAMPLE WEIGHTS of every kind handed to gridsearch (`WEIGHT_PATTERNS`: exact zeros at random
                    rows / as counts / over a whole range of a feature / on most rows / on a single row, tiny but positive, all
                    weights scaled up or down, explicit ones, fractional, a few heavy rows), full product class kind x pattern in
                    every run (fixed data: no draw decides), x objective x fitted x keep_best x grid (lam 1-D / 2-D, n_splines, joint)
                    rotating, PoissonGAM also with exposure.  Oracle: every candidate equals the independent cold fit of the same
                    hyper-parameters on the SAME (X, y, weights): score, coefficients, statistics_['n_samples'] (exact), edof / deviance
                    / scale; the kept model is the arg-min of the independent fits (when that is clear of the tolerance) and
                    carries the statistics of that independent fit.  statistics_['n_samples'] of every candidate is compared in
                    all the real-fit streams.

  search.options    real code + oracle only, fixed list in every run (`gen_option_specs`, no draw decides): (a) grids whose values
                    include None over constraints / penalties (1-D = all terms alike, per-term lists with scalar entries, alone and
                    jointly with lam / each other), LinearGAM / LogisticGAM, s and l terms, from models whose OWN setting is not None;
                    (b) verbose=True models, fitted and unfitted, over n_splines x spline_order (x lam) grids that contain
                    combinations that cannot be fitted (warnings / stdout captured).  Oracle: the returned models (read back through
                    the public plural attributes) are exactly the feasible points of the itertools product -- every returned model is
                    a requested grid point, carries its own statistics_[objective] as score, differs from the start only in the
                    grid parameters, and can be refitted independently from ALL the hyper-parameters it carries to the same score;
                    the fitted start is in the dict once with its own score; keep_best ends on an entry attaining the minimum.
                    Feasible candidates that are invalid half-way through the sequential set_params (known finding
                    C10-joint-grid-sequential-validation) are not demanded (none occurs in the fixed list); an EXTRA model is always judged.

Oracle (real code only): the property text, see `_oracle_*`.
"""
import ast
import contextlib
import inspect
import io
import itertools
import json
import math
import os
import struct
from fractions import Fraction

import numpy as np

from harness import common

PLURALS = ['feature', 'dtype', 'fit_linear', 'fit_splines', 'lam', 'n_splines', 'spline_order', 'constraints',
           'penalties', 'basis', 'edge_knots_']
OBJ_NAMES = ['AIC', 'AICc', 'GCV', 'UBRE']
KNOWN_SCALE = {'LinearGAM': False, 'LinearGAM-known': True, 'PoissonGAM': True, 'LogisticGAM': True, 'GammaGAM': False,
               'Scripted': False, 'Scripted-known': True}
SCORE_RTOL = 1e-6          # warm-started vs cold fit, both converged with tol 1e-8
COEF_RTOL = 1e-5           # coefficients (relative 2-norm); directions aliased with the intercept carry noise up to 1e-7
FAIL_MARGIN = 10.0


def score_rtol(tol, in_search_converged):
    """A candidate that did NOT converge inside the search can only be `max_iter iterations from the cold initial
    estimate`, the very computation of the independent fit (bit-identical on the unchanged tree): flat tolerance.  Two
    converged fits stopped within `tol` of the optimum by different routes: the tolerance follows `tol` (1e-6 at the 1e-8 of
    the older streams; calibrated: observed <= 0.03 tol)."""
    return max(SCORE_RTOL, tol) if in_search_converged else SCORE_RTOL


def coef_rtol(tol, in_search_converged):
    """same for the coefficients (calibrated: observed <= 6 tol, noise <= 1e-7)"""
    return max(COEF_RTOL, 10.0 * tol) if in_search_converged else COEF_RTOL


# known findings on the unchanged tree: tag head -> (id used as selector {'known': id}, minimal reproduction, expectation)
KNOWN = {
    'fit_intercept grid is ignored': (
        'C10-fit-intercept-grid-ignored',
        "g = LinearGAM(l(0)); r = g.gridsearch(X, y, return_scores=True, keep_best=False, progress=False, fit_intercept=[True, False]); "
        "the model with fit_intercept=False has 2 coefficients and the score of the fit_intercept=True model; "
        "LinearGAM(l(0), fit_intercept=False).fit(X, y) has 1 coefficient and another score",
        "each candidate's score equals the objective of an independently fitted model with those hyper-parameters"),
    'joint n_splines/spline_order grid': (
        'C10-joint-grid-sequential-validation',
        "LinearGAM(s(0, n_splines=6, spline_order=3)).gridsearch(X, y, return_scores=True, progress=False, n_splines=[3, 6], "
        "spline_order=[1, 3]) fits (6,1), (6,3) only; with the keywords in the other order (3,1) is fitted too; "
        "LinearGAM(s(0, n_splines=3, spline_order=1)).fit(X, y) works",
        'gridsearch fits exactly the Cartesian product of the per-parameter grids'),
    'plural setter': (
        'C10-plural-setter-attributeerror',
        "LinearGAM(s(0) + l(1)).gridsearch(X, y, n_splines=[5, 7]) raises AttributeError: 'LinearTerm' object has no attribute 'n_splines'",
        'gridsearch fits the requested candidates (or skips / rejects them with ValueError)'),
    'warm start converges': (
        'C10-warm-start-converges-cold-does-not',
        "rs = np.random.RandomState(0); X = rs.rand(200, 2); eta = 2*np.sin(3*X[:,0]) + 4*(X[:,1]-.5)**2 - 1; "
        "y = (rs.rand(200) < 1/(1+np.exp(-eta))).astype(float); "
        "mk = lambda lam: LogisticGAM(s(0, n_splines=8) + s(1, n_splines=8), lam=lam, max_iter=2, tol=1e-2); "
        "mk(0.6).gridsearch(X, y, lam=[1.0, 1.0, 1.0], return_scores=True, progress=False) scores the three identical candidates "
        "1.28289, 1.27866, 1.27865; mk(1.0).fit(X, y).statistics_['UBRE'] = 1.28289 (prints `did not converge`)",
        "each candidate's score equals the objective of an independently fitted model with those hyper-parameters (incl. max_iter, tol)"),
}


# ------------------------------------------------------------------------------------------------
# exact values
# ------------------------------------------------------------------------------------------------
def _q(v):
    if isinstance(v, (bool, np.bool_)):
        return Fraction(int(v))
    if isinstance(v, (int, np.integer)):
        return Fraction(int(v))
    return common.f2q(float(v))


def _flat(v):
    """independent flatten of nested lists / tuples / arrays"""
    if isinstance(v, np.ndarray):
        v = v.tolist()
    if isinstance(v, (list, tuple)):
        out = []
        for e in v:
            out += _flat(e)
        return out
    return [v]


def _bits(x):
    return common.f2bits(float(x))


# ------------------------------------------------------------------------------------------------
# grid descriptions  ->  python objects / driver tokens / oracle expectation
# ------------------------------------------------------------------------------------------------
# a grid description is a dict:
#   {'kind': '1d',     'values': [...],           'container': 'list'|'tuple'|'array'}
#   {'kind': '2d',     'rows': [[...], ...]}                                   (np.ndarray, ndim 2)
#   {'kind': 'nested', 'subs': [scalar | [...], ...], 'container': 'list'|'tuple'|'arrays'|'tuples'}
#   {'kind': 'scalar', 'value': v}   {'kind': 'string', 'value': 'ab'}        (not iterable: rejected)
def grid_object(d, integer=False):
    k = d['kind']
    dt = int if integer else float
    if k == '1d':
        vals = [dt(v) if not isinstance(v, bool) else v for v in d['values']]
        c = d.get('container', 'list')
        if c == 'tuple':
            return tuple(vals)
        if c == 'array':
            return np.array(vals)
        return list(vals)
    if k == '2d':
        return np.array([[dt(v) for v in r] for r in d['rows']])
    if k == 'nested':
        c = d.get('container', 'list')
        subs = []
        for s in d['subs']:
            if isinstance(s, list):
                s2 = [dt(v) for v in s]
                if c == 'arrays':
                    s2 = np.array(s2)
                elif c == 'tuples':
                    s2 = tuple(s2)
                subs.append(s2)
            else:
                subs.append(dt(s))
        return tuple(subs) if c == 'tuple' else subs
    if k in ('scalar', 'string'):
        return d['value']
    raise AssertionError(k)


def _entry_tok(e):
    if isinstance(e, list):
        return 'v:' + ','.join(common.q2s(_q(v)) for v in e)
    return 's:' + common.q2s(_q(e))


def grid_tokens(name, target_len, d):
    """`<name> <targetLen> <nd2> <k> <entry>*k` for the driver"""
    k = d['kind']
    if k == '1d':
        es = [_entry_tok(v) for v in d['values']]
        nd2 = '0'
    elif k == '2d':
        es = [_entry_tok(list(r)) for r in d['rows']]
        nd2 = '1'
    elif k == 'nested':
        es = [_entry_tok(s) for s in d['subs']]
        nd2 = '0'
    else:
        return '%s %d x 0' % (name, target_len)
    return '%s %d %s %d %s' % (name, target_len, nd2, len(es), ' '.join(es))


def parse_entry(tok, target_len):
    """driver candidate value -> tuple of Fractions over the slots of the parameter"""
    if tok.startswith('s:'):
        return tuple([Fraction(tok[2:])] * target_len)
    assert tok.startswith('v:'), tok
    body = tok[2:]
    return tuple(Fraction(t) for t in body.split(',')) if body else tuple()


def oracle_grid_values(d, T):
    """the property text: list of per-slot value tuples requested for one parameter, or None when the grid is not
    one of the three documented shapes (then nothing is claimed)"""
    k = d['kind']
    if k == '1d':
        if len(d['values']) < 2:
            return None
        return [tuple([_q(v)] * T) for v in d['values']]
    if k == '2d':
        if len(d['rows']) < 2 or any(len(r) != T for r in d['rows']):
            return None
        return [tuple(_q(v) for v in r) for r in d['rows']]
    if k == 'nested':
        subs = [s if isinstance(s, list) else [s] for s in d['subs']]
        if len(subs) != T or len(subs) < 2 or not any(isinstance(s, list) for s in d['subs']):
            return None
        return [tuple(_q(v) for v in c) for c in itertools.product(*subs)]
    return None


# ------------------------------------------------------------------------------------------------
# model specifications
# ------------------------------------------------------------------------------------------------
def slots_of(terms, param):
    n = 0
    for t in terms:
        if param == 'lam':
            n += 2 if t['kind'] == 'te' else 1
        elif param in ('n_splines', 'spline_order'):
            if t['kind'] == 's':
                n += 1
            elif t['kind'] == 'te':
                n += 2
            else:
                return None      # plural setter of pyGAM cannot handle it (see suspected defect)
    return n


def build_terms(pygam, terms, over=None):
    """fresh term objects; `over[param]` = list of per-slot values replacing the ones of the spec"""
    over = {k: list(v) for k, v in (over or {}).items()}

    def take(param, default, n):
        if param in over:
            vals = [over[param].pop(0) for _ in range(n)]
        else:
            vals = list(default) if isinstance(default, list) else [default]
        return vals
    out = None
    for t in terms:
        if t['kind'] == 's':
            lam = take('lam', t['lam'], 1)[0]
            ns = take('n_splines', t['n_splines'], 1)[0]
            so = take('spline_order', t['spline_order'], 1)[0]
            term = pygam.s(t['feature'], n_splines=int(ns), spline_order=int(so), lam=float(lam))
        elif t['kind'] == 'te':
            lam = take('lam', t['lam'], 2)
            ns = take('n_splines', t['n_splines'], 2)
            so = take('spline_order', t['spline_order'], 2)
            term = pygam.te(*t['features'], n_splines=[int(v) for v in ns], spline_order=[int(v) for v in so],
                            lam=[float(v) for v in lam])
        elif t['kind'] == 'l':
            lam = take('lam', t['lam'], 1)[0]
            term = pygam.l(t['feature'], lam=float(lam))
        elif t['kind'] == 'f':
            lam = take('lam', t['lam'], 1)[0]
            term = pygam.f(t['feature'], lam=float(lam))
        out = term if out is None else out + term
    return out


SCALARS = ('max_iter', 'fit_intercept', 'tol')


def build_model(pygam, spec, over=None, scripted_cls=None):
    over = dict(over or {})
    kw = dict(tol=spec.get('tol', 1e-8), max_iter=spec.get('max_iter', 200), fit_intercept=spec.get('fit_intercept', True))
    for p in SCALARS:
        if p in over:
            v = over.pop(p)[0]
            kw[p] = bool(v) if p == 'fit_intercept' else (float(v) if p == 'tol' else int(v))
    terms = build_terms(pygam, spec['terms'], over)
    cls = spec['cls']
    if cls == 'LinearGAM':
        return pygam.LinearGAM(terms, **kw)
    if cls == 'LinearGAM-known':
        return pygam.LinearGAM(terms, scale=spec['scale'], **kw)
    if cls == 'PoissonGAM':
        return pygam.PoissonGAM(terms, **kw)
    if cls == 'LogisticGAM':
        return pygam.LogisticGAM(terms, **kw)
    if cls == 'GammaGAM':
        return pygam.GammaGAM(terms, **kw)
    if cls == 'Scripted':
        return scripted_cls(terms, **kw)
    if cls == 'Scripted-known':
        return scripted_cls(terms, scale=spec['scale'], **kw)
    raise AssertionError(cls)


# sample weights handed to gridsearch (stream search.weights); the first five contain exact zeros
WEIGHT_PATTERNS = ['zeros-random', 'zeros-counts', 'zeros-range', 'zeros-most', 'zeros-one', 'tiny', 'scaled-up', 'scaled-down',
                   'ones', 'fractional', 'heavy']


def weight_pattern(kind, rs, X):
    n = X.shape[0]
    w = rs.uniform(0.5, 2.0, n)
    if kind == 'zeros-random':          # masked observations
        w[rs.rand(n) < 0.25] = 0.0
    elif kind == 'zeros-counts':        # frequency weights, some rows observed 0 times
        w = rs.randint(0, 3, n).astype(float)
    elif kind == 'zeros-range':         # a whole range of a feature masked out (the range of the rows that count is smaller)
        w[X[:, 0] > 0.7] = 0.0
        w[X[:, 1] < 0.1] = 0.0
    elif kind == 'zeros-most':
        w[rs.rand(n) < 0.55] = 0.0
    elif kind == 'zeros-one':           # one masked observation
        w[rs.randint(n)] = 0.0
    elif kind == 'tiny':                # positive, but far below the others
        w[rs.rand(n) < 0.25] = 1e-6
    elif kind == 'scaled-up':
        w = w * 1000.0
    elif kind == 'scaled-down':
        w = w * 1e-3
    elif kind == 'ones':
        w = np.ones(n)
    elif kind == 'fractional':
        w = rs.uniform(0.2, 3.0, n)
    elif kind == 'heavy':
        w = np.ones(n)
        w[rs.choice(n, 3, replace=False)] = 50.0
    else:
        raise AssertionError(kind)
    return w


def make_data(spec):
    if spec.get('data_kind') == 'warm-start-repro':
        # the fixed reproduction of the known finding C10-warm-start-converges-cold-does-not (see KNOWN)
        rs = np.random.RandomState(0)
        X = rs.rand(200, 2)
        eta = 2 * np.sin(3 * X[:, 0]) + 4 * (X[:, 1] - .5) ** 2 - 1
        y = (rs.rand(200) < 1 / (1 + np.exp(-eta))).astype(float)
        return X, y, None, None
    rs = np.random.RandomState(spec['data_seed'])
    n, d = spec['n'], spec['d']
    X = rs.rand(n, d)
    for t in spec['terms']:
        if t['kind'] == 'f':
            X[:, t['feature']] = rs.randint(0, 3, n)
    eta = 0.8 * np.sin(3.0 * X[:, 0]) + 2.0 * (X[:, 1] - 0.5) ** 2
    cls = spec['cls']
    if cls.startswith('LinearGAM') or cls.startswith('Scripted'):
        y = eta + 0.2 * rs.randn(n)
    elif cls == 'PoissonGAM':
        y = rs.poisson(np.exp(1.0 + eta)).astype(float)
    elif cls == 'LogisticGAM':
        y = (rs.rand(n) < 1.0 / (1.0 + np.exp(-1.2 * eta + 0.2))).astype(float)
    elif cls == 'GammaGAM':
        y = np.exp(eta) * rs.gamma(5.0, 0.2, n) + 0.05
    w = None
    if isinstance(spec.get('weights'), str):
        w = weight_pattern(spec['weights'], np.random.RandomState(spec['data_seed'] + 104729), X)      # own stream of draws
    elif spec.get('weights'):
        w = rs.randint(1, 4, n).astype(float)
    e = None
    if spec.get('exposure'):
        e = rs.randint(1, 4, n).astype(float)
        y = y * e if cls == 'PoissonGAM' else y
        if cls == 'PoissonGAM':
            y = np.round(y)
    return X, y, w, e


def read_key(m, params, slots):
    """hyper-parameters of a model read back through public attributes, as exact per-slot tuples"""
    key = []
    for p in params:
        v = _flat(getattr(m, p))
        key.append(tuple(_q(x) for x in v))
    return tuple(key)


def key_json(key):
    return [[common.q2s(x) for x in part] for part in key]


def key_from_json(j):
    return tuple(tuple(Fraction(x) for x in part) for part in j)


def admissible(m):
    return sorted(m.get_params().keys()) + PLURALS


def fit_kwargs(spec, w, e):
    kw = {}
    if w is not None:
        kw['weights'] = w
    if spec['cls'] == 'PoissonGAM' and e is not None:
        kw['exposure'] = e
    return kw


@contextlib.contextmanager
def quiet():
    """silence the progress bar (it holds its own reference to stderr) and pyGAM's `did not converge` prints"""
    import sys
    sys.stderr.flush()
    saved = os.dup(2)
    dn = os.open(os.devnull, os.O_WRONLY)
    os.dup2(dn, 2)
    try:
        with contextlib.redirect_stdout(io.StringIO()):
            yield
    finally:
        sys.stderr.flush()
        os.dup2(saved, 2)
        os.close(saved)
        os.close(dn)


def call_gridsearch(spec, gam, X, y, w, e, return_scores, grids_kw):
    kw = dict(return_scores=return_scores, keep_best=spec['keep_best'])
    if spec['objective'] is not None:
        kw['objective'] = spec['objective']
    kw.update(fit_kwargs(spec, w, e))
    if spec['cls'] != 'PoissonGAM':
        kw['progress'] = False      # PoissonGAM.gridsearch has no `progress` keyword
    kw.update(grids_kw)
    with quiet():
        return gam.gridsearch(X, y, **kw)


def grids_kwargs(spec):
    kw = {}
    for g in spec['grids']:
        kw[g['param']] = grid_object(g['desc'], integer=g['param'] in ('n_splines', 'spline_order', 'max_iter'))
        if g['param'] == 'fit_intercept' and g['desc']['kind'] == '1d':
            kw[g['param']] = [bool(v) for v in g['desc']['values']]
    return kw


def spec_slots(spec):
    s = {}
    for g in spec['grids']:
        p = g['param']
        if p in ('lam', 'n_splines', 'spline_order'):
            s[p] = slots_of(spec['terms'], p)
        else:
            s[p] = 1
    if not spec['grids']:
        s['lam'] = slots_of(spec['terms'], 'lam')
    return s


def oracle_candidates(spec):
    """the property text: the list of requested candidates (tuple over parameters of per-slot tuples) or None"""
    slots = spec_slots(spec)
    if not spec['grids']:
        return ['lam'], [(tuple([_q(v)] * slots['lam']),) for v in np.logspace(-3, 3, 11)]
    per = []
    for g in spec['grids']:
        if slots[g['param']] is None:
            return [g['param'] for g in spec['grids']], None
        vals = oracle_grid_values(g['desc'], slots[g['param']])
        if vals is None:
            return [g['param'] for g in spec['grids']], None
        per.append(vals)
    return [g['param'] for g in spec['grids']], [tuple(c) for c in itertools.product(*per)]


def stats_of(m):
    st = getattr(m, 'statistics_', None) or {}
    return {k: float(st[k]) for k in OBJ_NAMES if k in st and st[k] is not None}


STAT_KEYS = ('n_samples', 'edof', 'deviance', 'scale')


def scalar_stats(m):
    """n_samples, edof, deviance, scale of a fitted model (what is there and is a number)"""
    st = getattr(m, 'statistics_', None) or {}
    out = {}
    for k in STAT_KEYS:
        try:
            if k in st and st[k] is not None and np.ndim(st[k]) == 0:
                out[k] = float(st[k])
        except Exception:      # noqa
            pass
    return out


def compare_stats(got, want, thr):
    """statistics of a model fitted inside the search against those of the independent fit: n_samples exactly, the others
    relative to their own size; -> None or a description of the first difference"""
    for k in STAT_KEYS:
        if k not in want or not np.isfinite(want[k]):
            continue
        g = got.get(k)
        if g is None or g != g:
            return dict(statistic=k, in_search=g, independent=want[k])
        if k == 'n_samples':
            if g != want[k]:
                return dict(statistic=k, in_search=g, independent=want[k])
            continue
        rel = abs(g - want[k]) / max(abs(want[k]), 1e-300)
        if rel > thr:
            return dict(statistic=k, in_search=g, independent=want[k], rel=rel, thr=thr)
    return None


def same_stats(a, b):
    """equality of two statistics dicts; nan (e.g. the AIC of a family whose likelihood is not defined for a zero weight) equals nan"""
    return sorted(a) == sorted(b) and all(a[k] == b[k] or (a[k] != a[k] and b[k] != b[k]) for k in a)


def converged(m):
    try:
        d = m.logs_['diffs']
        return len(d) > 0 and float(d[-1]) < m.tol
    except Exception:
        return False


SEARCH_DATA_KINDS = ['subrange', 'shifted', 'fewer-levels', 'new']


def make_search_data(spec, X, y, w, e):
    """the data the search runs on: the training data (older streams) or OTHER data -- a sub-range of the training rows, new rows
    over a shifted / wider range, rows with fewer factor levels, a fresh sample of another size"""
    kind = spec.get('search_data')
    if not kind:
        return X, y, w, e
    if kind in ('subrange', 'fewer-levels'):
        if kind == 'subrange':
            mask = (X[:, 0] > 0.2) & (X[:, 0] < 0.8) & (X[:, 1] > 0.1) & (X[:, 1] < 0.9)
        else:
            mask = (X[:, 2] != 2) if X.shape[1] > 2 else (X[:, 0] < 0.7)
        if mask.sum() < 40:          # keep enough rows for the independent fits
            mask = np.zeros(len(y), dtype=bool)
            mask[np.argsort(np.abs(X[:, 0] - 0.5))[:max(40, len(y) // 2)]] = True
        return X[mask], y[mask], (w[mask] if w is not None else None), (e[mask] if e is not None else None)
    X2, y2, w2, e2 = make_data(dict(spec, data_seed=spec['data_seed'] + 7919, n=spec.get('search_n', spec['n']), search_data=None))
    if kind == 'shifted':
        X2 = X2.copy()
        X2[:, :2] = 0.3 + 1.2 * X2[:, :2]
    return X2, y2, w2, e2


def observe_fitted(gam, Q):
    """what a fitted model IS to its user, at fixed query rows: predictions, partial dependence of every term, compiled term state
    (edge knots, number of basis functions) -- all as exact bit patterns; a raising call is part of the observation"""
    obs = {}
    try:
        obs['predict_mu'] = [_bits(v) for v in np.asarray(gam.predict_mu(Q), dtype=float).ravel()]
    except Exception as ex:      # noqa
        obs['predict_mu'] = 'raises ' + type(ex).__name__
    try:
        terms = list(gam.terms)
    except Exception as ex:      # noqa
        terms = []
        obs['terms'] = 'raises ' + type(ex).__name__
    for i, t in enumerate(terms):
        try:
            ek = [_bits(v) for v in _flat(getattr(t, 'edge_knots_', []))]
            ns = [int(v) for v in _flat(getattr(t, 'n_splines', [])) if v is not None]
            obs['term %d state' % i] = dict(edge_knots_=ek, n_splines=ns, n_coefs=int(t.n_coefs))
        except Exception as ex:      # noqa
            obs['term %d state' % i] = 'raises ' + type(ex).__name__
        if getattr(t, 'isintercept', False):
            continue
        try:
            obs['term %d partial_dependence' % i] = [_bits(v) for v in np.asarray(gam.partial_dependence(term=i, X=Q), dtype=float).ravel()]
        except Exception as ex:      # noqa
            obs['term %d partial_dependence' % i] = 'raises ' + type(ex).__name__
    try:
        obs['coef_'] = [_bits(v) for v in np.asarray(gam.coef_, dtype=float).ravel()]
    except Exception as ex:      # noqa
        obs['coef_'] = 'raises ' + type(ex).__name__
    try:
        st = gam.statistics_
        obs['statistics_'] = {k: _bits(st[k]) for k in ('edof', 'scale', 'AIC', 'AICc', 'GCV', 'UBRE', 'loglikelihood', 'deviance')
                              if k in st and st[k] is not None and np.ndim(st[k]) == 0}
    except Exception as ex:      # noqa
        obs['statistics_'] = 'raises ' + type(ex).__name__
    return obs


def coef_of(m):
    """coefficients of a model as a float vector, or None (a broken library must not crash the harness)"""
    try:
        a = np.asarray(m.coef_, dtype=float).ravel()
    except Exception:      # noqa
        return None
    return a


def cold_entry_finite(score, coef):
    return bool(np.isfinite(score)) and coef is not None and bool(np.isfinite(coef).all())


def compare_with_cold(score, m, c):
    """one candidate fitted inside a search (model `m`, recorded `score`) against the independent cold fit `c` with the same
    hyper-parameters (same max_iter / tol): score and coefficients, whether or not either of them converged"""
    ci = converged(m)
    both = ci and bool(c['conv'])      # only two converged fits may differ by their routes (tolerance follows tol)
    thr_s = score_rtol(c['tol'], both) * FAIL_MARGIN
    thr_c = coef_rtol(c['tol'], both) * FAIL_MARGIN
    try:
        score = float(score)
    except Exception:      # noqa
        score = float('nan')
    err_s = 0.0 if score == c['score'] else abs(score - c['score']) / c['ref']
    a = coef_of(m)
    if a is None or len(a) != len(c['coef']):
        err_c = float('inf')
    elif np.array_equal(a, c['coef']):
        err_c = 0.0
    else:
        err_c = float(np.linalg.norm(a - c['coef']) / max(float(np.linalg.norm(c['coef'])), 1e-300))
    return dict(ci=ci, cc=bool(c['conv']), err_s=err_s, err_c=err_c, thr_s=thr_s, thr_c=thr_c,
                ok_s=bool(err_s <= thr_s), ok_c=bool(err_c <= thr_c), ok=bool(err_s <= thr_s) and bool(err_c <= thr_c))


def reversed_grids(grids):
    """the same grids with every axis reversed: gridsearch then meets the same candidates in the reverse order"""
    out = []
    for g in grids:
        d = dict(g['desc'])
        if d['kind'] == '1d':
            d['values'] = list(d['values'])[::-1]
        elif d['kind'] == '2d':
            d['rows'] = [list(r) for r in d['rows']][::-1]
        elif d['kind'] == 'nested':
            d['subs'] = [list(x)[::-1] if isinstance(x, list) else x for x in d['subs']]
        out.append(dict(param=g['param'], desc=d))
    return out


# ------------------------------------------------------------------------------------------------
# real-fit worker (runs in a pool): implementation run + property oracle with independent cold fits
# ------------------------------------------------------------------------------------------------
def run_real_case(spec):
    pygam = common.import_pygam()
    X, y, w, e = make_data(spec)
    Xs, ys, ws, es = make_search_data(spec, X, y, w, e)       # the search may run on other data than the fit before it
    Q = np.vstack([X[:30], Xs[:30]])                          # fixed query rows
    res = dict(exc=None, oracle=[], notes={}, suspected=[], warm_only=[])
    params, want = oracle_candidates(spec)
    slots = spec_slots(spec)
    known = KNOWN_SCALE[spec['cls']]
    obj = spec['objective'] if spec['objective'] is not None else 'auto'
    if obj == 'auto':
        robj = 'UBRE' if known else 'GCV'
    elif obj in OBJ_NAMES and not (obj == 'GCV' and known) and not (obj == 'UBRE' and not known):
        robj = obj
    else:
        robj = None      # the property only says: the mismatching choice is rejected
    res['want_obj'] = robj

    def fresh(fitted):
        g = build_model(pygam, spec)
        if fitted:
            with contextlib.redirect_stdout(io.StringIO()):
                g.fit(X, y, **fit_kwargs(spec, w, e))
        return g

    try:
        gam = fresh(spec['fitted'])
    except ValueError as ex:
        # the fit *before* the search does not exist on these data (PIRLS diverged): not a case of this property
        return dict(degenerate=type(ex).__name__)
    res['adm'] = admissible(gam)
    pre = None
    if spec['fitted']:
        pre = dict(key=key_json(read_key(gam, params, slots)), stats=stats_of(gam), coef=[_bits(c) for c in gam.coef_],
                   pred=[_bits(v) for v in gam.predict_mu(X)], obs=observe_fitted(gam, Q))
    res['pre'] = pre
    gk = grids_kwargs(spec)
    try:
        out = call_gridsearch(spec, gam, Xs, ys, ws, es, True, gk)
    except Exception as ex:      # noqa
        res['exc'] = type(ex).__name__
        res['msg'] = str(ex)[:200]
        if robj is None and res['exc'] != 'ValueError':
            res['oracle'].append(dict(kind='mismatching objective not rejected with ValueError', got=res['exc']))
        if robj is not None and want is not None:
            res['oracle'].append(dict(kind='valid request raised', got=res['exc'], msg=res['msg']))
        return res
    if robj is None:
        res['oracle'].append(dict(kind='mismatching objective not rejected', objective=obj, known=known))
    # ---- observation -------------------------------------------------------------------------
    if out is gam:
        res['returned'] = 'self'
        items = []
    else:
        res['returned'] = 'scores'
        items = list(out.items())
    models = []
    for (m, sc) in items:
        is_self = m is gam
        if is_self and pre is not None:
            key = pre['key']
            st = pre['stats']
        else:
            key = key_json(read_key(m, params, slots))
            st = stats_of(m)
        models.append(dict(key=key, score=float(sc), is_self=is_self, stats=st))
    res['models'] = models
    fitted_after = hasattr(gam, 'coef_')
    res['fitted_after'] = fitted_after
    res['self_key'] = key_json(read_key(gam, params, slots))
    res['self_stats'] = stats_of(gam)
    # which returned model does self now coincide with?
    best_idx = None
    if fitted_after and items:
        ident = [i for i, (m, _) in enumerate(items) if m is not gam and m.coef_ is gam.coef_]
        if ident:
            best_idx = ident[0]
        elif spec['fitted'] and pre is not None and [_bits(c) for c in gam.coef_] == pre['coef'] \
                and res['self_key'] == pre['key']:
            best_idx = [i for i, (m, _) in enumerate(items) if m is gam][0]
        else:
            eq = [i for i, (m, _) in enumerate(items) if m is not gam and np.array_equal(m.coef_, gam.coef_)
                  and key_json(read_key(m, params, slots)) == res['self_key']]
            best_idx = eq[0] if eq else None
    res['best_idx'] = best_idx

    # ---- oracle (property text on the real code) ----------------------------------------------------
    orc = res['oracle']
    fkw = fit_kwargs(spec, ws, es)       # independent fits: on the data of the search
    if robj is not None:
        # scores are the resolved objective of each returned model
        for md in models:
            if robj in md['stats'] and md['stats'][robj] != md['score'] and not (math.isnan(md['score']) and math.isnan(md['stats'][robj])):
                orc.append(dict(kind='score is not statistics_[objective] of its model', objective=robj, model=md))
                break
    if want is not None and robj is not None:
        cold = []
        for cand in want:
            over = {p: [float(v) if p in ('lam', 'tol') else int(v) for v in part] for p, part in zip(params, cand)}
            try:
                c = build_model(pygam, spec, over)
                with contextlib.redirect_stdout(io.StringIO()):
                    c.fit(Xs, ys, **fkw)
                # AIC / AICc = -2 loglik + 2 edof (+ ...): errors are measured against the size of the ingredients
                # (the in-search fit passes explicit float32 unit weights, which perturbs loglik of a known-scale
                # LinearGAM at 1e-7 relative; cancellation would otherwise inflate that)
                ref = abs(float(c.statistics_[robj]))
                if robj in ('AIC', 'AICc'):
                    ref = max(ref, 2.0 * abs(float(c.statistics_['loglikelihood'])) + 2.0 * float(c.statistics_['edof']))
                entry = dict(key=key_json(cand), score=float(c.statistics_[robj]), conv=converged(c), ref=max(ref, 1e-3) if ref == ref else 1.0,
                             ncoef=len(c.coef_), coef=np.array(c.coef_, dtype=float).ravel(), tol=float(c.tol),
                             pred=c.predict_mu(Xs) if spec['keep_best'] else None, stats=scalar_stats(c))
                # an independent fit that ends with nan / inf (PIRLS diverged without raising) defines no reference
                entry['nonfinite'] = not cold_entry_finite(entry['score'], entry['coef'])
                if 'fit_intercept' in over and not over['fit_intercept'][0]:
                    # reference for the suspected defect "a fit_intercept grid is ignored": the same candidate with an intercept
                    over2 = dict(over, fit_intercept=[1])
                    c2 = build_model(pygam, spec, over2)
                    with contextlib.redirect_stdout(io.StringIO()):
                        c2.fit(Xs, ys, **fkw)
                    entry['alt'] = dict(score=float(c2.statistics_[robj]), conv=converged(c2), ncoef=len(c2.coef_),
                                        coef=np.array(c2.coef_, dtype=float).ravel(), tol=float(c2.tol), ref=entry['ref'],
                                        pred=c2.predict_mu(Xs) if spec['keep_best'] else None)
                    entry['alt']['nonfinite'] = not cold_entry_finite(entry['alt']['score'], entry['alt']['coef'])
                cold.append(entry)
            except ValueError as ex:
                cold.append(dict(key=key_json(cand), score=None, unstable=type(ex).__name__ in ('OptimizationError', 'NotPositiveDefiniteError')))
        res['n_cold_skipped'] = sum(1 for c in cold if c['score'] is None)
        cand_models = [md for md in models if not md['is_self']]

        def seq_invalid(cand):
            """valid candidate that is invalid half-way when its parameters are set one after the other in keyword order"""
            ns = [v for t in spec['terms'] if t['kind'] in ('s', 'te') for v in _flat(t['n_splines'])]
            so = [v for t in spec['terms'] if t['kind'] in ('s', 'te') for v in _flat(t['spline_order'])]
            for p, part in zip(params, cand):
                if p == 'n_splines':
                    ns = [int(v) for v in part]
                elif p == 'spline_order':
                    so = [int(v) for v in part]
                else:
                    continue
                if len(ns) == len(so) and any(a <= b for a, b in zip(ns, so)):
                    return True
            return False
        # candidates on which PIRLS diverges from a cold start are numerically undecidable (a warm start may or may not
        # get through): they are taken out of both sides
        unstable = set(json.dumps(c['key']) for c in cold if c.get('unstable'))
        if unstable:
            res['notes']['unstable candidates'] = len(unstable)
            cand_models = [md for md in cand_models if json.dumps(md['key']) not in unstable]
        wk_all = sorted(json.dumps(c['key']) for c in cold if c['score'] is not None)
        gotkeys = sorted(json.dumps(md['key']) for md in cand_models)
        wantkeys = wk_all
        if gotkeys != wk_all and not [k for k in gotkeys if k not in wk_all]:
            # Valid candidates are missing.  One mechanism is a recorded known finding and is recognised *exactly*; anything
            # else (e.g. a candidate lost to its warm start, repaired in /repo 3531369 + b32bdf3) stays a failing input.
            #  (b) joint n_splines / spline_order grids: the parameters are set one after the other, a valid pair that is
            #      invalid half-way raises ValueError and is skipped
            left = list(gotkeys)
            reduced = []
            n_b = 0
            for cnd, cand in zip(cold, want):
                if cnd['score'] is None:
                    continue
                k = json.dumps(cnd['key'])
                if k in left:
                    left.remove(k)
                    reduced.append(k)
                elif seq_invalid(cand):
                    n_b += 1
                else:
                    reduced.append(k)
            if sorted(reduced) == gotkeys and n_b:
                wantkeys = sorted(reduced)
                res['suspected'].append('joint n_splines/spline_order grid: valid candidates skipped because the parameters are set one '
                                        'after the other (%d of %d)' % (n_b, len(wk_all)))
        pool = {}
        for c in cold:
            if c['score'] is not None:
                pool.setdefault(json.dumps(c['key']), []).append(c)

        def judge_candidates(pairs, where):
            """each candidate's score (and coefficients) equals that of an independently fitted model with those
            hyper-parameters -- same max_iter / tol, cold start --, converged or not; `pairs` = [(model, recorded score, key)]"""
            worst = 0.0
            ncmp = 0
            for m, sc, key in pairs:
                if json.dumps(key) not in pool:
                    continue
                c = pool[json.dumps(key)][0]
                a = coef_of(m)
                na = len(a) if a is not None else -1
                if 'alt' in c and na != c['ncoef'] and na == c['alt']['ncoef']:
                    # the fit_intercept=False candidate carries an intercept coefficient: known finding (a)
                    if not any(t.startswith('fit_intercept') for t in res['suspected']):
                        res['suspected'].append('fit_intercept grid is ignored: the candidate with fit_intercept=False is fitted with an intercept '
                                                '(%d coefficients, an independent fit has %d)' % (na, c['ncoef']))
                # the candidate was fitted on the data handed to gridsearch: as many samples as the independent fit counts
                ns_m, ns_c = scalar_stats(m).get('n_samples'), c['stats'].get('n_samples')
                if ns_c is not None and ns_m != ns_c:
                    orc.append(dict(kind='candidate was fitted on another number of samples than an independent fit on the same (X, y, weights)',
                                    key=key, in_search=ns_m, independent=ns_c, rows_given=int(len(ys)), weights=spec.get('weights'), grid_order=where))
                    break
                res['n_nsamples_compared'] = res.get('n_nsamples_compared', 0) + 1
                if c.get('nonfinite'):
                    res['notes']['independent fit not finite'] = res['notes'].get('independent fit not finite', 0) + 1
                    continue
                cm = compare_with_cold(sc, m, c)
                ncmp += 1
                if weighted_stream and cm['ok'] and 'alt' not in c:
                    d = compare_stats(scalar_stats(m), c['stats'], cm['thr_c'])
                    if d is not None:
                        orc.append(dict(d, kind='candidate statistics differ from an independent cold fit on the same (X, y, weights)', key=key,
                                        weights=spec.get('weights'), grid_order=where))
                        break
                if 'alt' not in c and cm['err_s'] == cm['err_s'] and cm['err_s'] != float('inf'):
                    worst = max(worst, cm['err_s'])
                res['cmp_classes'][(cm['ci'], cm['cc'])] = res['cmp_classes'].get((cm['ci'], cm['cc']), 0) + 1
                if cm['ok']:
                    continue
                if 'alt' in c and not c['alt'].get('nonfinite') and compare_with_cold(sc, m, c['alt'])['ok']:
                    if not any(t.startswith('fit_intercept') for t in res['suspected']):
                        res['suspected'].append('fit_intercept grid is ignored: the candidate with fit_intercept=False is fitted with an intercept')
                    continue
                info = dict(key=key, in_search=float(sc) if isinstance(sc, (int, float, np.floating)) else str(sc), cold=c['score'],
                            rel=cm['err_s'], coef_rel=cm['err_c'], in_search_converged=cm['ci'], cold_converged=cm['cc'],
                            tol=c['tol'], grid_order=where)
                if cm['ci'] and not cm['cc']:
                    # unchanged tree: a warm-started candidate that converges within max_iter is kept, although an independent
                    # fit (cold start, same max_iter / tol) does not get there: known finding, recognised by exactly this pattern
                    res['warm_only'].append(info)
                    if not any(t.startswith('warm start converges') for t in res['suspected']):
                        res['suspected'].append('warm start converges: the candidate %s converged within max_iter from the previous '
                                                "candidate's coefficients, the independent cold fit with the same max_iter / tol did not; "
                                                'score %r vs %r (rel %.3g), coefficients rel %.3g, grid %s'
                                                % (json.dumps(key), info['in_search'], c['score'], cm['err_s'], cm['err_c'], where))
                    continue
                orc.append(dict(info, kind='candidate score differs from an independent cold fit' if not cm['ok_s']
                                else 'candidate coefficients differ from an independent cold fit'))
                break
            return worst, ncmp

        res['cmp_classes'] = {}
        weighted_stream = isinstance(spec.get('weights'), str)
        if res['returned'] == 'self' and wantkeys:
            orc.append(dict(kind='return_scores=True returned self although candidates can be fitted'))
        elif wantkeys != gotkeys:
            orc.append(dict(kind='fitted candidates are not the Cartesian product of the grids',
                            missing=[k for k in wantkeys if k not in gotkeys][:5],
                            unexpected=[k for k in gotkeys if k not in wantkeys][:5], n_want=len(wantkeys), n_got=len(gotkeys)))
        else:
            worst, ncmp = judge_candidates([(m, md['score'], md['key']) for md, (m, _) in zip(models, items) if not md['is_self']], 'as given')
            res['worst_score_err'] = worst
            res['n_score_compared'] = ncmp
            # ... whatever the grid order: the same search with every grid reversed, against the same independent fits
            if spec.get('reverse') and not orc:
                g3 = fresh(spec['fitted'])
                try:
                    out3 = call_gridsearch(spec, g3, Xs, ys, ws, es, True, grids_kwargs(dict(spec, grids=reversed_grids(spec['grids']))))
                except Exception as ex:      # noqa
                    orc.append(dict(kind='the reversed grid raised where the given one did not', got=type(ex).__name__, msg=str(ex)[:200]))
                else:
                    pairs3 = []
                    readable = True
                    try:
                        if out3 is not g3:
                            for m3, sc3 in out3.items():
                                if m3 is g3:
                                    continue
                                k3 = key_json(read_key(m3, params, slots))
                                if json.dumps(k3) not in unstable:
                                    pairs3.append((m3, sc3, k3))
                    except Exception as ex:      # noqa
                        readable = False
                        orc.append(dict(kind='the reversed grid returned something that is not a dict of fitted models', got=type(ex).__name__))
                    keys3 = sorted(json.dumps(k3) for _, _, k3 in pairs3)
                    if not readable:
                        pass
                    elif keys3 != gotkeys:
                        orc.append(dict(kind='the grid order changes the set of fitted candidates',
                                        missing=[k for k in gotkeys if k not in keys3][:5], unexpected=[k for k in keys3 if k not in gotkeys][:5]))
                    else:
                        w3, n3 = judge_candidates(pairs3, 'reversed')
                        res['worst_score_err'] = max(worst, w3)
                        res['n_score_compared'] = ncmp + n3
        res['cmp_classes'] = {'%s/%s' % ('conv' if k[0] else 'nonconv', 'conv' if k[1] else 'nonconv'): v for k, v in res['cmp_classes'].items()}
        # self if fitted: its score is that of the fit before the call
        if spec['fitted'] and pre is not None and models:
            sm = [md for md in models if md['is_self']]
            if len(sm) != 1:
                orc.append(dict(kind='fitted self is not among the returned models exactly once', n=len(sm)))
            elif robj in pre['stats'] and sm[0]['score'] != pre['stats'][robj]:
                orc.append(dict(kind="self's score is not its statistics_[objective]", got=sm[0]['score'], want=pre['stats'][robj]))
        # keep_best
        if models and spec['keep_best']:
            scores = [md['score'] for md in models]
            finite = [s for s in scores if not math.isnan(s)]
            mn = min(finite) if finite else None
            if not fitted_after:
                orc.append(dict(kind='keep_best left the model unfitted'))
            elif mn is not None:
                if res['self_stats'].get(robj) != mn:
                    orc.append(dict(kind='self does not end with the minimum score', self_score=res['self_stats'].get(robj), minimum=mn,
                                    scores=scores))
                else:
                    arg = [i for i, s in enumerate(scores) if s == mn]
                    ok = False
                    for i in arg:
                        m = items[i][0]
                        mk = models[i]['key']
                        if mk == res['self_key'] and (m is gam or np.array_equal(m.coef_, gam.coef_)) \
                                and (m is gam or same_stats(stats_of(m), res['self_stats'])):
                            ok = True
                    if not ok:
                        orc.append(dict(kind='self does not hold coefficients/statistics/hyper-parameters of a minimiser',
                                        self_key=res['self_key'], argmin=[models[i]['key'] for i in arg]))
                    else:
                        if spec['fitted'] and pre is not None and res['self_key'] == pre['key'] and scores[0] == mn and models[0]['is_self'] \
                                and coef_of(gam) is not None and [_bits(c) for c in coef_of(gam)] == pre['coef']:
                            # the model was already fitted and stayed the best: it ends as ITSELF -- predictions, partial dependence,
                            # compiled terms and statistics at fixed query rows exactly as before the search
                            post_obs = observe_fitted(gam, Q)
                            diff = sorted(k for k in set(pre['obs']) | set(post_obs) if pre['obs'].get(k) != post_obs.get(k))
                            res['notes']['fitted start stayed the best'] = True
                            if diff:
                                orc.append(dict(kind='the fitted model stayed the best but is not itself after the search', changed=diff[:8],
                                                search_data=spec.get('search_data') or 'training data'))
                        # predictions are those of an independent fit with the winner's hyper-parameters
                        if not (spec['fitted'] and pre is not None and res['self_key'] == pre['key'] and scores[0] == mn and models[0]['is_self']):
                            cs = pool.get(json.dumps(res['self_key'])) if wantkeys == gotkeys else None
                            if cs and cs[0]['conv'] and cs[0]['pred'] is not None:
                                p1 = gam.predict_mu(Xs)
                                d = float(np.max(np.abs(p1 - cs[0]['pred']) / np.maximum(1.0, np.abs(cs[0]['pred']))))
                                if d > 1e-4 * FAIL_MARGIN and 'alt' in cs[0] and any(t.startswith('fit_intercept') for t in res['suspected']):
                                    ap = cs[0]['alt']['pred']
                                    d = float(np.max(np.abs(p1 - ap) / np.maximum(1.0, np.abs(ap))))
                                res['pred_err'] = d
                                if d > 1e-4 * FAIL_MARGIN:
                                    orc.append(dict(kind='predictions after keep_best differ from an independent fit of the winner', maxrel=d))
        if weighted_stream and models and spec['keep_best'] and fitted_after and not orc and wantkeys == gotkeys:
            # the kept model judged by the independent fits alone: contenders = the cold fits (+ the model itself if it was fitted);
            # when one of them is clear of the others by more than the tolerance of the comparison, it is the one to keep, with the
            # statistics of that independent fit
            cont = [(c['score'], c['ref'], c) for c in cold if c['score'] is not None and not c.get('nonfinite')]
            all_finite = len(cont) == len([c for c in cold if c['score'] is not None])
            if spec['fitted'] and pre is not None and robj in pre['stats'] and np.isfinite(pre['stats'][robj]):
                cont.append((pre['stats'][robj], max(abs(pre['stats'][robj]), 1e-3), None))
            if cont and all_finite:
                cont.sort(key=lambda t: t[0])
                best = cont[0]
                margin = 10.0 * score_rtol(spec.get('tol', 1e-8), True) * FAIL_MARGIN * best[1]
                clear = len(cont) == 1 or cont[1][0] - best[0] > margin
                # several grid entries may name the same hyper-parameters: then the runner-up is the same model
                if not clear and best[2] is not None and all(t[2] is not None and t[2]['key'] == best[2]['key'] for t in cont[1:]
                                                            if t[0] - best[0] <= margin):
                    clear = True
                res['notes']['kept model judged by independent fits'] = bool(clear)
                if clear:
                    want_key = best[2]['key'] if best[2] is not None else pre['key']
                    if res['self_key'] != want_key:
                        orc.append(dict(kind='the kept model is not the minimiser among independent fits on the same (X, y, weights)',
                                        kept=res['self_key'], minimiser=want_key, independent_scores=[t[0] for t in cont[:4]],
                                        weights=spec.get('weights')))
                    elif best[2] is not None:
                        d = compare_stats(scalar_stats(gam), best[2]['stats'], coef_rtol(best[2]['tol'], True) * FAIL_MARGIN)
                        sk = res['self_stats'].get(robj)
                        if d is None and (sk is None or abs(sk - best[0]) / best[1] > score_rtol(best[2]['tol'], True) * FAIL_MARGIN):
                            d = dict(statistic=robj, in_search=sk, independent=best[0])
                        if d is not None:
                            orc.append(dict(d, kind='statistics after keep_best differ from the independent fit of the winner on the same (X, y, weights)',
                                            kept=res['self_key'], weights=spec.get('weights')))
        if spec['fitted'] and not spec['keep_best'] and pre is not None:
            post_obs = observe_fitted(gam, Q)
            diff = sorted(k for k in set(pre['obs']) | set(post_obs) if pre['obs'].get(k) != post_obs.get(k))
            try:
                post = [_bits(v) for v in gam.predict_mu(X)]
            except Exception as ex:      # noqa
                post = 'raises ' + type(ex).__name__
            if post != pre['pred'] or post_obs.get('coef_') != pre['coef'] or res['self_key'] != pre['key'] or diff:
                orc.append(dict(kind='keep_best=False changed a fitted model', changed=diff[:8] or ['predictions on the training rows / hyper-parameters'],
                                search_data=spec.get('search_data') or 'training data'))
        if (not spec['fitted']) and not spec['keep_best'] and fitted_after:
            res['notes']['unfitted+keep_best=False ended fitted'] = True
    # ---- twin run with return_scores=False -----------------------------------------------------------
    if not spec['return_scores']:
        g2 = fresh(spec['fitted'])
        try:
            out2 = call_gridsearch(spec, g2, Xs, ys, ws, es, False, gk)
            res['twin'] = dict(is_self=out2 is g2, fitted=hasattr(g2, 'coef_'),
                               same_coef=(hasattr(g2, 'coef_') and fitted_after and [_bits(c) for c in g2.coef_] == [_bits(c) for c in gam.coef_])
                               or (not hasattr(g2, 'coef_') and not fitted_after),
                               same_key=key_json(read_key(g2, params, slots)) == res['self_key'])
            if not (out2 is g2):
                orc.append(dict(kind='return_scores=False did not return self'))
            elif not (res['twin']['same_coef'] and res['twin']['same_key']):
                orc.append(dict(kind='return_scores changes the state the model ends in'))
        except Exception as ex:   # noqa
            res['twin'] = dict(exc=type(ex).__name__)
            orc.append(dict(kind='return_scores=False raised where return_scores=True did not', exc=type(ex).__name__))
    for c in (res.get('cold') or []):
        c.pop('pred', None)
    return res


def _real_worker(spec):
    try:
        return run_real_case(spec)
    except Exception as ex:      # noqa
        import traceback
        return dict(harness_error=traceback.format_exc()[-1500:])


# ------------------------------------------------------------------------------------------------
# driver lines
# ------------------------------------------------------------------------------------------------
def head_tokens(spec, adm):
    known = '1' if KNOWN_SCALE[spec['cls']] else '0'
    obj = spec['objective'] if spec['objective'] is not None else 'auto'
    slots = spec_slots(spec)
    dflt = grid_tokens('lam', slots_of(spec['terms'], 'lam'), dict(kind='1d', values=[float(v) for v in np.logspace(-3, 3, 11)]))
    blocks = []
    for g in spec['grids']:
        t = slots[g['param']]
        blocks.append(grid_tokens(g['param'], t if t is not None else 0, g['desc']))
    return '%s %s %s %s %d %s' % (known, obj, ','.join(adm), dflt, len(blocks), ' '.join(blocks))


def parse_plan(out, spec):
    """-> ('error', class, tag) | ('ok', objective, params, [candidate key])"""
    if not out.startswith('ok '):
        if ':' in out:
            cls, tag = out.split(':', 1)
            return ('error', cls, tag)
        return ('bad', out, '')
    parts = out.split(' | ')
    headp = parts[0].split()
    objective, names, n = headp[1], headp[2].split(','), int(headp[3])
    slots = spec_slots(spec)
    cands = []
    for p in parts[1:]:
        toks = p.split()
        cands.append(tuple(parse_entry(t, slots[nm] if slots.get(nm) is not None else 0) for t, nm in zip(toks, names)))
    assert len(cands) == n, (len(cands), n)
    return ('ok', objective, names, cands)


def parse_search(out):
    if not out.startswith('ok '):
        if ':' in out:
            cls, tag = out.split(':', 1)
            return dict(error=cls, tag=tag)
        return dict(bad=out)
    d = {}
    for t in out.split()[1:]:
        k, v = t.split('=', 1)
        d[k] = v
    ms = []
    if d.get('models'):
        for t in d['models'].split(','):
            r, b = t.split(':')
            ms.append((r, b))
    d['models'] = ms
    return d


# ------------------------------------------------------------------------------------------------
# generators
# ------------------------------------------------------------------------------------------------
def harvest_literals(pygam):
    """numeric literals of the functions under test (literal-seeded sampling)"""
    lits = set()
    for fn in (pygam.GAM.gridsearch, pygam.utils.combine, pygam.PoissonGAM.gridsearch):
        try:
            src = inspect.getsource(fn)
            tree = ast.parse('if 1:\n' + src if src.startswith(' ') else src)
        except Exception:
            continue
        for node in ast.walk(tree):
            if isinstance(node, ast.Constant) and isinstance(node.value, (int, float)) and not isinstance(node.value, bool):
                lits.add(node.value)
    return sorted(lits)


LAMS = [0.01, 0.05, 0.1, 0.6, 1.0, 2.5, 10.0, 40.0, 100.0]


def gen_terms(rng, want_ns, allow_lf=True, max_terms=3):
    """random term list; `want_ns`: only spline/tensor terms (n_splines / spline_order grids are possible)"""
    nt = rng.choice([1, 2, 2, 3]) if max_terms >= 3 else rng.choice([1, 2])
    terms = []
    used_te = False
    for i in range(nt):
        kinds = ['s', 's', 's']
        if not used_te and i < 2:
            kinds.append('te')
        if allow_lf and not want_ns:
            kinds += ['l', 'f']
        k = rng.choice(kinds)
        if k == 's':
            terms.append(dict(kind='s', feature=i % 3, n_splines=rng.choice([5, 6, 7, 8]), spline_order=rng.choice([2, 3, 3]),
                              lam=rng.choice([0.3, 0.6, 2.0])))
        elif k == 'te':
            used_te = True
            terms.append(dict(kind='te', features=[0, 1], n_splines=[rng.choice([4, 5]), rng.choice([4, 5])],
                              spline_order=[rng.choice([2, 3]), 3], lam=[rng.choice([0.6, 1.5]), 0.6]))
        elif k == 'l':
            terms.append(dict(kind='l', feature=i % 3, lam=0.6))
        else:
            terms.append(dict(kind='f', feature=2, lam=0.6))
    # a categorical term must sit on feature 2 only once
    seen_f = False
    out = []
    for t in terms:
        if t['kind'] == 'f':
            if seen_f:
                continue
            seen_f = True
        out.append(t)
    return out


VALID_ONLY = [False]     # scripted stream: only values that pyGAM's setters accept (skips come from the script alone)


def value_pool(param, rng, terms, lits):
    if param == 'lam':
        pool = list(LAMS)
        pool += [float(v) for v in lits if isinstance(v, (int, float)) and 0.005 < v <= 100]
        pool.append(round(10 ** rng.uniform(-2, 2), 6))
        return pool
    if param == 'n_splines':
        if VALID_ONLY[0]:
            return [4, 5, 6, 7, 8, 9]
        return [4, 5, 6, 7, 8, 9, 3, 2]        # 2, 3 (<= spline_order) raise ValueError when fitted: skipped
    if param == 'spline_order':
        if VALID_ONLY[0]:
            return [0, 1, 2, 3]
        return [0, 1, 2, 3, 4, 5, 9]           # >= n_splines raises ValueError: skipped
    if param == 'max_iter':
        return [150, 200, 250]
    if param == 'fit_intercept':
        return [True, False]
    raise AssertionError(param)


def gen_grid(rng, param, T, terms, lits, budget, bad=False):
    """one grid description for a parameter with T slots and at most `budget` candidates"""
    pool = value_pool(param, rng, terms, lits)

    def pick(k, distinct=True):
        if distinct and k <= len(pool):
            return rng.sample(pool, k)
        return [rng.choice(pool) for _ in range(k)]
    if param in SCALARS:
        k = 2 if param == 'fit_intercept' else rng.choice([2, 3])
        k = min(k, max(2, budget))
        return dict(kind='1d', values=pick(k), container=rng.choice(['list', 'tuple', 'array'] if param != 'fit_intercept' else ['list', 'tuple']))
    if bad:
        choice = rng.choice(['short1d', 'scalar', 'string', '2d-cols', '2d-onerow', 'nested-len', 'nested-one', 'empty'])
        if choice == 'short1d':
            return dict(kind='1d', values=pick(1), container=rng.choice(['list', 'tuple', 'array']))
        if choice == 'empty':
            return dict(kind='1d', values=[], container='list')
        if choice == 'scalar':
            return dict(kind='scalar', value=pick(1)[0])
        if choice == 'string':
            return dict(kind='string', value='ab')
        if choice == '2d-cols':
            cols = rng.choice([c for c in (T - 1, T + 1, T + 2) if c >= 1])
            return dict(kind='2d', rows=[pick(cols, False) for _ in range(rng.choice([2, 3]))])
        if choice == '2d-onerow':
            return dict(kind='2d', rows=[pick(T, False)])
        if choice == 'nested-len':
            L = rng.choice([c for c in (T - 1, T + 1, T + 2) if c >= 2] or [T + 1])
            return dict(kind='nested', subs=[pick(rng.choice([1, 2])) for _ in range(L)], container=rng.choice(['list', 'tuple', 'arrays']))
        return dict(kind='nested', subs=[pick(rng.choice([2, 3]))], container='list')
    shapes = ['1d', '1d', '2d']
    if T >= 2:
        shapes += ['nested', 'nested', 'mixed']
    sh = rng.choice(shapes)
    if sh == '1d':
        k = min(rng.choice([2, 2, 3, 4]), max(2, budget))
        distinct = rng.random() > 0.15      # now and then a duplicated value
        return dict(kind='1d', values=pick(k, distinct), container=rng.choice(['list', 'tuple', 'array']))
    if sh == '2d':
        k = min(rng.choice([2, 3, 4]), max(2, budget))
        return dict(kind='2d', rows=[pick(T, False) for _ in range(k)])
    # nested / mixed: sizes with product <= budget
    sizes = [1] * T
    for _ in range(8):
        j = rng.randrange(T)
        sizes[j] += 1
        if np.prod(sizes) > max(2, budget):
            sizes[j] -= 1
    if all(s == 1 for s in sizes):
        sizes[rng.randrange(T)] = 2
    subs = []
    for j, sz in enumerate(sizes):
        sub = pick(sz)
        if sh == 'mixed' and sz == 1 and rng.random() < 0.7:
            subs.append(sub[0])
        else:
            subs.append(sub)
    if not any(isinstance(s, list) for s in subs):
        subs[0] = [subs[0]]
    return dict(kind='nested', subs=subs, container=rng.choice(['list', 'tuple', 'arrays', 'tuples']))


def grid_size(desc, T):
    v = oracle_grid_values(desc, T)
    return len(v) if v is not None else 1


def gen_grids(rng, terms, lits, budget, allow_bad=True, scalars=True):
    """joint grids over 0..3 parameters"""
    r = rng.random()
    if r < 0.06:
        return []                          # default grid
    can_ns = slots_of(terms, 'n_splines') is not None
    names = ['lam', 'lam']
    if can_ns:
        names += ['n_splines', 'spline_order']
    if scalars:
        names += ['fit_intercept', 'max_iter']
    k = rng.choice([1, 1, 1, 2, 2, 3])
    chosen = []
    for _ in range(k):
        p = rng.choice(names)
        if p not in chosen:
            chosen.append(p)
    grids = []
    left = budget
    bad_at = rng.randrange(len(chosen)) if (allow_bad and rng.random() < 0.15) else None
    for i, p in enumerate(chosen):
        T = slots_of(terms, p) if p in ('lam', 'n_splines', 'spline_order') else 1
        share = max(2, int(round(left ** (1.0 / (len(chosen) - i)))))
        d = gen_grid(rng, p, T, terms, lits, share, bad=(bad_at == i))
        left = max(1, left // max(1, grid_size(d, T)))
        grids.append(dict(param=p, desc=d))
    return grids


def shape_sig(spec):
    out = []
    for g in spec['grids']:
        d = g['desc']
        n = len(d.get('values', d.get('rows', d.get('subs', []))))
        out.append('%s:%s:%s:%d' % (g['param'], d['kind'], d.get('container', '-'), n))
    return out or ['default']


# ------------------------------------------------------------------------------------------------
# stream 1: combine
# ------------------------------------------------------------------------------------------------
def run_combine(ctx, pygam, lits):
    st = 'combine.values'
    ctx.stream(st, 'pygam.utils.combine(*grids) vs model combine (exact, order included); oracle itertools.product')
    rng = ctx.subrng('combine')
    cases = [[], [[]], [[1]], [[1, 2]], [[], [1, 2]], [[1, 2], []], [[1], [2], [3]], [[1, 2], [3, 4], [5, 6]], [[1, 1], [2, 2]]]
    n = 120 if ctx.tier == 'quick' else 1200
    small = [v for v in lits if isinstance(v, int) and 0 <= v <= 4] or [1, 2, 3]
    for _ in range(n):
        k = rng.choice([1, 2, 2, 3, 3, 4, 5] + small[:2])
        k = max(1, min(k, 5))
        grids = []
        for _j in range(k):
            ln = rng.choice([0, 1, 1, 2, 2, 3, 4]) if k <= 3 else rng.choice([1, 2, 2, 3])
            grids.append([Fraction(rng.randint(-6, 6), rng.choice([1, 1, 2, 3])) for _ in range(ln)])
        cases.append(grids)
    ops = []
    for g in cases:
        ops.append('C10 combine %d %s' % (len(g), ' '.join('%d %s' % (len(x), ' '.join(common.q2s(v) for v in x)) for x in g)))
    outs = ctx.driver.run([' '.join(o.split()) for o in ops])
    for g, out in zip(cases, outs):
        sig = dict(lens=[len(x) for x in g], h=hash(json.dumps([[str(v) for v in x] for x in g])) % 10 ** 8)
        ctx.count('combine #grids', len(g))
        ctx.case(st, sig, nontrivial=len(g) >= 2, sample=dict(grids=[[str(v) for v in x] for x in g]))
        try:
            impl = pygam.utils.combine(*g)
            impl_s = [[Fraction(v) for v in row] for row in impl]
        except Exception as ex:  # noqa
            impl_s = type(ex).__name__
        if out.startswith('ok '):
            body = out.split(':', 1)[1]
            model = [[Fraction(v) for v in row] for row in common.parse_mat(body)]
        else:
            model = out.strip()
        bad = None
        if len(g) >= 1:
            want = [list(t) for t in itertools.product(*g)]
            if impl_s != want:
                bad = dict(got=str(impl_s)[:300], want=str(want)[:300])
        if bad is not None:
            ctx.fail(st, sig, dict(call='pygam.utils.combine', grids=[[str(v) for v in x] for x in g]), observed=bad['got'],
                     expected=bad['want'], oracle='itertools.product (last grid varies fastest)')
        elif impl_s != model:
            ctx.disagree(st, dict(grids=[[str(v) for v in x] for x in g]), str(impl_s)[:300], str(model)[:300],
                         'combine differs from the model')


# ------------------------------------------------------------------------------------------------
# stream 3+4 cases: real fits
# ------------------------------------------------------------------------------------------------
REAL_CLASSES = ['LinearGAM', 'LinearGAM', 'LinearGAM-known', 'PoissonGAM', 'LogisticGAM', 'GammaGAM']


def gen_real_specs(ctx, lits):
    rng = ctx.subrng('real')
    quick = ctx.tier == 'quick'
    n_cases = 120 if quick else 2200
    specs = []
    # a small full product first: class kind x fitted x keep_best (never only the defaults)
    base = []
    for cls in ['LinearGAM', 'LinearGAM-known', 'PoissonGAM', 'LogisticGAM', 'GammaGAM']:
        for fitted in (False, True):
            for kb in (True, False):
                base.append((cls, fitted, kb))
    i = 0
    while len(specs) < n_cases:
        if i < len(base):
            cls, fitted, kb = base[i]
        else:
            cls, fitted, kb = rng.choice(REAL_CLASSES), rng.random() < 0.5, rng.random() < 0.6
        i += 1
        slow = cls in ('PoissonGAM', 'LogisticGAM', 'GammaGAM')
        want_ns = rng.random() < 0.5
        terms = gen_terms(rng, want_ns, allow_lf=True, max_terms=2 if slow else 3)
        budget = (6 if slow else 10) if quick else (10 if slow else 24)
        grids = gen_grids(rng, terms, lits, budget)
        if not grids and slow and quick and rng.random() < 0.7:
            continue
        known = KNOWN_SCALE[cls]
        r = rng.random()
        if r < 0.45:
            objective = 'auto' if rng.random() < 0.7 else None
        elif r < 0.85:
            objective = rng.choice(['AIC', 'AICc', 'UBRE' if known else 'GCV'])
        else:
            objective = rng.choice(['GCV' if known else 'UBRE', 'BIC', 'gcv'])
        spec = dict(cls=cls, scale=rng.choice([0.02, 0.04, 0.1]) if cls == 'LinearGAM-known' else None, terms=terms,
                    n=rng.choice([60, 80, 100, 120]), d=3, data_seed=rng.randrange(10 ** 6), fitted=fitted, keep_best=kb,
                    return_scores=rng.random() < 0.7, objective=objective, grids=grids,
                    weights=rng.random() < 0.3, exposure=(cls == 'PoissonGAM' and rng.random() < 0.6),
                    tol=1e-8, max_iter=200)
        specs.append(spec)
    # the default grid (lam = logspace(-3, 3, 11)) with real fits, fitted and unfitted
    for k, cls in enumerate(['LinearGAM', 'LinearGAM-known', 'LinearGAM', 'LogisticGAM']):
        specs.append(dict(cls=cls, scale=0.05 if cls == 'LinearGAM-known' else None,
                          terms=[dict(kind='s', feature=0, n_splines=6, spline_order=3, lam=0.6), dict(kind='s', feature=1, n_splines=5, spline_order=3, lam=0.6)][:1 + k % 2],
                          n=80, d=3, data_seed=100 + k, fitted=k >= 2, keep_best=True, return_scores=True, objective=None if k % 2 else 'auto',
                          grids=[], weights=False, exposure=False, tol=1e-8, max_iter=200))
    # known findings (a) and (b): seeded cases that reproduce them in every run
    for k in range(2):
        specs.append(dict(cls='LinearGAM', scale=None, terms=[dict(kind='l', feature=0, lam=0.6)], n=80, d=3, data_seed=31 + k,
                          fitted=bool(k), keep_best=False, return_scores=True, objective='auto',
                          grids=[dict(param='fit_intercept', desc=dict(kind='1d', values=[True, False], container='list'))],
                          weights=False, exposure=False, tol=1e-8, max_iter=200))
        specs.append(dict(cls='LinearGAM', scale=None, terms=[dict(kind='s', feature=0, n_splines=6, spline_order=3, lam=0.6)], n=80, d=3,
                          data_seed=41 + k, fitted=bool(k), keep_best=True, return_scores=True, objective='auto',
                          grids=[dict(param='n_splines', desc=dict(kind='1d', values=[3, 6], container='list')),
                                 dict(param='spline_order', desc=dict(kind='1d', values=[1, 3], container='list'))],
                          weights=False, exposure=False, tol=1e-8, max_iter=200))
    # a candidate that diverges from the previous model's coefficients but converges from a cold start (was skipped before
    # /repo 3531369 + b32bdf3): must be fitted
    specs.append(dict(cls='LogisticGAM', scale=None, terms=[dict(kind='s', feature=0, n_splines=7, spline_order=3, lam=0.3),
                                                           dict(kind='s', feature=1, n_splines=7, spline_order=3, lam=0.6)],
                      n=120, d=3, data_seed=978853, fitted=True, keep_best=False, return_scores=True, objective=None,
                      grids=[dict(param='spline_order', desc=dict(kind='1d', values=[5, 0, 9, 1], container='list'))],
                      weights=False, exposure=False, tol=1e-8, max_iter=200))
    # suspected defect (C14 plural setter): n_splines / spline_order grids on models holding l() / f() terms
    for k in range(2):
        specs.append(dict(cls='LinearGAM', scale=None, terms=[dict(kind='s', feature=0, n_splines=6, spline_order=3, lam=0.6),
                                                             dict(kind='l' if k == 0 else 'f', feature=1 if k == 0 else 2, lam=0.6)],
                          n=60, d=3, data_seed=7 + k, fitted=False, keep_best=True, return_scores=True, objective='auto',
                          grids=[dict(param='n_splines' if k == 0 else 'spline_order', desc=dict(kind='1d', values=[5, 7] if k == 0 else [2, 3], container='list'))],
                          weights=False, exposure=False, tol=1e-8, max_iter=200, suspected='plural setter on terms without the attribute'))
    return specs


OPT_CLASSES = ['LinearGAM', 'LinearGAM-known', 'PoissonGAM', 'LogisticGAM', 'GammaGAM']
OPT_MAX_ITER = [1, 2, 3, 4, 6, 10, 25, 200]
OPT_TOL = [1e-8, 1e-10, 1e-12, 1e-6, 1e-4, 1e-3]
OPT_LAMS = [1e-3, 0.01, 0.1, 0.6, 1.0, 10.0, 100.0, 1e3]     # far apart: a warm start is far from the next optimum


def gen_opt_specs(ctx, lits):
    """model-level settings that steer the optimiser (iteration budget, stopping tolerance), on the model and as grid
    dimensions: a candidate's score and coefficients are those of an independent fit with the same settings, whatever was
    fitted before it (fitted / unfitted start, grid as given and reversed), also when nothing converges"""
    rng = ctx.subrng('real.opt')
    quick = ctx.tier == 'quick'
    specs = []

    def two_terms(ns=7):
        return [dict(kind='s', feature=0, n_splines=ns, spline_order=3, lam=0.6), dict(kind='s', feature=1, n_splines=ns, spline_order=3, lam=0.6)]
    # known finding C10-warm-start-converges-cold-does-not: its fixed reproduction, in every run
    specs.append(dict(cls='LogisticGAM', scale=None, terms=[dict(kind='s', feature=0, n_splines=8, spline_order=3, lam=0.6),
                                                           dict(kind='s', feature=1, n_splines=8, spline_order=3, lam=0.6)],
                      n=200, d=2, data_seed=0, data_kind='warm-start-repro', fitted=False, keep_best=True, return_scores=True, objective='auto',
                      grids=[dict(param='lam', desc=dict(kind='1d', values=[1.0, 1.0, 1.0], container='list'))],
                      weights=False, exposure=False, tol=1e-2, max_iter=2, reverse=False, known_repro=True))
    # full product first: class x small budget x fitted (grid over lam only; then budget / tolerance as grid dimensions)
    k = 0
    for cls in OPT_CLASSES:
        for mi in (1, 2, 3):
            for fitted in (False, True):
                k += 1
                if cls.startswith('LinearGAM') and mi > 1:
                    continue
                specs.append(dict(cls=cls, scale=0.05 if cls == 'LinearGAM-known' else None, terms=two_terms(6 + k % 3), n=[80, 100, 120][k % 3], d=3,
                                  data_seed=500 + k, fitted=fitted, keep_best=bool(k % 2), return_scores=True, objective='auto' if k % 4 else None,
                                  grids=[dict(param='lam', desc=dict(kind='1d', values=[1e3, 1.0, 0.01, 10.0][:3 + k % 2], container='list'))],
                                  weights=False, exposure=(cls == 'PoissonGAM' and mi == 2), tol=1e-8, max_iter=mi, reverse=True))
    for cls in ('PoissonGAM', 'LogisticGAM', 'GammaGAM'):
        for fitted in (False, True):
            k += 1
            specs.append(dict(cls=cls, scale=None, terms=two_terms(6), n=100, d=3, data_seed=600 + k, fitted=fitted, keep_best=not fitted,
                              return_scores=True, objective='auto',
                              grids=[dict(param='max_iter', desc=dict(kind='1d', values=[2, 200, 1], container='list')),
                                     dict(param='lam', desc=dict(kind='1d', values=[100.0, 0.01], container='array'))],
                              weights=False, exposure=False, tol=1e-8, max_iter=3 if fitted else 200, reverse=True))
            specs.append(dict(cls=cls, scale=None, terms=two_terms(6), n=100, d=3, data_seed=650 + k, fitted=fitted, keep_best=fitted,
                              return_scores=True, objective='auto',
                              grids=[dict(param='lam', desc=dict(kind='1d', values=[0.01, 100.0], container='list')),
                                     dict(param='tol', desc=dict(kind='1d', values=[1e-3, 1e-10, 1e-6], container='list'))],
                              weights=False, exposure=False, tol=1e-8, max_iter=[4, 6][k % 2], reverse=True))
    n_random = 30 if quick else 900
    for _ in range(n_random):
        cls = rng.choice(OPT_CLASSES + ['PoissonGAM', 'LogisticGAM', 'GammaGAM'])
        terms = gen_terms(rng, True, allow_lf=False, max_terms=2)
        budget = 6 if quick else 9
        names = [['lam'], ['lam'], ['lam', 'max_iter'], ['max_iter', 'lam'], ['lam', 'tol'], ['tol', 'lam'], ['max_iter'], ['tol'],
                 ['max_iter', 'tol'], ['lam', 'max_iter', 'tol']]
        chosen = rng.choice(names)
        grids = []
        left = budget
        for i, pname in enumerate(chosen):
            share = max(2, int(round(left ** (1.0 / (len(chosen) - i)))))
            if pname == 'lam':
                T = slots_of(terms, 'lam')
                sh = rng.choice(['1d', '1d', '2d'] + (['nested'] if T >= 2 else []))
                if sh == '1d':
                    kk = min(rng.choice([2, 3, 4]), share)
                    vals = [rng.choice(OPT_LAMS) for _ in range(kk)] if rng.random() < 0.2 else rng.sample(OPT_LAMS, kk)
                    desc = dict(kind='1d', values=vals, container=rng.choice(['list', 'tuple', 'array']))
                elif sh == '2d':
                    desc = dict(kind='2d', rows=[[rng.choice(OPT_LAMS) for _ in range(T)] for _ in range(min(rng.choice([2, 3]), share))])
                else:
                    subs = [[rng.choice(OPT_LAMS)] for _ in range(T)]
                    j = rng.randrange(T)
                    subs[j] = rng.sample(OPT_LAMS, min(rng.choice([2, 3]), share))
                    desc = dict(kind='nested', subs=subs, container=rng.choice(['list', 'tuple', 'arrays']))
                size = grid_size(desc, T)
            elif pname == 'max_iter':
                kk = min(rng.choice([2, 3]), share)
                desc = dict(kind='1d', values=rng.sample(OPT_MAX_ITER, kk), container=rng.choice(['list', 'tuple', 'array']))
                size = kk
            else:
                kk = min(rng.choice([2, 3]), share)
                desc = dict(kind='1d', values=rng.sample(OPT_TOL, kk), container=rng.choice(['list', 'tuple', 'array']))
                size = kk
            left = max(1, left // max(1, size))
            grids.append(dict(param=pname, desc=desc))
        known = KNOWN_SCALE[cls]
        r = rng.random()
        objective = ('auto' if rng.random() < 0.7 else None) if r < 0.7 else rng.choice(['AIC', 'AICc', 'UBRE' if known else 'GCV'])
        specs.append(dict(cls=cls, scale=rng.choice([0.02, 0.04, 0.1]) if cls == 'LinearGAM-known' else None, terms=terms,
                          n=rng.choice([60, 80, 100, 120]), d=3, data_seed=rng.randrange(10 ** 6), fitted=rng.random() < 0.5,
                          keep_best=rng.random() < 0.6, return_scores=rng.random() < 0.8, objective=objective, grids=grids,
                          weights=rng.random() < 0.3, exposure=(cls == 'PoissonGAM' and rng.random() < 0.5),
                          tol=rng.choice(OPT_TOL + [1e-8, 1e-8]), max_iter=rng.choice(OPT_MAX_ITER + [1, 2, 3]), reverse=True))
    return specs


def gen_otherdata_specs(ctx, lits):
    """searches run on data OTHER than the data the starting model was fitted on (validation subset over a sub-range, new rows
    over a shifted range, rows with fewer factor levels, a fresh sample of another size): a fitted model is unchanged by
    keep_best=False, ends as itself when it stays the best, and the candidates are independent fits on the search data"""
    rng = ctx.subrng('real.otherdata')
    quick = ctx.tier == 'quick'
    specs = []

    def terms_for(k, factor):
        t = [dict(kind='s', feature=0, n_splines=6 + k % 3, spline_order=3, lam=0.6)]
        if k % 2:
            t.append(dict(kind='s', feature=1, n_splines=5 + k % 2, spline_order=2 + k % 2, lam=2.0))
        if k % 5 == 0 and not factor:
            t.append(dict(kind='l', feature=1, lam=0.6))
        if factor:
            t.append(dict(kind='f', feature=2, lam=0.6))
        return t
    # full product: class kind x kind of search data x keep_best, from a fitted model
    k = 0
    for cls in OPT_CLASSES:
        for sd in SEARCH_DATA_KINDS:
            for kb in (False, True):
                k += 1
                known = KNOWN_SCALE[cls]
                specs.append(dict(cls=cls, scale=0.05 if cls == 'LinearGAM-known' else None, terms=terms_for(k, sd == 'fewer-levels' or k % 7 == 0),
                                  n=[120, 140, 160][k % 3], d=3, data_seed=800 + k, fitted=True, keep_best=kb, return_scores=bool(k % 3),
                                  objective=['auto', None, 'AIC', 'AICc'][k % 4] if kb else 'auto',
                                  grids=[dict(param='lam', desc=dict(kind='1d', values=[[0.1, 10.0], [100.0, 0.6]][k % 2], container='list'))],
                                  weights=(k % 4 == 1), exposure=(cls == 'PoissonGAM' and k % 2 == 0), tol=1e-8, max_iter=200,
                                  search_data=sd, search_n=[240, 90][k % 2]))
    n_random = 14 if quick else 600
    for _ in range(n_random):
        cls = rng.choice(REAL_CLASSES)
        slow = cls in ('PoissonGAM', 'LogisticGAM', 'GammaGAM')
        sd = rng.choice(SEARCH_DATA_KINDS)
        terms = gen_terms(rng, rng.random() < 0.4, allow_lf=True, max_terms=2 if slow else 3)
        if sd == 'fewer-levels' and not any(t['kind'] == 'f' for t in terms) and rng.random() < 0.8:
            terms = [t for t in terms if t['kind'] != 'te' or True] + [dict(kind='f', feature=2, lam=0.6)]
        grids = gen_grids(rng, terms, lits, (3 if slow else 5) if quick else (6 if slow else 12), allow_bad=False, scalars=False)
        known = KNOWN_SCALE[cls]
        r = rng.random()
        objective = ('auto' if rng.random() < 0.7 else None) if r < 0.6 else rng.choice(['AIC', 'AICc', 'UBRE' if known else 'GCV'])
        n = rng.choice([120, 140, 160])
        specs.append(dict(cls=cls, scale=rng.choice([0.02, 0.04, 0.1]) if cls == 'LinearGAM-known' else None, terms=terms, n=n, d=3,
                          data_seed=rng.randrange(10 ** 6), fitted=rng.random() < 0.8, keep_best=rng.random() < 0.5,
                          return_scores=rng.random() < 0.7, objective=objective, grids=grids, weights=rng.random() < 0.3,
                          exposure=(cls == 'PoissonGAM' and rng.random() < 0.5), tol=1e-8, max_iter=200,
                          search_data=sd, search_n=rng.choice([80, 120, 200, 2 * n])))
    return specs


def gen_weight_specs(ctx, lits):
    """sample weights of every kind handed to gridsearch (WEIGHT_PATTERNS; exact zeros = masked observations first): full product
    class kind x pattern on fixed data in every run; objective, fitted / unfitted start, keep_best, return_scores and the grid
    (lam 1-D / 2-D, n_splines, lam x n_splines) rotate with the case number.  Every candidate and the kept model are judged by
    independent cold fits on the same (X, y, weights)."""
    rng = ctx.subrng('real.weights')
    quick = ctx.tier == 'quick'
    specs = []

    def terms_for(k):
        t = [dict(kind='s', feature=0, n_splines=5 + k % 3, spline_order=3, lam=0.6), dict(kind='s', feature=1, n_splines=5 + k % 2, spline_order=3, lam=0.6)]
        extra = {1: 'l', 4: 'f', 5: 'f'}.get(k % 8)      # (the n_splines grids below go to models of spline terms only)
        if extra:
            t.append(dict(kind=extra, feature=2, lam=0.6))
        return t

    def grids_for(k, terms):
        T = slots_of(terms, 'lam')
        j = k % 4
        if j == 0 or (j >= 2 and slots_of(terms, 'n_splines') is None):
            return [dict(param='lam', desc=dict(kind='1d', values=[[0.01, 100.0, 1.0], [1e3, 0.1, 10.0]][k % 8 // 4], container=['list', 'array'][k % 2]))]
        if j == 1:
            return [dict(param='lam', desc=dict(kind='2d', rows=[[[0.1, 10.0, 1.0][(r + i) % 3] for i in range(T)] for r in range(2 + k % 8 // 4)]))]
        if j == 2:
            return [dict(param='n_splines', desc=dict(kind='1d', values=[8, 5], container='list'))]
        return [dict(param='lam', desc=dict(kind='1d', values=[0.05, 50.0], container='list')),
                dict(param='n_splines', desc=dict(kind='1d', values=[7, 5], container='list'))]

    def objectives_for(cls, pattern):
        known = KNOWN_SCALE[cls]
        objs = ['auto', None, 'UBRE' if known else 'GCV']
        # On the unchanged tree the log-likelihood of the normal and the gamma family is -inf / nan as soon as one weight is
        # exactly 0 (log_pdf divides the scale by the weight), so AIC / AICc of EVERY fit -- independent or not -- is inf / nan
        # there and no candidate "attains a minimum": exactly these combinations carry no AIC / AICc objective (a matter of
        # C06 / C08, not of the search).  PoissonGAM and LogisticGAM have finite likelihoods with zero weights: all objectives.
        if not (pattern.startswith('zeros') and cls in ('LinearGAM', 'LinearGAM-known', 'GammaGAM')):
            objs += ['AIC', 'AICc']
        return objs

    def one(k, cls, pattern, fitted, seed):
        terms = terms_for(k)
        objs = objectives_for(cls, pattern)
        return dict(cls=cls, scale=0.05 if cls == 'LinearGAM-known' else None, terms=terms, n=[100, 120, 140][k % 3], d=3, data_seed=seed,
                    fitted=fitted, keep_best=(k % 5 != 4), return_scores=(k % 3 != 2), objective=objs[k % len(objs)], grids=grids_for(k, terms),
                    weights=pattern, exposure=(cls == 'PoissonGAM' and k % 2 == 0), tol=1e-8, max_iter=200)
    k = 0
    for cls in OPT_CLASSES:
        for pattern in WEIGHT_PATTERNS:
            for fitted in ((False, True) if pattern.startswith('zeros') and cls.startswith('LinearGAM') else (bool(k % 2),)):
                k += 1
                specs.append(one(k, cls, pattern, fitted, 900 + k))
    # the shape of the demonstration of a masked sample: two smooth terms, 1-D lam grid, default objective, keep_best
    for j, cls in enumerate(['LinearGAM', 'LogisticGAM']):
        specs.append(dict(cls=cls, scale=None,
                          terms=[dict(kind='s', feature=0, n_splines=8, spline_order=3, lam=0.6), dict(kind='s', feature=1, n_splines=8, spline_order=3, lam=0.6)],
                          n=200, d=3, data_seed=990 + j, fitted=False, keep_best=True, return_scores=True, objective=None,
                          grids=[dict(param='lam', desc=dict(kind='1d', values=[0.01, 1.0, 100.0, 1e4], container='array'))],
                          weights='zeros-random', exposure=False, tol=1e-8, max_iter=200))
    n_random = 8 if quick else 500
    for _ in range(n_random):
        k += 1
        cls = rng.choice(OPT_CLASSES)
        pattern = rng.choice(WEIGHT_PATTERNS + WEIGHT_PATTERNS[:5])
        sp = one(rng.randrange(10 ** 4), cls, pattern, rng.random() < 0.5, rng.randrange(10 ** 6))
        sp['n'] = rng.choice([90, 120, 150, 200])
        specs.append(sp)
    return specs


def gen_objective_specs(ctx):
    """full product class kind x objective name x fitted on a tiny grid"""
    specs = []
    names = ['auto', None, 'GCV', 'UBRE', 'AIC', 'AICc', 'BIC', 'gcv', 'ubre', 'aic', 'Auto', 'deviance', 'GCVx']
    for cls in ['LinearGAM', 'LinearGAM-known', 'PoissonGAM', 'LogisticGAM', 'GammaGAM']:
        for o in names:
            for fitted in ((False, True) if o in ('auto', None, 'GCV', 'UBRE') else (False,)):
                specs.append(dict(cls=cls, scale=0.05 if cls == 'LinearGAM-known' else None,
                                  terms=[dict(kind='s', feature=0, n_splines=5, spline_order=3, lam=0.6)],
                                  n=50, d=2, data_seed=11, fitted=fitted, keep_best=True, return_scores=True, objective=o,
                                  grids=[dict(param='lam', desc=dict(kind='1d', values=[0.5, 5.0], container='list'))],
                                  weights=False, exposure=False, tol=1e-8, max_iter=200))
    return specs


def match_candidates(model_cands, impl_keys):
    """assign the implementation's fitted candidates (in returned order) to the model's candidates (model order);
    returns (assignment list: for each model candidate the index into impl_keys or None, leftovers)"""
    used = [False] * len(impl_keys)
    assign = []
    for c in model_cands:
        hit = None
        for j, k in enumerate(impl_keys):
            if not used[j] and k == c:
                hit = j
                break
        if hit is not None:
            used[hit] = True
        assign.append(hit)
    left = [j for j, u in enumerate(used) if not u]
    return assign, left


def run_real(ctx, pygam, lits):
    st = 'search.real'
    st_obj = 'objective.table'
    ctx.stream(st, 'real gridsearch with real fits vs model gridsearch (candidate multiset, skipped, winner, self afterwards, '
                   'return value, exception class); oracle: independent cold fits of the itertools product')
    ctx.stream(st_obj, 'class kind x objective name: resolved objective (observed through the scores) / rejection vs model resolveObjective')
    st_opt = 'search.optimiser'
    ctx.stream(st_opt, 'real gridsearch with small / large max_iter and loose / tight tol on the model and as grid dimensions, grid as given '
                       'and reversed, fitted and unfitted start, vs model gridsearch; oracle: score and coefficients of every candidate '
                       'equal those of an independent cold fit with the same max_iter / tol, converged or not')
    st_od = 'search.otherdata'
    ctx.stream(st_od, 'real gridsearch on data OTHER than the data the model was fitted on (sub-range, shifted range, fewer factor levels, '
                      'fresh sample) vs model gridsearch; oracle: with keep_best=False, or when the fitted start stays the best, the model '
                      'is bit-for-bit itself afterwards (predict_mu and partial dependence at fixed query rows, edge_knots_ / n_splines / '
                      'n_coefs of every term, coef_, statistics_, hyper-parameters); candidates = independent cold fits on the search data')
    st_w = 'search.weights'
    ctx.stream(st_w, 'real gridsearch with sample weights of every kind (exact zeros at random rows / as counts / over a range of a feature / '
                     'on most rows / on one row, tiny, scaled up / down, ones, fractional, heavy rows), class kind x pattern in every run, vs '
                     'model gridsearch; oracle: every candidate = independent cold fit on the same (X, y, weights): score, coefficients, '
                     "statistics_['n_samples'] exactly, edof / deviance / scale; kept model = arg-min of the independent fits, with its statistics")
    specs = [(st, s) for s in gen_real_specs(ctx, lits)] + [(st_obj, s) for s in gen_objective_specs(ctx)] + \
            [(st_opt, s) for s in gen_opt_specs(ctx, lits)] + [(st_od, s) for s in gen_otherdata_specs(ctx, lits)] + \
            [(st_w, s) for s in gen_weight_specs(ctx, lits)]
    # admissible names: from a representative model of each class (public get_params) + plural names
    adm_cache = {}
    for _, s in specs:
        if s['cls'] not in adm_cache:
            adm_cache[s['cls']] = admissible(build_model(pygam, s))
    plan_ops = ['C10 plan ' + head_tokens(s, adm_cache[s['cls']]) for _, s in specs]
    plan_outs = ctx.driver.run([' '.join(o.split()) for o in plan_ops])
    # implementation runs (pool)
    import multiprocessing as mp
    nproc = int(os.environ.get('VERIF_PROCS', '12'))
    with mp.Pool(nproc) as pool:
        results = pool.map(_real_worker, [s for _, s in specs], chunksize=1)
    # phase 2: model search given the observed outcomes
    search_ops = []
    prepared = []
    for (stream, spec), res, pout in zip(specs, results, plan_outs):
        if 'harness_error' in res:
            raise RuntimeError('worker failed on %r\n%s' % (spec, res['harness_error']))
        plan = parse_plan(pout, spec)
        prep = dict(plan=plan, op=None, assign=None, left=None)
        if res.get('degenerate'):
            prepared.append(prep)
            continue
        if plan[0] == 'ok' and res['exc'] is None and res.get('models') is not None:
            cand_models = [m for m in res['models'] if not m['is_self']]
            impl_keys = [key_from_json(m['key']) for m in cand_models]
            assign, left = match_candidates(plan[3], impl_keys)
            prep['assign'], prep['left'] = assign, left
            outs = ['skip' if a is None else _bits(cand_models[a]['score']) for a in assign]
            ss = '-'
            if spec['fitted']:
                sm = [m for m in res['models'] if m['is_self']]
                if sm:
                    ss = _bits(sm[0]['score'])
                elif res['pre'] and plan[1] in res['pre']['stats']:
                    ss = _bits(res['pre']['stats'][plan[1]])
            prep['op'] = 'C10 search %s %d %d %s %d %s' % (head_tokens(spec, adm_cache[spec['cls']]), 1 if spec['keep_best'] else 0,
                                                         1, ss, len(outs), ' '.join(outs))
            search_ops.append(' '.join(prep['op'].split()))
        prepared.append(prep)
    search_outs = iter(ctx.driver.run(search_ops))
    for (stream, spec), res, prep in zip(specs, results, prepared):
        sout = next(search_outs) if prep['op'] is not None else None
        judge_real(ctx, stream, spec, res, prep, sout)


def judge_real(ctx, stream, spec, res, prep, sout):
    if res.get('degenerate'):
        ctx.count(stream + ' degenerate (fit before the search diverged)', res['degenerate'])
        return
    plan = prep['plan']
    known = KNOWN_SCALE[spec['cls']]
    sig = dict(cls=spec['cls'], fitted=spec['fitted'], keep_best=spec['keep_best'], rs=spec['return_scores'],
               objective=str(spec['objective']), shapes=shape_sig(spec), terms=[t['kind'] for t in spec['terms']],
               weights=bool(spec.get('weights')), exposure=bool(spec.get('exposure')))
    if spec.get('max_iter', 200) != 200 or spec.get('tol', 1e-8) != 1e-8 or spec.get('reverse'):
        sig['opt'] = [spec.get('max_iter'), spec.get('tol'), bool(spec.get('reverse'))]
        ctx.count(stream + ' model max_iter', spec.get('max_iter'))
        ctx.count(stream + ' model tol', spec.get('tol'))
    if spec.get('search_data'):
        sig['search_data'] = [spec['search_data'], spec.get('search_n')]
        ctx.count(stream + ' search data', spec['search_data'])
        if (res.get('notes') or {}).get('fitted start stayed the best'):
            ctx.count(stream + ' fitted start stayed the best (compared with itself before)', spec['search_data'])
    if isinstance(spec.get('weights'), str):
        sig['weight_pattern'] = spec['weights']
        ctx.count(stream + ' weight pattern', spec['weights'])
        kj = (res.get('notes') or {}).get('kept model judged by independent fits')
        if kj is not None:
            ctx.count(stream + ' kept model judged by the arg-min of the independent fits', bool(kj))
    if res.get('n_nsamples_compared'):
        ctx.count(stream + ' n_samples of candidates compared with independent fits', 'n', res['n_nsamples_compared'])
    for k, v in (res.get('cmp_classes') or {}).items():
        ctx.count(stream + ' candidate vs independent fit (in-search/cold)', k, v)
    ctx.count(stream + ' class', spec['cls'])
    ctx.count(stream + ' objective', str(spec['objective']))
    ctx.count(stream + ' outcome', res['exc'] or 'ok')
    for g in spec['grids']:
        ctx.count(stream + ' grid shape', '%s:%s' % (g['param'], g['desc']['kind']))
    if not spec['grids']:
        ctx.count(stream + ' grid shape', 'default')
    if res.get('n_cold_skipped'):
        ctx.count(stream + ' cases with skipped candidates', 1)
    if res.get('worst_score_err') is not None:
        e = res['worst_score_err']
        ctx.count(stream + ' worst score err (log10)', 'exact' if e == 0 else str(int(math.floor(math.log10(e)))))
        ctx.count(stream + ' scores compared with cold fits', 'n', res.get('n_score_compared', 0))
    nontrivial = not (not spec['grids'] and spec['objective'] in ('auto', None) and not spec['fitted'] and spec['keep_best'])
    ctx.case(stream, sig, nontrivial=nontrivial, sample=dict(spec={k: v for k, v in spec.items() if k != 'terms'}, terms=spec['terms']))
    case = dict(spec=spec, how='harness.props.c10.run_real_case(spec)')
    # ---- known findings (recorded in known_findings.json, selector {'known': <id>}) ----------------------
    # each is recognised *exactly* by the oracle (see run_real_case) and confirmed by a second execution
    tags = list(res.get('suspected', []))
    if spec.get('suspected') and res.get('exc') == 'AttributeError':
        tags.append('plural setter: AttributeError')
    # (only the first occurrences of a known finding are re-executed and reported; the others are counted)
    seen = ctx.extra.setdefault('known_reported', {})
    fresh_tags = []
    for t in tags:
        kid = KNOWN[t.split(':')[0]][0]
        if seen.get(kid, 0) >= 3 and not spec.get('known_repro'):
            ctx.count('known finding', kid)
        else:
            fresh_tags.append(t)
    tags = fresh_tags
    if tags:
        res2 = _real_worker(spec)
        tags2 = list(res2.get('suspected', [])) + (['plural setter: AttributeError'] if spec.get('suspected') and res2.get('exc') == 'AttributeError' else [])
        for t in tags:
            head = t.split(':')[0]
            kid, repro, expected = KNOWN[head]
            if not any(t2.split(':')[0] == head for t2 in tags2):
                ctx.count(stream + ' unconfirmed known finding', kid)
                continue
            ctx.count('known finding', kid)
            seen[kid] = seen.get(kid, 0) + 1
            ksig = dict(known=kid, cls=spec['cls'], shapes=shape_sig(spec), fitted=spec['fitted'])
            if head == 'warm start converges':
                ksig.update(max_iter=spec.get('max_iter'), tol=spec.get('tol'), fixed_reproduction=bool(spec.get('known_repro')))
            ctx.fail(stream, ksig,
                     dict(spec=spec, how='harness.props.c10.run_real_case(spec)', minimal_reproduction=repro),
                     observed=dict(what=t, exc=res.get('exc'), msg=res.get('msg')), expected=expected,
                     oracle='independent cold fits of the itertools product of the grids (tol 1e-8); coefficient counts; '
                            're-fit of the missing candidate from the previous model\'s coef_ through set_params(force=True)')
    if spec.get('suspected'):
        return
    # ---- oracle first: confirmed failing inputs -----------------------------------------------
    if res['oracle']:
        res2 = _real_worker(spec)       # re-execute once more
        kinds2 = [o['kind'] for o in res2.get('oracle', [])]
        confirmed = [o for o in res['oracle'] if o['kind'] in kinds2]
        if confirmed:
            o = confirmed[0]
            fsig = dict(sig, failure=o['kind'])
            ctx.fail(stream, fsig, case, observed=o, expected=o['kind'] + ' must not happen (property C10)',
                     oracle='itertools product of the grids, independent cold fits (tol 1e-8), min over returned scores')
            return
        ctx.count(stream + ' unconfirmed oracle failure', res['oracle'][0]['kind'])
    # ---- model vs implementation ------------------------------------------------------------------
    mism = []
    if plan[0] == 'bad':
        mism.append('driver: ' + plan[1])
    elif plan[0] == 'error':
        if res['exc'] != plan[1]:
            mism.append('model raises %s (%s), implementation: %s' % (plan[1], plan[2], res['exc'] or 'no exception'))
        else:
            ctx.count(stream + ' rejected as', plan[2])
    else:
        if res['exc'] is not None:
            # keep_best with no finite score is the only modelled exception after planning
            so = parse_search(sout) if sout else {}
            if not (so.get('error') == res['exc']):
                mism.append('implementation raises %s (%s), model plans %d candidates' % (res['exc'], res.get('msg', ''), len(plan[3])))
        else:
            so = parse_search(sout)
            if 'bad' in so or 'error' in so:
                mism.append('model search: %s' % (so,))
            else:
                if prep['left']:
                    mism.append('implementation fitted candidates the model does not list: %d' % len(prep['left']))
                if int(so['nmodels']) != len(res['models']) and res['returned'] == 'scores':
                    mism.append('number of models %d vs model %s' % (len(res['models']), so['nmodels']))
                if (so['ret'] == 'self') != (res['returned'] == 'self'):
                    mism.append('return value: impl %s, model %s' % (res['returned'], so['ret']))
                # resolved objective, observed through the scores
                if res['want_obj'] is not None and so['obj'] != res['want_obj']:
                    mism.append('resolved objective: model %s, expected %s' % (so['obj'], res['want_obj']))
                for md in res['models']:
                    if so['obj'] in md['stats'] and md['stats'][so['obj']] != md['score'] and not math.isnan(md['score']):
                        mism.append('scores are not statistics_[%s]' % so['obj'])
                        break
                # winner / self afterwards
                if spec['keep_best'] and res['models']:
                    cand_models = [m for m in res['models'] if not m['is_self']]
                    if so['best'] == 'self':
                        mkey = res['pre']['key'] if res['pre'] else None
                        mscore = res['pre']['stats'].get(so['obj']) if res['pre'] else None
                    elif so['best'].startswith('c'):
                        a = prep['assign'][int(so['best'][1:])]
                        mkey = cand_models[a]['key'] if a is not None else None
                        mscore = cand_models[a]['score'] if a is not None else None
                    else:
                        mkey, mscore = None, None
                    if mkey != res['self_key'] or mscore != res['self_stats'].get(so['obj']):
                        mism.append('self afterwards: impl key %s score %s, model winner %s key %s score %s' % (
                            res['self_key'], res['self_stats'].get(so['obj']), so['best'], mkey, mscore))
                    ctx.count(stream + ' winner', 'self' if so['best'] == 'self' else 'candidate')
                if not spec['keep_best']:
                    if so['self'] != 'self':
                        mism.append('model changes self with keep_best=False')
                    if res['fitted_after'] != spec['fitted']:
                        mism.append('keep_best=False: fitted before %s, after %s' % (spec['fitted'], res['fitted_after']))
                    if res['pre'] is not None and res['self_key'] != res['pre']['key']:
                        mism.append('keep_best=False changed hyper-parameters of self')
                # evaluation order (evidence only; the property does not fix it)
                order_ok = [a for a in prep['assign'] if a is not None] == sorted(a for a in prep['assign'] if a is not None)
                ctx.count(stream + ' evaluation order as model', order_ok)
                if not spec['return_scores'] and 'twin' in res:
                    if not res['twin'].get('is_self'):
                        mism.append('return_scores=False: model returns self, impl does not')
    if mism:
        ctx.disagree(stream, case, dict(exc=res['exc'], returned=res.get('returned'), n_models=len(res.get('models') or []),
                                        self_key=res.get('self_key')), dict(plan=plan[:3], search=sout), '; '.join(mism))


# ------------------------------------------------------------------------------------------------
# stream 2: scripted fits (real gridsearch, scripted `fit`)
# ------------------------------------------------------------------------------------------------
def make_scripted(pygam):
    class ScriptedGAM(pygam.LinearGAM):
        """LinearGAM whose `fit` follows a script: outcome number k is a dict objective -> score, or None (ValueError)"""
        SCRIPT = dict(outs=None, k=0, calls=[], params=[])

        def fit(self, X, y, weights=None):
            S = ScriptedGAM.SCRIPT
            k = S['k']
            S['k'] = k + 1
            if k >= 0:
                S['calls'].append(read_key(self, S['params'], None))
            out = S['outs'](k)
            if out is None:
                raise ValueError('scripted failure')
            if k < 0:
                # the fit before the search: a real fit (validates and compiles everything), then the scripted labels
                pygam.LinearGAM.fit(self, X, y, weights)
            self.coef_ = np.array([float(k)])
            self.statistics_ = dict(out, n_samples=len(y), m_features=np.asarray(X).shape[1])
            return self
    return ScriptedGAM


SPECIAL_SCORES = [float('inf'), float('-inf'), float('nan'), 0.0, -0.0, 1.0, -1.0, 1e-300, 5e-324, 1.7976931348623157e308]


def script_fn(seed, mode):
    """deterministic outcome for fit call number k (k = -1: the fit before the search)"""
    def outs(k):
        rng = __import__('random').Random('%s-%d' % (seed, k))
        if k >= 0 and mode.get('skip', 0) and rng.random() < mode['skip']:
            return None
        d = {}
        for name in OBJ_NAMES:
            r = rng.random()
            if mode.get('nobest'):
                v = rng.choice([float('nan'), float('inf')])     # nothing compares below the initial best_score = inf
            elif mode.get('special', 0) and r < mode['special']:
                v = rng.choice(SPECIAL_SCORES)
            elif mode.get('ties', 0) and r < mode.get('special', 0) + mode['ties']:
                v = float(rng.choice([1, 2, 3]))          # few distinct values: ties between candidates and with self
            else:
                v = rng.choice([-1, 1]) * 10 ** rng.uniform(-3, 3)
            d[name] = v + (0.0 if (math.isinf(v) or math.isnan(v)) else 0.0)
        return d
    return outs


def gen_scripted_specs(ctx, lits):
    rng = ctx.subrng('scripted')
    n_cases = 500 if ctx.tier == 'quick' else 4000
    specs = []
    VALID_ONLY[0] = True
    for i in range(n_cases):
        want_ns = rng.random() < 0.5
        terms = gen_terms(rng, want_ns, allow_lf=True, max_terms=3)
        grids = gen_grids(rng, terms, lits, rng.choice([4, 8, 16, 30]), allow_bad=True)
        if rng.random() < 0.08:
            grids.append(dict(param=rng.choice(['lamb', 'n_spline', 'coef_', 'distribution', 'link', 'statistics_', 'lams', 'Lam']),
                              desc=dict(kind='1d', values=[1, 2], container='list')))
            rng.shuffle(grids)
        cls = rng.choice(['Scripted', 'Scripted-known'])
        known = KNOWN_SCALE[cls]
        r = rng.random()
        if r < 0.4:
            objective = rng.choice(['auto', None])
        elif r < 0.85:
            objective = rng.choice(['AIC', 'AICc', 'UBRE' if known else 'GCV'])
        else:
            objective = rng.choice(['GCV' if known else 'UBRE', 'BIC', 'ubre', 'Auto'])
        mode = rng.choice([dict(), dict(ties=0.8), dict(skip=0.3), dict(skip=0.3, ties=0.6), dict(special=0.3), dict(skip=1.0),
                           dict(special=1.0), dict(skip=0.5, special=0.5), dict(ties=1.0), dict(nobest=1)])
        specs.append(dict(cls=cls, scale=0.5 if known else None, terms=terms, n=30, d=3, data_seed=3, fitted=rng.random() < 0.5,
                          keep_best=rng.random() < 0.65, return_scores=rng.random() < 0.7, objective=objective, grids=grids,
                          weights=False, exposure=False, tol=1e-4, max_iter=100, script_seed=rng.randrange(10 ** 9), mode=mode))
    # no candidate scores below inf: keep_best must leave self alone (fitted or not), every return_scores / objective
    for k in range(8):
        specs.append(dict(cls='Scripted-known' if k & 4 else 'Scripted', scale=0.5 if k & 4 else None,
                          terms=[dict(kind='s', feature=0, n_splines=6, spline_order=3, lam=0.6)], n=30, d=3, data_seed=3,
                          fitted=False, keep_best=True, return_scores=bool(k & 1), objective='AIC' if k & 2 else 'auto',
                          grids=[dict(param='lam', desc=dict(kind='1d', values=[0.1, 1.0, 10.0][:2 + k % 2], container='list'))],
                          weights=False, exposure=False, tol=1e-4, max_iter=100, script_seed=777 + k, mode=dict(nobest=1)))
    VALID_ONLY[0] = False
    return specs


def run_scripted_case(pygam, Scripted, spec):
    """the implementation side of one scripted case"""
    X, y, w, e = make_data(spec)
    params, want = oracle_candidates(spec)
    S = Scripted.SCRIPT
    S['outs'] = script_fn(spec['script_seed'], spec['mode'])
    S['calls'] = []
    S['params'] = [p for p in params if p in PLURALS or p in SCALARS]
    gam = build_model(pygam, spec, scripted_cls=Scripted)
    res = dict(exc=None)
    res['adm'] = admissible(gam)
    if spec['fitted']:
        S['k'] = -1
        gam.fit(X, y)
    S['k'] = 0
    pre_key = read_key(gam, S['params'], None)
    try:
        out = call_gridsearch(spec, gam, X, y, None, None, spec['return_scores'], grids_kwargs(spec))
    except Exception as ex:   # noqa
        res['exc'] = type(ex).__name__
        res['msg'] = str(ex)[:160]
        res['calls'] = list(S['calls'])
        res['n_calls'] = S['k']
        return res
    res['calls'] = list(S['calls'])            # hyper-parameters at each fit call, in call order
    res['n_calls'] = S['k']
    res['returned'] = 'self' if out is gam else 'scores'
    if out is not gam:
        res['models'] = [(int(m.coef_[0]), float(sc)) for m, sc in out.items()]
        res['self_in_dict'] = [m is gam for m in out.keys()]
    res['self_label'] = int(gam.coef_[0]) if hasattr(gam, 'coef_') else None
    res['self_stats'] = dict(getattr(gam, 'statistics_', {}) or {})
    res['self_key'] = read_key(gam, S['params'], None)
    res['pre_key'] = pre_key
    return res


def run_scripted(ctx, pygam, lits):
    st = 'grid.scripted'
    ctx.stream(st, 'real GAM.gridsearch on a scripted-fit LinearGAM subclass vs model gridsearch: exception class, candidates at '
                   'each fit call (multiset), recorded (model, score) list, winner, self afterwards, return value')
    Scripted = make_scripted(pygam)
    specs = gen_scripted_specs(ctx, lits)
    results = [run_scripted_case(pygam, Scripted, s) for s in specs]
    ops = []
    for spec, res in zip(specs, results):
        known = KNOWN_SCALE[spec['cls']]
        outs_fn = script_fn(spec['script_seed'], spec['mode'])
        # number of outcomes = number of fit calls the implementation made; when it raised, use the oracle's count
        params, want = oracle_candidates(spec)
        n = res.get('n_calls')
        if n is None:
            n = len(want) if want is not None else 0
        # objective the model will use: mirror of the property text (auto -> GCV/UBRE)
        obj = spec['objective'] if spec['objective'] is not None else 'auto'
        robj = ('UBRE' if known else 'GCV') if obj == 'auto' else obj
        outs = []
        for k in range(n):
            o = outs_fn(k)
            outs.append('skip' if o is None else _bits(o.get(robj, float('nan'))))
        ss = '-'
        if spec['fitted']:
            ss = _bits(outs_fn(-1).get(robj, float('nan')))
        op = 'C10 search %s %d %d %s %d %s' % (head_tokens(spec, res['adm']), 1 if spec['keep_best'] else 0,
                                             1 if spec['return_scores'] else 0, ss, len(outs), ' '.join(outs))
        ops.append(' '.join(op.split()))
        ops.append(' '.join(('C10 plan ' + head_tokens(spec, res['adm'])).split()))
    outs = ctx.driver.run(ops)
    for i, (spec, res) in enumerate(zip(specs, results)):
        sout, pout = outs[2 * i], outs[2 * i + 1]
        judge_scripted(ctx, st, spec, res, sout, pout, pygam, Scripted)


def judge_scripted(ctx, st, spec, res, sout, pout, pygam, Scripted):
    known = KNOWN_SCALE[spec['cls']]
    sig = dict(cls=spec['cls'], fitted=spec['fitted'], keep_best=spec['keep_best'], rs=spec['return_scores'],
               objective=str(spec['objective']), shapes=shape_sig(spec), mode=sorted(spec['mode'].items()),
               terms=[t['kind'] for t in spec['terms']], seed=spec['script_seed'] % 1000)
    for g in spec['grids']:
        ctx.count(st + ' grid shape', '%s:%s' % (g['param'], g['desc']['kind']))
    if not spec['grids']:
        ctx.count(st + ' grid shape', 'default')
    ctx.count(st + ' outcome', res['exc'] or 'ok')
    ctx.count(st + ' objective', str(spec['objective']))
    ctx.case(st, sig, nontrivial=True, sample=dict(grids=spec['grids'], objective=spec['objective'], fitted=spec['fitted'], mode=spec['mode']))
    case = dict(spec=spec, how='harness.props.c10.run_scripted_case(pygam, make_scripted(pygam), spec)')
    plan = parse_plan(pout, spec)
    so = parse_search(sout)
    params, want = oracle_candidates(spec)
    outs_fn = script_fn(spec['script_seed'], spec['mode'])
    obj = spec['objective'] if spec['objective'] is not None else 'auto'
    if obj == 'auto':
        robj = 'UBRE' if known else 'GCV'
    elif obj in OBJ_NAMES and not (obj == 'GCV' and known) and not (obj == 'UBRE' and not known):
        robj = obj
    else:
        robj = None
    # ---------------- oracle on the real code (property text) ----------------
    bad = None
    if robj is None:
        if res['exc'] != 'ValueError':
            bad = dict(kind='mismatching / unknown objective not rejected with ValueError', got=res['exc'] or 'accepted')
    elif want is not None and all(p in PLURALS or p in SCALARS for p in params):
        if res['exc'] is not None:
            bad = dict(kind='valid request raised', got=res['exc'], msg=res.get('msg'))
        if res['exc'] is None:
            wk = sorted(json.dumps(key_json(c)) for c in want)
            gk = sorted(json.dumps(key_json(c)) for c in res['calls'])
            if wk != gk:
                bad = dict(kind='fitted candidates are not the Cartesian product of the grids', n_want=len(wk), n_got=len(gk),
                           missing=[k for k in wk if k not in gk][:4], unexpected=[k for k in gk if k not in wk][:4])
            else:
                # recorded scores belong to their fit call; winner is a minimiser
                recorded = {}
                if spec['fitted']:
                    recorded[-1] = outs_fn(-1)[robj]
                for k in range(res['n_calls']):
                    o = outs_fn(k)
                    if o is not None:
                        recorded[k] = o[robj]
                if res['returned'] == 'scores':
                    got = dict(res['models'])
                    if sorted(got.keys()) != sorted(recorded.keys()) and not spec['keep_best']:
                        bad = dict(kind='returned models are not the fitted candidates (+ self)', got=sorted(got), want=sorted(recorded))
                    elif not spec['keep_best']:
                        for k, v in recorded.items():
                            if _bits(got[k]) != _bits(v):
                                bad = dict(kind="a model's recorded score is not its own", call=k, got=got[k], want=v)
                if bad is None and spec['keep_best'] and recorded:
                    vals = [v for v in recorded.values() if not math.isnan(v)]
                    below = [v for v in vals if v < float('inf')] if not spec['fitted'] else vals
                    if below and res['self_label'] is None:
                        bad = dict(kind='keep_best left the model unfitted although candidates with a finite score were fitted')
                    if below and res['self_label'] is not None:
                        mn = min(vals)
                        sl = res['self_label']
                        if sl not in recorded or not (recorded[sl] == mn):
                            # a nan self score can never be improved on by `<`-tracking only if nothing compares below it
                            if not (spec['fitted'] and math.isnan(recorded[-1])):
                                bad = dict(kind='self does not end as a minimiser of the recorded scores', self_call=sl,
                                           self_score=recorded.get(sl), minimum=mn)
                if bad is None and (not spec['keep_best']) and spec['fitted'] and res['self_label'] != -1:
                    bad = dict(kind='keep_best=False changed a fitted model', self_call=res['self_label'])
    if bad is not None:
        res2 = run_scripted_case(pygam, Scripted, spec)
        if res2.get('exc') == res.get('exc') and res2.get('calls') == res.get('calls') and res2.get('self_label') == res.get('self_label'):
            ctx.fail(st, dict(sig, failure=bad['kind']), case, observed=bad, expected=bad['kind'] + ' must not happen (property C10)',
                     oracle='itertools product of the grids; min over the scripted scores')
            return
    # ---------------- model vs implementation ----------------
    mism = []
    if 'bad' in so:
        # the implementation made a number of fit calls that is not the model's number of candidates
        if plan[0] == 'ok':
            mism.append('fit calls %s vs model candidates %d' % (res.get('n_calls'), len(plan[3])))
        else:
            mism.append('driver: %s / %s' % (sout, pout))
    elif 'error' in so:
        if res['exc'] != so['error']:
            mism.append('model raises %s (%s), implementation: %s %s' % (so['error'], so['tag'], res['exc'] or 'no exception', res.get('msg', '')))
        else:
            ctx.count(st + ' rejected as', so['tag'])
    else:
        if res['exc'] is not None:
            mism.append('implementation raises %s (%s), model accepts' % (res['exc'], res.get('msg', '')))
        else:
            # candidates at the fit calls vs the model's candidate list (multiset; order counted as evidence)
            mk = [key_json(c) for c in plan[3]] if plan[0] == 'ok' else None
            ik = [key_json(c) for c in res['calls']]
            if mk is None or sorted(map(json.dumps, mk)) != sorted(map(json.dumps, ik)):
                mism.append('candidate multiset differs: model %d, impl %d' % (len(mk or []), len(ik)))
            else:
                ctx.count(st + ' evaluation order as model', mk == ik)
            ctx.count(st + ' candidates', min(len(ik), 40) // 5 * 5)
            if so['obj'] != robj:
                mism.append('objective: model %s, property %s' % (so['obj'], robj))
            if (so['ret'] == 'self') != (res['returned'] == 'self'):
                mism.append('return value: impl %s, model %s' % (res['returned'], so['ret']))
            if res['returned'] == 'scores' and so['ret'] == 'scores':
                mm = [(-1 if r == 'self' else int(r[1:]), b) for r, b in so['models']]
                im = [(k, _bits(v)) for k, v in res['models']]
                # the dict key `self` is the mutated object: its label is the winner's after keep_best (aliasing);
                # compare by position for self and by label for the candidates
                im2 = []
                for (k, b), is_self in zip(im, res['self_in_dict']):
                    im2.append((-1 if is_self else k, b))
                if sorted(mm) != sorted(im2):
                    mism.append('recorded (model, score) pairs differ: impl %s model %s' % (im2[:6], mm[:6]))
            if int(so['nmodels']) == 0:
                ctx.count(st + ' no models fitted', 1)
            base_label = -1 if spec['fitted'] else None
            if spec['keep_best'] and int(so['nmodels']) > 0:
                want_label = base_label if so['self'] == 'self' else int(so['self'][1:])
                ctx.count(st + ' winner', so['best'] if so['best'] in ('self', 'none') else 'candidate')
                if res['self_label'] != want_label:
                    mism.append('self afterwards holds fit call %s, model %s' % (res['self_label'], so['self']))
                elif want_label is not None and want_label >= 0 and plan[0] == 'ok' and res['calls'][want_label] != res['self_key']:
                    mism.append('self afterwards has hyper-parameters %s, its fit call had %s' % (res['self_key'], res['calls'][want_label]))
                elif so['self'] == 'self' and res['self_key'] != res['pre_key']:
                    mism.append('hyper-parameters of self changed although self is the winner / there is no winner')
            else:
                if res['self_label'] != base_label:
                    mism.append('self must be unchanged, holds fit call %s' % (res['self_label'],))
                if res['self_key'] != res['pre_key']:
                    mism.append('hyper-parameters of self changed without keep_best')
    if mism:
        ctx.disagree(st, case, dict(exc=res['exc'], returned=res.get('returned'), models=res.get('models'), self_label=res.get('self_label')),
                     dict(search=sout[:400], plan=pout[:400]), '; '.join(mism))


# ------------------------------------------------------------------------------------------------
# stream 5: the data check that depends on the state of the model
# ------------------------------------------------------------------------------------------------
def run_data(ctx, pygam):
    st = 'search.data'
    ctx.stream(st, 'gridsearch(X with k columns) on fitted / unfitted models: exception class vs model dataCheck')
    cases = []
    for cls in ('LinearGAM', 'LogisticGAM', 'PoissonGAM'):
        for fitted in (False, True):
            for ncols in (1, 2, 3, 4, 6):
                cases.append((cls, fitted, ncols))
    ops = ['C10 data %d 3 %d' % (1 if f else 0, k) for _, f, k in cases]
    outs = ctx.driver.run(ops)
    for (cls, fitted, ncols), out in zip(cases, outs):
        spec = dict(cls=cls, scale=None, terms=[dict(kind='s', feature=0, n_splines=5, spline_order=3, lam=0.6)], n=50, d=3, data_seed=5,
                    fitted=fitted, keep_best=True, return_scores=True, objective='auto',
                    grids=[dict(param='lam', desc=dict(kind='1d', values=[0.5, 5.0], container='list'))], weights=False, exposure=False,
                    tol=1e-6, max_iter=100)
        X, y, w, e = make_data(spec)
        gam = build_model(pygam, spec)
        if fitted:
            with quiet():
                gam.fit(X, y)
        rs = np.random.RandomState(ncols)
        X2 = X[:, :ncols] if ncols <= 3 else np.hstack([X, rs.rand(X.shape[0], ncols - 3)])
        try:
            call_gridsearch(spec, gam, X2, y, None, None, True, grids_kwargs(spec))
            impl = 'ok'
        except Exception as ex:   # noqa
            impl = type(ex).__name__
        model = out.split(':')[0]
        ctx.count(st + ' outcome', impl)
        ctx.case(st, dict(cls=cls, fitted=fitted, ncols=ncols), nontrivial=(ncols != 3), sample=dict(cls=cls, fitted=fitted, ncols=ncols))
        if impl != model:
            ctx.disagree(st, dict(cls=cls, fitted=fitted, columns=ncols, fitted_on_columns=3), impl, out,
                         'data check differs from the model (a fitted model must reject X with another number of columns)')


# ------------------------------------------------------------------------------------------------
# stream 6: grids over options for which None is a value, and verbose models with infeasible combinations (real code + oracle only)
# ------------------------------------------------------------------------------------------------
OPT_PARAMS = ('n_splines', 'spline_order', 'lam', 'constraints', 'penalties')


def _opt_norm(v):
    if v is None or isinstance(v, str):
        return v
    if isinstance(v, (bool, np.bool_)):
        return bool(v)
    if isinstance(v, (int, np.integer)):
        return int(v)
    if isinstance(v, (float, np.floating)):
        return float(v)
    return str(v)


def opt_model(pygam, spec, over=None):
    """fresh model of an options spec (terms s / l: one slot per term and parameter); `over[param]` = one value per term"""
    over = over or {}
    out = None
    for i, t in enumerate(spec['terms']):
        v = {p: (over[p][i] if p in over else t.get(p)) for p in OPT_PARAMS}
        if t['kind'] == 's':
            term = pygam.s(t['feature'], n_splines=int(v['n_splines']), spline_order=int(v['spline_order']), lam=float(v['lam']),
                           constraints=v['constraints'], penalties=v['penalties'])
        else:
            term = pygam.l(t['feature'], lam=float(v['lam']), penalties=v['penalties'])      # l() takes no constraints
        out = term if out is None else out + term
    kw = dict(tol=1e-8, max_iter=spec.get('max_iter', 300), verbose=bool(spec.get('verbose')))
    return getattr(pygam, spec['cls'])(out, **kw)


def opt_data(spec):
    rs = np.random.RandomState(spec['data_seed'])
    n = spec['n']
    X = rs.rand(n, 2)
    eta = -2.0 * X[:, 0] + np.sin(3.0 * X[:, 1])        # decreasing in feature 0: shape constraints bind
    if spec['cls'] == 'LogisticGAM':
        y = (rs.rand(n) < 1.0 / (1.0 + np.exp(-2.0 * eta - 0.5))).astype(float)
    else:
        y = eta + 0.1 * rs.randn(n)
    return X, y


def opt_grid_values(grid, T):
    """the property text: per-term value tuples requested by one grid (1-D: the value for all terms alike; list with a list
    inside: one entry per term, Cartesian product), or None when the grid is neither"""
    if not isinstance(grid, list) or not grid:
        return None
    if not any(isinstance(g, list) for g in grid):
        return [tuple([_opt_norm(g)] * T) for g in grid] if len(grid) >= 2 else None
    if len(grid) != T:
        return None
    return [tuple(_opt_norm(v) for v in c) for c in itertools.product(*[g if isinstance(g, list) else [g] for g in grid])]


def opt_read(m, params):
    return [[_opt_norm(v) for v in _flat(getattr(m, p))] for p in params]


def gen_option_specs():
    """fixed list (no draw decides): (a) grids containing None over constraints / penalties, 1-D and per-term forms, alone and jointly,
    from models whose own setting is not None; (b) verbose=True models, fitted and not, with grids that contain combinations
    that cannot be fitted"""
    def S(f, **kw):
        return dict(dict(kind='s', feature=f, n_splines=10, spline_order=3, lam=0.6, constraints=None, penalties='auto'), **kw)

    def L(f, **kw):
        return dict(dict(kind='l', feature=f, n_splines=None, spline_order=None, lam=0.6, constraints=None, penalties='auto'), **kw)
    inc, dec, cvx, ccv = 'monotonic_inc', 'monotonic_dec', 'convex', 'concave'
    C = []

    def add(cls, terms, grids, fitted, keep_best, verbose=False):
        C.append(dict(cls=cls, terms=terms, grids=grids, fitted=fitted, keep_best=keep_best, verbose=verbose, n=200,
                      data_seed=4100 + len(C)))
    # (a) None is a candidate value
    add('LinearGAM', [S(0, constraints=inc), S(1)], [['constraints', [None, inc]]], False, True)
    add('LinearGAM', [S(0, constraints=inc), S(1, constraints=ccv)], [['constraints', [dec, None, cvx]]], True, False)
    add('LinearGAM', [S(0, penalties='derivative'), S(1, penalties='l2')], [['penalties', [None, 'auto']]], False, True)
    add('LinearGAM', [S(0, penalties='derivative'), S(1, penalties='l2')], [['penalties', [[None, 'auto'], ['l2']]]], True, True)
    add('LinearGAM', [S(0, constraints=inc), S(1, constraints=ccv)], [['constraints', [[None, inc], None]]], False, True)
    add('LinearGAM', [S(0, constraints=inc), S(1, constraints=ccv)], [['constraints', [None, dec]], ['lam', [0.1, 10.0]]], True, True)
    add('LinearGAM', [S(0, constraints=inc, penalties='l2'), S(1, penalties='l2')],
        [['penalties', ['auto', None]], ['constraints', [dec, None]]], False, True, verbose=True)
    add('LinearGAM', [S(0, penalties='derivative'), L(1, penalties='l2')], [['penalties', ['auto', None]]], True, True)
    add('LogisticGAM', [S(0, constraints=inc), S(1, penalties='l2')], [['constraints', [None, dec]]], False, True)
    add('LogisticGAM', [S(0, penalties='l2'), S(1, penalties='l2')], [['penalties', [[None, 'derivative'], [None, 'l2']]]], True, False)
    # (b) verbose models, grids with combinations that cannot be fitted (n_splines <= spline_order)
    two = [S(0, n_splines=20), S(1, n_splines=20)]
    for fitted in (True, False):
        add('LinearGAM', two, [['n_splines', [4, 12]], ['spline_order', [3, 5]]], fitted, True, verbose=True)
    add('LinearGAM', two, [['spline_order', [3, 5]], ['n_splines', [4, 12]]], True, False, verbose=True)
    add('LinearGAM', [S(0, spline_order=2), S(1, spline_order=2)], [['n_splines', [3, 5, 9]], ['spline_order', [2, 4]], ['lam', [0.3, 3.0]]],
        True, True, verbose=True)
    add('LogisticGAM', two, [['n_splines', [[4, 8], [6]]], ['spline_order', [3, 5]]], True, True, verbose=True)
    add('LogisticGAM', two, [['lam', [0.5, 5.0]], ['spline_order', [1, 4]], ['n_splines', [4, 7]]], False, True, verbose=True)
    add('LinearGAM', two, [['n_splines', [4, 12]], ['spline_order', [3, 5]]], True, True, verbose=False)
    return C


def run_option_case(spec):
    """implementation run + property oracle; everything returned is json-able"""
    import warnings
    pygam = common.import_pygam()
    X, y = opt_data(spec)
    robj = 'UBRE' if spec['cls'] == 'LogisticGAM' else 'GCV'
    params = [g[0] for g in spec['grids']]
    T = len(spec['terms'])
    res = dict(oracle=[], notes={})
    orc = res['oracle']

    def fit(m):
        with warnings.catch_warnings():
            warnings.simplefilter('ignore')
            with quiet():
                m.fit(X, y)
        return m

    def cold(over):
        """independent fit -> (score, converged) or None when these hyper-parameters cannot be fitted"""
        try:
            c = fit(opt_model(pygam, spec, over))
        except ValueError:
            return None
        return float(c.statistics_[robj]), converged(c)

    per = [opt_grid_values(g[1], T) for g in spec['grids']]
    assert all(v is not None for v in per), spec
    want = [list(c) for c in itertools.product(*per)]
    gam = opt_model(pygam, spec)
    pre = None
    if spec['fitted']:
        fit(gam)
        pre = dict(key=opt_read(gam, params), score=float(gam.statistics_[robj]), coef=[_bits(v) for v in gam.coef_])
    kw = dict(return_scores=True, keep_best=spec['keep_best'], progress=False)
    for p, g in spec['grids']:
        kw[p] = json.loads(json.dumps(g))
    try:
        with warnings.catch_warnings(record=True) as wl:
            warnings.simplefilter('always')
            with quiet():
                out = gam.gridsearch(X, y, **kw)
        res['n_warnings'] = len(wl)
    except Exception as ex:      # noqa
        orc.append(dict(kind='valid request raised', got=type(ex).__name__, msg=str(ex)[:200]))
        return res
    if out is gam or not hasattr(out, 'items'):
        orc.append(dict(kind='return_scores=True did not return the dict of models'))
        return res
    items = list(out.items())
    # the requested candidates, fitted independently
    start = {p: [t.get(p) for t in spec['terms']] for p in ('n_splines', 'spline_order')}

    def seq_invalid(cand):
        """feasible candidate that is infeasible half-way when the parameters are set one after the other in keyword order
        (known finding C10-joint-grid-sequential-validation: skipped; not judged here)"""
        cur = {p: list(v) for p, v in start.items()}
        for p, part in zip(params, cand):
            if p in cur:
                cur[p] = list(part)
                if any(a is not None and b is not None and a <= b for a, b in zip(cur['n_splines'], cur['spline_order'])):
                    return True
        return False
    feasible, tolerated = {}, set()
    for cand in want:
        c = cold({p: list(part) for p, part in zip(params, cand)})
        k = json.dumps([list(part) for part in cand])
        if c is not None:
            feasible[k] = c
            if seq_invalid(cand):
                tolerated.add(k)
    res['n_want'], res['n_feasible'], res['n_tolerated'] = len(want), len(feasible), len(tolerated)
    thr = SCORE_RTOL * FAIL_MARGIN
    gotkeys = []
    worst = 0.0
    selfs = [i for i, (m, _) in enumerate(items) if m is gam]
    if spec['fitted']:
        if len(selfs) != 1:
            orc.append(dict(kind='the fitted starting model is not among the returned models exactly once', n=len(selfs)))
        elif float(items[selfs[0]][1]) != pre['score']:
            orc.append(dict(kind='score of the fitted starting model is not its objective before the call', got=float(items[selfs[0]][1]), want=pre['score']))
    elif selfs:
        orc.append(dict(kind='the unfitted starting model is among the returned models'))
    for i, (m, sc) in enumerate(items):
        if m is gam:
            continue
        k = json.dumps(opt_read(m, params))
        gotkeys.append(k)
        try:
            sc = float(sc)
            own = float(m.statistics_[robj])
        except Exception as ex:      # noqa
            orc.append(dict(kind='returned model has no objective value', key=k, got=type(ex).__name__))
            break
        if sc != own and not (sc != sc and own != own):
            orc.append(dict(kind='score is not statistics_[objective] of its model', key=k, score=sc, own=own))
            break
        if k not in [json.dumps([list(p) for p in c]) for c in want]:
            orc.append(dict(kind='returned model is not a point of the requested grid', key=k, params=params, score=sc))
            break
        # every returned model can be refitted independently, from ALL the hyper-parameters it carries, to the same score
        allp = dict(zip(OPT_PARAMS, opt_read(m, OPT_PARAMS)))
        if any(len(v) != T for v in allp.values()):
            orc.append(dict(kind='returned model does not carry one value per term', key=k, carried=allp))
            break
        c = cold(allp)
        if c is None:
            orc.append(dict(kind='returned model carries hyper-parameters that cannot be fitted independently', key=k, carried=allp, score=sc))
            break
        untouched = {p: allp[p] for p in OPT_PARAMS if p not in params and allp[p] != [t.get(p) for t in spec['terms']]}
        if untouched:
            orc.append(dict(kind='candidate differs from the starting model in a parameter that is not in the grid', key=k, differs=untouched))
            break
        if not (np.isfinite(c[0]) and (c[1] or converged(m))):
            res['notes']['not comparable (no fit converged / not finite)'] = res['notes'].get('not comparable (no fit converged / not finite)', 0) + 1
            continue
        err = 0.0 if sc == c[0] else abs(sc - c[0]) / max(abs(c[0]), 1e-300)
        if not err <= thr:
            orc.append(dict(kind='candidate score differs from an independent cold fit', key=k, in_search=sc, cold=c[0], rel=err, thr=thr,
                            in_search_converged=converged(m), cold_converged=c[1]))
            break
        worst = max(worst, err)
    res['worst_score_err'] = worst
    if not orc:
        missing = [k for k in feasible if k not in gotkeys and k not in tolerated]
        extra = list(gotkeys)
        for k in feasible:
            if k in extra:
                extra.remove(k)
        if missing or extra:
            orc.append(dict(kind='fitted candidates are not the Cartesian product of the grids', params=params, missing=missing[:5],
                            unexpected=extra[:5], n_feasible=len(feasible), n_got=len(gotkeys)))
    if not orc and spec['keep_best'] and items:
        # the model ends as an entry attaining the minimum score
        scores = [float(sc) for _, sc in items]
        keys = [pre['key'] if m is gam else opt_read(m, params) for m, _ in items]
        lo = min(scores)
        try:
            end = float(gam.statistics_[robj])
            endkey = opt_read(gam, params)
        except Exception as ex:      # noqa
            end, endkey = None, type(ex).__name__
        if end != lo or endkey not in [k for k, sc in zip(keys, scores) if sc == lo]:
            orc.append(dict(kind='keep_best: the model does not end as a returned entry attaining the minimum score', end_score=end,
                            end_key=endkey, min_score=lo, entries=[[k, sc] for k, sc in zip(keys, scores)][:8]))
    if not orc and not spec['keep_best'] and spec['fitted']:
        if [_bits(v) for v in gam.coef_] != pre['coef'] or opt_read(gam, params) != pre['key']:
            orc.append(dict(kind='keep_best=False changed the fitted model'))
    return res


def _option_worker(spec):
    try:
        return run_option_case(spec)
    except Exception:      # noqa
        import traceback
        return dict(harness_error=traceback.format_exc())


def option_sig(spec):
    return dict(cls=spec['cls'], terms=''.join(t['kind'] for t in spec['terms']), grids=[[p, json.dumps(g)] for p, g in spec['grids']],
                fitted=spec['fitted'], keep_best=spec['keep_best'], verbose=spec['verbose'],
                start=[[t.get('constraints'), t.get('penalties'), t.get('n_splines'), t.get('spline_order')] for t in spec['terms']])


def judge_option(ctx, st, spec, res):
    if 'harness_error' in res:
        raise RuntimeError('worker failed on %r\n%s' % (spec, res['harness_error']))
    sig = option_sig(spec)
    ctx.case(st, sig, nontrivial=True, sample=sig)
    for k in ('n_tolerated',):
        if res.get(k):
            ctx.count(st + ' feasible candidates invalid half-way (known finding, not judged)', res[k])
    for k, v in res.get('notes', {}).items():
        ctx.count(st + ' ' + k, 1, v)
    if 'worst_score_err' in res:
        ctx.count(st + ' worst relative score error', '%.0e' % res['worst_score_err'] if res['worst_score_err'] else '0')
    if res['oracle']:
        o = res['oracle'][0]
        ctx.fail(st, dict(sig, failure=o['kind']), dict(spec=spec, how='harness.props.c10.run_option_case(spec)'), observed=o,
                 expected=o['kind'] + ' must not happen (property C10)',
                 oracle='itertools product of the grids over the per-term values (None is a value); independent cold fits from the '
                        'hyper-parameters every returned model carries')


def run_options(ctx):
    st = 'search.options'
    ctx.stream(st, 'real gridsearch over options for which None is a value (constraints, penalties; 1-D and per-term grids, alone and '
                   'jointly) from models whose own setting is not None, and from verbose=True models (fitted / unfitted) over grids that '
                   'contain combinations that cannot be fitted; oracle: the returned models are exactly the feasible points of the '
                   'itertools product, each refitted independently from the hyper-parameters it carries to the same score; self entry; keep_best')
    specs = gen_option_specs()
    import multiprocessing as mp
    with mp.Pool(int(os.environ.get('VERIF_PROCS', '12'))) as pool:
        results = pool.map(_option_worker, specs, chunksize=1)
    for spec, res in zip(specs, results):
        judge_option(ctx, st, spec, res)


# ------------------------------------------------------------------------------------------------
def run(ctx):
    pygam = common.import_pygam()
    lits = harvest_literals(pygam)
    ctx.extra['literals'] = lits
    ctx.extra['rule'] = ('combine: random grid lists incl. empty grids; scripted: random model (1-3 terms s/te/l/f) x grid shapes '
                         '(1-D list/tuple/array, 2-D array, nested list/tuple/arrays, mixed, rejected shapes, unknown names, default) x '
                         'objective x fitted x keep_best x return_scores x score script (ties / skips / inf / nan); real: the same with '
                         'real fits over 5 class kinds; optimiser: class kind x max_iter (1, 2, 3 ... 200) x tol x fitted, max_iter / tol '
                         'also as grid dimensions, grid as given and reversed, every candidate vs an independent cold fit with the '
                         'same settings (score and coefficients, converged or not); weights: class kind x weight pattern (exact zeros '
                         'at random rows / counts / a range / most rows / one row, tiny, scaled, ones, fractional, heavy) in every run; '
                         'distinct = distinct (stream, configuration signature); trivial = default grid, '
                         "objective auto, unfitted, keep_best (the library's own defaults)")
    ctx.partial.append('score_independent_partial: "each candidate\'s score equals the objective of an independently fitted model" is a '
                       'statement about fit (C01), checked against cold fits on the real code, proved in the model only as '
                       '"a recorded score is the candidate\'s own fit outcome"')
    ctx.partial.append('score_independent / known finding C10-warm-start-converges-cold-does-not: recorded as known is exactly the pattern '
                       '"the candidate converged (last diff < tol) inside the search from the previous model\'s coefficients, the '
                       'independent cold fit with identical hyper-parameters incl. max_iter / tol did not converge, and score or '
                       'coefficients differ beyond the flat tolerance (1e-6 / 1e-5, x10 margin)"; a fixed reproduction runs in every run, '
                       'the first three occurrences are reported, the others counted.  Every other combination (both converged, neither '
                       'converged, cold converged but candidate not, non-finite values in the candidate) is a failing input when it differs')
    ctx.assumptions.append('fit outcomes are parameters of the search model (ValueError or (content, score)); IEEE comparison of scores '
                           '(nan, inf) is executed with Lean Float in the driver, the theorems are over a linear order')
    run_combine(ctx, pygam, lits)
    run_scripted(ctx, pygam, lits)
    run_data(ctx, pygam)
    run_options(ctx)
    run_real(ctx, pygam, lits)
    if os.environ.get('C10_DEBUG'):
        json.dump(dict(failing=ctx.failing, broken=ctx.broken), open(os.environ['C10_DEBUG'], 'w'), indent=1, default=str)


def replay(ctx, rp):
    """re-execute the single case of a replay file on the current tree"""
    pygam = common.import_pygam()
    lits = harvest_literals(pygam)
    case = rp.get('case') or {}
    spec = case.get('spec')
    st = rp.get('stream')
    if spec is not None and st == 'search.options':
        ctx.stream(st, 'replay')
        return judge_option(ctx, st, spec, _option_worker(spec))
    if spec is None or st not in ('grid.scripted', 'search.real', 'objective.table', 'search.optimiser', 'search.otherdata', 'search.weights'):
        return run(ctx)
    ctx.stream(st, 'replay')
    if st == 'grid.scripted':
        Scripted = make_scripted(pygam)
        res = run_scripted_case(pygam, Scripted, spec)
        outs_fn = script_fn(spec['script_seed'], spec['mode'])
        known = KNOWN_SCALE[spec['cls']]
        params, want = oracle_candidates(spec)
        n = res.get('n_calls')
        if n is None:
            n = len(want) if want is not None else 0
        obj = spec['objective'] if spec['objective'] is not None else 'auto'
        robj = ('UBRE' if known else 'GCV') if obj == 'auto' else obj
        outs = ['skip' if outs_fn(k) is None else _bits(outs_fn(k).get(robj, float('nan'))) for k in range(n)]
        ss = _bits(outs_fn(-1).get(robj, float('nan'))) if spec['fitted'] else '-'
        op = 'C10 search %s %d %d %s %d %s' % (head_tokens(spec, res['adm']), 1 if spec['keep_best'] else 0,
                                             1 if spec['return_scores'] else 0, ss, len(outs), ' '.join(outs))
        o = ctx.driver.run([' '.join(op.split()), ' '.join(('C10 plan ' + head_tokens(spec, res['adm'])).split())])
        judge_scripted(ctx, st, spec, res, o[0], o[1], pygam, Scripted)
    else:
        adm = admissible(build_model(pygam, spec))
        pout = ctx.driver.run([' '.join(('C10 plan ' + head_tokens(spec, adm)).split())])[0]
        res = _real_worker(spec)
        if 'harness_error' in res:
            raise RuntimeError(res['harness_error'])
        plan = parse_plan(pout, spec)
        prep = dict(plan=plan, op=None, assign=None, left=None)
        sout = None
        if plan[0] == 'ok' and res.get('exc') is None and res.get('models') is not None:
            cand_models = [m for m in res['models'] if not m['is_self']]
            assign, left = match_candidates(plan[3], [key_from_json(m['key']) for m in cand_models])
            prep['assign'], prep['left'] = assign, left
            outs = ['skip' if a is None else _bits(cand_models[a]['score']) for a in assign]
            ss = '-'
            sm = [m for m in res['models'] if m['is_self']]
            if spec['fitted'] and sm:
                ss = _bits(sm[0]['score'])
            prep['op'] = 'C10 search %s %d %d %s %d %s' % (head_tokens(spec, adm), 1 if spec['keep_best'] else 0, 1, ss, len(outs), ' '.join(outs))
            sout = ctx.driver.run([' '.join(prep['op'].split())])[0]
        judge_real(ctx, st, spec, res, prep, sout)
