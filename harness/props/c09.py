"""
C09 — confidence and prediction intervals are the stated quantiles on the link scale.

Theorems: lean/PyGam/Props/C09.lean about `getQuantiles` (= GAM._get_quantiles) and its three wrappers
(Model/Intervals.lean): width <-> quantiles, the rejection rule, the bound formula with the reference distribution
(normal if the scale is known, Student-t with n - edof degrees of freedom otherwise), order / bracketing / nesting /
containment under the SciPy quantile contract (strictly increasing, antisymmetric) and an increasing inverse link,
partial dependence = the same rule on the term's own coefficient block.

Correspondence (Float instance of the same definitions, run by the driver, `C09 iv|chk|qw|ref`): real fits of every
model class (LinearGAM with / without known scale, LogisticGAM, PoissonGAM, GammaGAM, InvGaussGAM with / without
known scale, ExpectileGAM, generic GAM with a 3-trial binomial, generic GAMs with non-canonical links) x term mixes
(spline / linear / factor / tensor / by-variable / cyclic / no intercept).  The harness exports coef_, statistics_['cov'],
['edof'], ['scale'], ['n_samples'], the model-matrix rows (gam.terms.build_columns) and the SciPy quantiles *requested by
the model* (the driver says which distribution and which df); the driver recomputes every bound; compared with
  iv.ci      confidence_intervals(X, width | quantiles)
  iv.pi      LinearGAM.prediction_intervals(X, width | quantiles)
  iv.pd      partial_dependence(term, X, width | quantiles [, meshgrid])      (point values and intervals)
  iv.width   confidence_intervals(width=w) is bit-identical to quantiles = the model's two levels for w
  iv.reject  exception classes for invalid / boundary widths and quantile lists through all three entry points
on X including extrapolation.  scipy.ppf-contract validates the two hypotheses about SciPy on a grid.

Oracle on the real code (NumPy / SciPy only): direct recomputation of every bound from the exported statistics (full
zero-padded rows for partial dependence), order in q, bracketing of predict_mu / the partial dependence, nesting in the
width, prediction interval contains the confidence interval, must-reject for levels outside (0, 1).
"""
import ast
import inspect
import math
import textwrap
from fractions import Fraction

import numpy as np
import scipy as sp
import scipy.stats

from harness import common
from harness.common import f2bits, bits2f

EPS = 2.0 ** -52
MAX_FAILS = 10

# label -> (constructor name, constructor kwargs, family, link, known scale?, increasing link of a named class?)
LABELS = {
    'LinearGAM': ('LinearGAM', {}, 'normal', 'identity', False),
    'LinearGAM.known': ('LinearGAM', {'scale': 0.0625}, 'normal', 'identity', True),
    'LogisticGAM': ('LogisticGAM', {}, 'binomial', 'logit', True),
    'PoissonGAM': ('PoissonGAM', {}, 'poisson', 'log', True),
    'GammaGAM': ('GammaGAM', {}, 'gamma', 'log', False),
    'GammaGAM.known': ('GammaGAM', {'scale': 0.2}, 'gamma', 'log', True),
    'InvGaussGAM': ('InvGaussGAM', {}, 'inv_gauss', 'log', False),
    'InvGaussGAM.known': ('InvGaussGAM', {'scale': 0.05}, 'inv_gauss', 'log', True),
    'ExpectileGAM.5': ('ExpectileGAM', {'expectile': 0.5}, 'normal', 'identity', False),
    'ExpectileGAM.8.known': ('ExpectileGAM', {'expectile': 0.8, 'scale': 0.1}, 'normal', 'identity', True),
    'GAM/binomial3/logit': ('GAM', {'distribution': 'binomial3', 'link': 'logit'}, 'binomial', 'logit', True),
    'GAM/gamma/inverse': ('GAM', {'distribution': 'gamma', 'link': 'inverse'}, 'gamma', 'inverse', False),
    'GAM/normal/log': ('GAM', {'distribution': 'normal', 'link': 'log'}, 'normal', 'log', False),
    # only in the scale-event histories (the distribution parameter is replaced between fits)
    'GAM/normal/identity': ('GAM', {'distribution': 'normal', 'link': 'identity'}, 'normal', 'identity', False),
}
EVENT_ONLY = {'GAM/normal/identity'}
INCREASING = {'identity', 'log', 'logit'}
MIXES = ['s0', 's0+l1', 's0+f2', 's0+s1by3', 'te01', 'te0f2+l1', 'te01by3+s0', 'cp0+f2d', 's0o1+s1o2', 'l0+l1', 'f2']
QUICK_MIX = {'LinearGAM': MIXES, 'LinearGAM.known': MIXES}


# ------------------------------------------------------------------------------------------------
# model construction / data
# ------------------------------------------------------------------------------------------------
def make_terms(P, mix, lam, ns):
    s, l, f, te = P.s, P.l, P.f, P.te
    if mix == 's0':
        return s(0, n_splines=ns, lam=lam)
    if mix == 's0+l1':
        return s(0, n_splines=ns, lam=lam) + l(1, lam=lam)
    if mix == 's0+f2':
        return s(0, n_splines=ns, lam=lam) + f(2, lam=lam)
    if mix == 's0+s1by3':
        return s(0, n_splines=ns, lam=lam) + s(1, n_splines=5, by=3, lam=lam)
    if mix == 'te01':
        return te(0, 1, n_splines=4, lam=lam)
    if mix == 'te0f2+l1':
        return te(s(0, n_splines=4, lam=lam), f(2, lam=lam)) + l(1)
    if mix == 'te01by3+s0':
        return te(0, 1, n_splines=[4, 3], spline_order=[3, 2], by=3, lam=lam) + s(0, n_splines=ns, lam=lam)
    if mix == 'cp0+f2d':
        return s(0, n_splines=ns, basis='cp', lam=lam) + f(2, coding='dummy', lam=lam)
    if mix == 's0o1+s1o2':
        return s(0, n_splines=ns, spline_order=1, lam=lam) + s(1, n_splines=ns + 1, spline_order=2, lam=lam)
    if mix == 'l0+l1':
        return l(0, lam=lam) + l(1, lam=lam)
    if mix == 'f2':
        return f(2, lam=lam)
    raise ValueError(mix)


def make_cfg(seed, idx, label, mix, tier):
    rng = common.random.Random('C09-cfg-%d-%d' % (seed, idx))
    return dict(idx=idx, seed=seed, label=label, mix=mix,
                n=rng.choice([16, 30, 45, 80] if tier == 'quick' else [16, 24, 30, 45, 80, 150]),
                lam=rng.choice([0.6, 0.6, 0.01, 10.0, 100.0, 2.5]),
                ns=rng.choice([5, 6, 8, 10]),
                fit_intercept=rng.random() < 0.8,
                nq=rng.choice([6, 9, 12]))


def gen_data(cfg):
    rs = np.random.RandomState(common.random.Random('C09-data-%d-%d' % (cfg['seed'], cfg['idx'])).randrange(2 ** 31))
    n = cfg['n']
    X = np.c_[rs.uniform(0, 1, n), rs.uniform(-2, 2, n), rs.randint(0, 4, n).astype(float),
              rs.choice([-1.0, 0.5, 1.0, 2.0, 0.0], n)]
    X[:4, 2] = [0, 1, 2, 3]
    X[0, 0], X[1, 0] = 0.0, 1.0
    X[0, 1], X[1, 1] = -2.0, 2.0
    eta = 0.8 * np.sin(3 * X[:, 0]) + 0.25 * X[:, 1] + 0.3 * (X[:, 2] == 1) - 0.2 * (X[:, 2] == 3) + 0.1 * X[:, 3] * X[:, 1]
    fam, link = LABELS[cfg['label']][2], LABELS[cfg['label']][3]
    if fam == 'normal' and link == 'identity':
        # identity link: the response may be recorded in any unit (grams instead of kilograms: values beyond +-709, the
        # overflow threshold of exp; nanometres: 1e-6) — the bounds are lp +- z se on that scale, whatever it is
        y = (eta + rs.normal(0, 0.25, n)) * [1.0, 3000.0, 1.0, 1e-6][cfg['idx'] % 4]
    elif fam == 'normal':            # log link: positive targets
        y = np.exp(0.5 * eta) + np.abs(rs.normal(0, 0.1, n)) + 0.2
    elif fam == 'binomial':
        levels = 3 if 'binomial3' in cfg['label'] else 1
        y = rs.binomial(levels, 1 / (1 + np.exp(-1.5 * eta))).astype(float)
    elif fam == 'poisson':
        y = rs.poisson(np.exp(1.0 + eta)).astype(float)
    elif fam == 'gamma':
        y = np.exp(eta) * rs.gamma(6.0, 1 / 6.0, n) + 0.5
    else:
        y = np.exp(0.5 * eta) * rs.gamma(10.0, 1 / 10.0, n) + 0.5
    # query points: training rows, interior points, extrapolation beyond both ends, other by-values
    nq = cfg['nq']
    Xq = X[rs.randint(0, n, nq)].copy()
    for i in range(nq):
        u = rs.uniform()
        if u < 0.35:
            Xq[i, 0] = rs.choice([-0.5, -0.0625, 1.03125, 1.75, 3.0])
        elif u < 0.7:
            Xq[i, 0] = rs.randint(0, 257) / 256.0
        u = rs.uniform()
        if u < 0.35:
            Xq[i, 1] = rs.choice([-5.0, -2.25, 2.5, 7.0])
        elif u < 0.7:
            Xq[i, 1] = -2 + 4 * rs.randint(0, 257) / 256.0
        Xq[i, 3] = rs.choice([-3.0, -1.0, 0.0, 0.5, 1.0, 2.0, 10.0])
    return X, y, Xq


def fit_model(P, cfg):
    ctor, kw, fam, link, known = LABELS[cfg['label']]
    kw = dict(kw)
    if kw.get('distribution') == 'binomial3':
        from pygam.distributions import BinomialDist
        kw['distribution'] = BinomialDist(levels=3)
    X, y, Xq = gen_data(cfg)
    terms = make_terms(P, cfg['mix'], cfg['lam'], cfg['ns'])
    gam = getattr(P, ctor)(terms, fit_intercept=cfg['fit_intercept'], max_iter=200, tol=1e-6, **kw)
    gam.fit(X, y)
    return gam, X, y, Xq


def link_inv(link, levels, x):
    with np.errstate(all='ignore'):
        x = np.asarray(x, dtype=float)
        if link == 'identity':
            return x
        if link == 'log':
            return np.exp(x)
        if link == 'logit':
            e = np.exp(x)
            return levels * e / (e + 1)
        if link == 'inverse':
            return 1.0 / x
        return x ** -0.5


class Fit:
    """everything read from the public surface of one fitted model"""

    def __init__(self, gam, cfg):
        ctor, kw, fam, link, known = LABELS[cfg['label']]
        self.gam = gam
        self.cfg = cfg
        self.link = link
        # "the scale is known" is a statement about what the USER asked for in the fit that produced these statistics: the
        # public `scale` parameter of the classes that have one (never the distribution object's private bookkeeping, which
        # is exactly the state that can go stale between two fits); for the generic GAM the harness says what it passed
        if 'known' in cfg:
            known = bool(cfg['known'])
        elif 'scale' in gam.get_params():
            known = gam.get_params()['scale'] is not None
        self.known = known
        self.levels = float(getattr(gam.distribution, 'levels', 1) or 1) if fam == 'binomial' else 1.0
        self.coef = np.asarray(gam.coef_, dtype=float).copy()
        self.cov = np.asarray(gam.statistics_['cov'], dtype=float).copy()
        self.edof = float(gam.statistics_['edof'])
        self.scale = float(gam.statistics_['scale'])
        if 'scale' in gam.get_params() and gam.get_params()['scale'] is not None:
            self.scale = float(gam.get_params()['scale'])        # a supplied scale IS the scale (prediction intervals add it)
        self.n = float(gam.statistics_['n_samples'])
        self.m = len(self.coef)
        self.blocks = {}
        for i, t in enumerate(gam.terms):
            idx = list(gam.terms.get_coef_indices(i))
            self.blocks[i] = (idx[0], len(idx)) if idx == list(range(idx[0], idx[0] + len(idx))) else None
        self.finite = bool(np.isfinite(self.coef).all() and np.isfinite(self.cov).all()
                           and np.isfinite([self.edof, self.scale]).all())

    def head(self, mode, start, ln):
        return ['C09', 'iv', mode, self.link, f2bits(self.levels), f2bits(self.scale), '1' if self.known else '0',
                f2bits(self.n), f2bits(self.edof), str(self.m), str(start), str(ln)]

    def tail(self, rows):
        toks = [f2bits(v) for v in self.coef] + [f2bits(v) for v in self.cov.ravel()]
        toks.append(str(rows.shape[0]))
        toks += [f2bits(v) for v in rows.ravel()]
        return toks


def float_levels(width):
    """the two levels as the code computes them (IEEE)"""
    alpha = (1 - width) / 2.0
    return [alpha, 1 - alpha]


def zvalue(ref, q):
    """the SciPy quantile the model asks for — called exactly as pyGAM calls it"""
    with np.errstate(all='ignore'):
        if ref[0] == 'norm':
            return float(sp.stats.norm.ppf(q))
        return float(sp.stats.t.ppf(q, df=ref[1]))


def dense_rows(gam, X, term=-1):
    M = gam.terms.build_columns(np.asarray(X, dtype=float), term=term)
    return np.asarray(M.todense() if hasattr(M, 'todense') else M, dtype=float)


# ------------------------------------------------------------------------------------------------
# oracle: NumPy recomputation of one call
# ------------------------------------------------------------------------------------------------
def oracle_bounds(fit, mode, term, Xq, levels):
    """(bounds, tolerance, point) from the exported statistics with plain NumPy.  For partial dependence the rule is
    applied to the FULL model-matrix row with every column outside the term's block zeroed (pdep_uses_own_block)."""
    M = dense_rows(fit.gam, Xq)
    if mode == 'pd':
        start, ln = fit.blocks[term]
        Z = np.zeros_like(M)
        Z[:, start:start + ln] = M[:, start:start + ln]
        M = Z
    df = fit.n - fit.edof
    ref = ('norm',) if fit.known else ('t', df)
    z = np.array([zvalue(ref, q) for q in levels])
    with np.errstate(all='ignore'):
        lp = M @ fit.coef
        T = np.einsum('ij,jk,ik->ijk', M, fit.cov, M)
        var = T.sum(axis=(1, 2))
        mag = np.abs(T).sum(axis=(1, 2))
        lpmag = np.abs(M * fit.coef[None, :]).sum(axis=1)
        if mode == 'pi':
            var = var + fit.scale
            mag = mag + abs(fit.scale)
        sd = np.sqrt(var)
        # rounding of the quadratic form (cancellation between large covariance entries) propagated to the sd
        dsd = np.where(var > 0, 0.5 * mag / np.where(var > 0, sd, 1.0), np.where(mag > 0, np.inf, 0.0)) * 16 * fit.m * EPS
        line = lp[:, None] + z[None, :] * sd[:, None]
        tl = 1e-9 * (np.abs(lp)[:, None] + np.abs(z)[None, :] * sd[:, None]) \
            + 16 * fit.m * EPS * lpmag[:, None] + np.abs(z)[None, :] * dsd[:, None]
        if mode == 'pd':
            b, tol = line, tl
        else:
            b = link_inv(fit.link, fit.levels, line)
            tol = np.abs(link_inv(fit.link, fit.levels, line + tl) - link_inv(fit.link, fit.levels, line - tl)) \
                + 1e-9 * np.abs(b)
        noisy = (mag > 0) & ~(var > 4 * 16 * fit.m * EPS * mag)       # variance not resolved above its own rounding
        tol = np.where(noisy[:, None] & (np.abs(z)[None, :] > 0), np.inf, tol)
        tol = np.where(np.isnan(tol), np.inf, tol)
        point = lp if mode == 'pd' else link_inv(fit.link, fit.levels, lp)
        ptol = 1e-9 * np.abs(point) + 16 * fit.m * EPS * lpmag * (1 if mode == 'pd' else np.maximum(1, np.abs(point)))
    return b, tol, point, ptol, dict(kappa=float(np.nanmax(mag / np.where(var > 0, var, np.nan))) if np.any(var > 0) else float('inf'),
                                     noisy=int(noisy.sum()))


def arr_close(a, b, tol, margin=1.0):
    a = np.asarray(a, dtype=float)
    b = np.asarray(b, dtype=float)
    if a.shape != b.shape:
        return False
    with np.errstate(all='ignore'):
        same = (a == b) | (np.isnan(a) & np.isnan(b))
        ok = same | (np.abs(a - b) <= margin * tol)
    return bool(np.all(ok))


def worst(a, b, tol):
    if np.shape(a) != np.shape(b):
        return float('inf')
    with np.errstate(all='ignore'):
        r = np.abs(np.asarray(a, float) - np.asarray(b, float)) / np.where(tol > 0, tol, 1e-300)
    r = np.where(np.isnan(r), 0, r)
    return float(np.max(r)) if r.size else 0.0


def call_api(fit, mode, term, Xq, width, quantiles, meshgrid=False):
    """returns ('ok', point-or-None, intervals) or (exception class name,)"""
    g = fit.gam
    try:
        kw = {}
        if quantiles is not None:
            kw['quantiles'] = quantiles
        if width is not None:
            kw['width'] = width
        if mode == 'ci':
            return ('ok', None, np.asarray(g.confidence_intervals(Xq, **kw), dtype=float))
        if mode == 'pi':
            return ('ok', None, np.asarray(g.prediction_intervals(Xq, **kw), dtype=float))
        out = g.partial_dependence(term, X=Xq, meshgrid=meshgrid, **kw)
        p, iv = np.asarray(out[0], dtype=float), np.asarray(out[1], dtype=float)
        if meshgrid:
            iv = iv.reshape(-1, iv.shape[-1])
            p = p.ravel()
        return ('ok', p, iv)
    except Exception as e:                       # noqa: BLE001 — the exception class is the observation
        return (type(e).__name__,)


# ------------------------------------------------------------------------------------------------
# requests
# ------------------------------------------------------------------------------------------------
WIDTHS = [0.95, 0.95, 0.5, 0.9, 0.99, 0.8, 0.25, 1e-3, 0.999999, 0.0, -0.5, 0.6827]


def gen_levels(rng, lits):
    k = rng.choice([1, 2, 2, 3, 4, 5])
    qs = []
    for _ in range(k):
        u = rng.random()
        if u < 0.15:
            qs.append(0.5)
        elif u < 0.3:
            qs.append(rng.choice([0.025, 0.975, 0.05, 0.95, 0.1, 0.9, 0.25, 0.75]))
        elif u < 0.4:
            qs.append(rng.choice([1e-6, 1 - 1e-9, 1e-12, 2.0 ** -30, 1 - 2.0 ** -30]))
        elif u < 0.5:
            v = rng.choice([x for x in lits if 0 < x < 1] or [0.5])
            qs.append(float(rng.choice([v, np.nextafter(v, 1), np.nextafter(v, 0)])))
        else:
            qs.append(rng.randint(1, 1023) / 1024.0)
    if rng.random() < 0.5:
        qs = sorted(qs)
    return qs


def harvest_literals(P):
    lits = set()
    src = textwrap.dedent(inspect.getsource(P.GAM._get_quantiles))
    for node in ast.walk(ast.parse(src)):
        if isinstance(node, ast.Constant) and isinstance(node.value, (int, float)) and not isinstance(node.value, bool):
            lits.add(float(node.value))
    return sorted(lits | {0.0, 1.0, 0.5, 2.0, -1.0})


def requests_for(fit, rng, lits, tier):
    """list of (mode, term, width, quantiles, meshgrid) for one fitted model"""
    g = fit.gam
    reqs = []
    nrep = 1 if tier == 'quick' else 2
    for _ in range(nrep):
        reqs.append(('ci', -1, rng.choice(WIDTHS), None, False))
        reqs.append(('ci', -1, None, gen_levels(rng, lits), False))
    reqs.append(('ci', -1, None, None, False))          # both defaults
    if hasattr(g, 'prediction_intervals'):
        reqs.append(('pi', -1, rng.choice(WIDTHS), None, False))
        reqs.append(('pi', -1, None, gen_levels(rng, lits), False))
    for i, t in enumerate(g.terms):
        if t.isintercept or fit.blocks[i] is None:
            continue
        if rng.random() < 0.5:
            reqs.append(('pd', i, rng.choice(WIDTHS), None, False))
        else:
            reqs.append(('pd', i, None, gen_levels(rng, lits), False))
        if rng.random() < (0.4 if tier == 'quick' else 0.8):
            reqs.append(('pd', i, rng.choice(WIDTHS), None, 'grid'))       # default grid / meshgrid for tensors
    return reqs


def resolved_levels(width, quantiles):
    if quantiles is not None:
        return [float(q) for q in np.atleast_1d(quantiles)]
    return float_levels(0.95 if width is None else width)


# ------------------------------------------------------------------------------------------------
# one fitted model: all interval streams
# ------------------------------------------------------------------------------------------------
def prepare_model(P, cfg, lits, tier):
    """fit, build requests, call the API; returns a dict (no driver interaction yet)"""
    try:
        gam, X, y, Xq = fit_model(P, cfg)
    except Exception as e:                        # noqa: BLE001
        return dict(cfg=cfg, error=type(e).__name__)
    fit = Fit(gam, cfg)
    if not fit.finite:
        return dict(cfg=cfg, error='non-finite-statistics')
    rng = common.random.Random('C09-req-%d-%d' % (cfg['seed'], cfg['idx']))
    items = []
    for (mode, term, width, quantiles, mesh) in requests_for(fit, rng, lits, tier):
        if mesh == 'grid':
            t = gam.terms[term]
            if t.istensor:
                XX = gam.generate_X_grid(term=term, n=4, meshgrid=True)
                # rows of the flattened mesh, rebuilt without private helpers
                Xf = np.zeros((XX[0].size, X.shape[1]))
                for tt, xx in zip(t, XX):
                    Xf[:, tt.feature] = xx.ravel()
                if t.by is not None:
                    Xf[:, t.by] = 1.0
                Xcall, Xrows, meshgrid = XX, Xf, True
            else:
                Xcall = gam.generate_X_grid(term=term, n=7)
                Xrows, meshgrid = Xcall, False
        else:
            Xcall, Xrows, meshgrid = Xq, Xq, False
        w_call = width
        if mode != 'pd' and width is None and quantiles is None:
            w_call = None         # API defaults (width=0.95)
        res = call_api(fit, mode, term, Xcall, w_call, quantiles, meshgrid)
        items.append(dict(mode=mode, term=term, width=width, quantiles=quantiles, mesh=bool(meshgrid),
                          Xrows=np.asarray(Xrows, dtype=float), Xcall=Xcall, res=res,
                          levels=resolved_levels(width, quantiles)))
    return dict(cfg=cfg, fit=fit, items=items, X=X, Xq=Xq)


def iv_line(fit, it, ref):
    mode, term = it['mode'], it['term']
    if mode == 'pd':
        start, ln = fit.blocks[term]
        rows = dense_rows(fit.gam, it['Xrows'], term=term)
    else:
        start, ln = 0, fit.m
        rows = dense_rows(fit.gam, it['Xrows'])
    toks = fit.head(mode, start, ln)
    if it['quantiles'] is not None:
        qs = [float(q) for q in np.atleast_1d(it['quantiles'])]
        toks += ['q', str(len(qs))] + [f2bits(q) for q in qs]
    else:
        toks += ['w', f2bits(0.95 if it['width'] is None else it['width'])]
    lv = it['levels']
    zs = [zvalue(ref, q) for q in lv]
    if ref[0] == 'norm':
        toks += [str(len(lv))] + [t for q, z in zip(lv, zs) for t in (f2bits(q), f2bits(z))] + ['0']
    else:
        toks += ['0', str(len(lv))] + [t for q, z in zip(lv, zs) for t in (f2bits(ref[1]), f2bits(q), f2bits(z))]
    toks += fit.tail(rows)
    return ' '.join(toks)


def parse_iv(s, mode):
    if s in ('ValueError', 'missing-z', 'bad-op'):
        return (s,)
    point = None
    if mode == 'pd':
        a, s = s.split(' | ')
        point = np.array([bits2f(t) for t in a.split()])
    rows = [[bits2f(t) for t in r.split()] for r in s.split(' ; ')]
    return ('ok', point, np.array(rows, dtype=float))


def case_sig(cfg, it):
    return dict(label=cfg['label'], mix=cfg['mix'], icpt=cfg['fit_intercept'], lam=cfg['lam'], n=cfg['n'], ns=cfg['ns'],
                mode=it['mode'], term=it['term'], mesh=it['mesh'], **({'tag': cfg['tag']} if 'tag' in cfg else {}),
                spec=('q', [float(q) for q in np.atleast_1d(it['quantiles'])]) if it['quantiles'] is not None else ('w', it['width']))


def jsonable_case(cfg, it):
    return dict(cfg=cfg, mode=it['mode'], term=it['term'], width=it['width'],
                quantiles=None if it['quantiles'] is None else [float(q) for q in np.atleast_1d(it['quantiles'])],
                mesh=it['mesh'])


def check_models(ctx, P, prepared, stream=None):
    """driver phase for a list of prepared models + comparison + oracle (`stream`: register every case under that stream)"""
    st = {'ci': 'iv.ci', 'pi': 'iv.pi', 'pd': 'iv.pd'} if stream is None else {'ci': stream, 'pi': stream, 'pd': stream}
    ctx.stream('iv.ci', 'confidence_intervals(X, width|quantiles) vs getQuantiles at Float, 1e-9 rel (+ conditioning of the quadratic form)')
    ctx.stream('iv.pi', 'LinearGAM.prediction_intervals(X, width|quantiles) vs the model, 1e-9 rel')
    ctx.stream('iv.pd', 'partial_dependence(term, X, width|quantiles[, meshgrid]) point + intervals vs the model (own block), 1e-9 rel')
    ctx.stream('oracle.formula', 'NumPy recomputation of every bound from cov/edof/scale/coef_ (zero-padded full rows for pdep)')
    ctx.stream('oracle.order', 'on the real code: ordered in q, brackets the prediction, for the increasing-link classes')
    good = [p for p in prepared if 'fit' in p]
    for p in prepared:
        if 'fit' not in p:
            ctx.count('fit-skipped', p['error'])
    # phase 1: which reference distribution does the model use?
    refs = ctx.driver.run(['C09 ref %s %s %s' % ('1' if p['fit'].known else '0', f2bits(p['fit'].n), f2bits(p['fit'].edof))
                           for p in good])
    lines, index = [], []
    for p, r in zip(good, refs):
        fit = p['fit']
        toks = r.split()
        if toks[0] == 'norm':
            ref = ('norm',)
        elif toks[0] == 't':
            ref = ('t', bits2f(toks[1]))
        else:
            raise RuntimeError('driver: ' + r)
        p['ref'] = ref
        ctx.count('reference-distribution', ref[0])
        # the oracle's own idea of the reference distribution
        oref = ('norm',) if fit.known else ('t', fit.n - fit.edof)
        if oref != ref and not (len(ref) == 2 and ref[1] != ref[1] and oref[1] != oref[1]):
            ctx.disagree(st['ci'], dict(cfg=p['cfg']), str(oref), str(ref), 'reference distribution / degrees of freedom')
        for k, it in enumerate(p['items']):
            lines.append(iv_line(fit, it, ref))
            index.append((p, k))
    outs = ctx.driver.run(lines)
    nfail = 0
    for (p, k), out in zip(index, outs):
        fit, cfg, it = p['fit'], p['cfg'], p['items'][k]
        mode = it['mode']
        stream = st[mode]
        sig = case_sig(cfg, it)
        model = parse_iv(out, mode)
        impl = it['res']
        nontrivial = not (it['quantiles'] is None and it['width'] in (None, 0.95))
        ctx.case(stream, sig, nontrivial=nontrivial,
                 sample=dict(sig=sig, impl=str(impl[-1])[:300]) if k == 0 else None)
        ctx.count('mode', mode + ('/mesh' if it['mesh'] else ''))
        ctx.count('class', cfg['label'])
        ctx.count('mix', cfg['mix'])
        ctx.count('levels-per-call', len(it['levels']))
        if impl[0] != 'ok' or model[0] != 'ok':
            if impl[0] != model[0]:
                # an exception on one side only: the oracle decides (levels outside (0,1) must raise ValueError)
                lv = it['levels']
                must = any((q <= 0 or q >= 1) for q in lv) or len(lv) == 0
                if (impl[0] == 'ok') == must or (must and impl[0] != 'ValueError'):
                    ctx.fail(stream, sig, jsonable_case(cfg, it), impl[0], 'ValueError' if must else 'a result',
                             oracle='levels outside (0,1) (or none) must raise ValueError, levels inside must give a result')
                else:
                    ctx.disagree(stream, jsonable_case(cfg, it), impl[0], model[0], 'exception class')
            continue
        lv = it['levels']
        if np.ndim(impl[2]) != 2 or np.shape(impl[2])[1] != len(lv):
            # one column per requested level, in the order requested (repeated levels included)
            if nfail < MAX_FAILS:
                nfail += 1
                ctx.fail(stream, dict(sig, kind='shape'), jsonable_case(cfg, it), observed=dict(shape=list(np.shape(impl[2]))),
                         expected=dict(columns=len(lv), levels=lv), oracle='one interval column per requested level')
            continue
        ob, tol, point, ptol, info = oracle_bounds(fit, mode, it['term'], it['Xrows'], lv)
        ctx.count('kappa(var)', '1e%d' % int(min(30, math.log10(max(info['kappa'], 1)))) if math.isfinite(info['kappa']) else 'inf')
        if info['noisy']:
            ctx.count('rows-with-unresolved-variance', n=info['noisy'])
        ctx.case('oracle.formula', sig, nontrivial=nontrivial)
        bad_model = not arr_close(impl[2], model[2], tol) or (mode == 'pd' and not arr_close(impl[1], model[1], ptol))
        bad_oracle = not arr_close(impl[2], ob, tol, 10.0) or (mode == 'pd' and not arr_close(impl[1], point, ptol, 10.0))
        if bad_oracle and nfail < MAX_FAILS:
            # re-execute once on the real code before reporting
            if it.get('reexec') is not None:
                again = it['reexec']()
            else:
                again = call_api(fit, mode, it['term'], it['Xcall'], None if (mode != 'pd' and it['width'] is None and it['quantiles'] is None) else it['width'],
                                 it['quantiles'], it['mesh'])
            if again[0] == 'ok' and not arr_close(again[2], ob, tol, 10.0) or (mode == 'pd' and again[0] == 'ok' and not arr_close(again[1], point, ptol, 10.0)):
                nfail += 1
                ctx.fail(stream, sig, jsonable_case(cfg, it),
                         observed=dict(intervals=np.asarray(again[2]).tolist(), point=None if again[1] is None else np.asarray(again[1]).tolist()),
                         expected=dict(intervals=ob.tolist(), point=point.tolist(), levels=lv),
                         oracle='bound = inverse link(lp + z_q sqrt(row^T cov row [+ scale])), z_q normal if the scale is known (named classes: the public scale parameter of the last fit is not None) else t(n - edof); '
                                'pdep: full row zeroed outside the term block, link scale',
                         detail='worst error / tolerance = %.3g' % worst(again[2], ob, tol))
                continue
        if bad_model:
            ctx.disagree(stream, jsonable_case(cfg, it), np.asarray(impl[2]).tolist(), np.asarray(model[2]).tolist(),
                         'worst error / tolerance = %.3g' % worst(impl[2], model[2], tol))
        # ---- order / bracketing on the real code --------------------------------------------------
        if fit.link in INCREASING:
            ctx.case('oracle.order', sig, nontrivial=nontrivial)
            iv = impl[2]
            order = np.argsort(lv, kind='stable')
            with np.errstate(all='ignore'):
                srt = iv[:, order]
                tsrt = np.where(np.isfinite(tol[:, order]), tol[:, order], np.inf)
                viol = srt[:, :-1] > srt[:, 1:] + 10 * (tsrt[:, :-1] + tsrt[:, 1:])
                ref_pt = impl[1] if mode == 'pd' else np.asarray(fit.gam.predict_mu(it['Xrows']), dtype=float)
                lvv = np.array(lv)
                lo_bad = (iv > ref_pt[:, None] + 10 * (tol + ptol[:, None])) & (lvv[None, :] <= 0.5)
                hi_bad = (iv < ref_pt[:, None] - 10 * (tol + ptol[:, None])) & (lvv[None, :] >= 0.5)
            if (viol.any() or lo_bad.any() or hi_bad.any()) and nfail < MAX_FAILS:
                nfail += 1
                ctx.fail('oracle.order', sig, jsonable_case(cfg, it), observed=dict(intervals=iv.tolist(), point=ref_pt.tolist()),
                         expected='non-decreasing in q; q <= 1/2 bounds below and q >= 1/2 bounds above the prediction',
                         oracle='ordered_in_q / brackets_prediction on the public API')
    return nfail


def run_intervals(ctx, P, lits, cfgs):
    prepared = [prepare_model(P, cfg, lits, ctx.tier) for cfg in cfgs]
    check_models(ctx, P, prepared)
    return prepared


# ------------------------------------------------------------------------------------------------
# histories: the intervals of a model that was fitted more than once belong to the CURRENT fit
# ------------------------------------------------------------------------------------------------
HIST_LABELS = ['LinearGAM', 'GammaGAM', 'GAM/normal/log']
HIST_KINDS = ['n-up', 'n-down', 'lam', 'interleaved']
HIST_LEVELS = [0.025, 0.25, 0.9, 0.975]


def history_step(gam, cfg, tag, X, Xq):
    """query the ORIGINAL object now (same levels at every step); the statistics / model-matrix rows are read from a
    snapshot taken at this moment, so later refits of the object do not disturb the comparison"""
    import copy
    snap = copy.deepcopy(gam)
    cfg = dict(cfg, tag=tag)
    fit = Fit(snap, cfg)
    if not fit.finite:
        return dict(cfg=cfg, error='non-finite-statistics')
    live = copy.copy(fit)
    live.gam = gam
    reqs = [('ci', -1, None, list(HIST_LEVELS)), ('ci', -1, 0.95, None), ('ci', -1, 0.8, None)]
    if hasattr(gam, 'prediction_intervals'):
        reqs += [('pi', -1, None, list(HIST_LEVELS)), ('pi', -1, 0.95, None)]
    for i, t in enumerate(gam.terms):
        if not t.isintercept and fit.blocks[i] is not None:
            reqs += [('pd', i, 0.95, None), ('pd', i, None, list(HIST_LEVELS))]
            break
    items = []
    for (mode, term, width, quantiles) in reqs:
        res = call_api(live, mode, term, Xq, width, quantiles)
        items.append(dict(mode=mode, term=term, width=width, quantiles=quantiles, mesh=False, Xrows=np.asarray(Xq, dtype=float),
                          Xcall=Xq, res=res, levels=resolved_levels(width, quantiles), reexec=(lambda r=res: r)))
    return dict(cfg=cfg, fit=fit, items=items, X=X, Xq=Xq)


def history_cases(ctx):
    n = 12 if ctx.tier == 'quick' else 72
    out = []
    for h in range(n):
        rng = common.random.Random('C09-hist-%d-%d' % (ctx.seed, h))
        out.append(dict(h=h, seed=ctx.seed, kind=HIST_KINDS[h % len(HIST_KINDS)], label=HIST_LABELS[(h // len(HIST_KINDS)) % len(HIST_LABELS)],
                        mix=rng.choice(['s0', 's0+l1', 's0+f2', 'l0+l1']), n_small=rng.choice([14, 16, 20]),
                        n_large=rng.choice([60, 120, 300]), lam2=rng.choice([1e-3, 50.0, 1000.0])))
    return out


def run_one_history(P, hc, tier):
    """returns the list of prepared query steps of one history"""
    base_idx = 500000 + 10 * hc['h']

    def cfg_for(n, j):
        c = make_cfg(hc['seed'], base_idx + j, hc['label'], hc['mix'], tier)
        c.update(n=n, lam=0.6, ns=6, fit_intercept=True, nq=7, hist=hc)
        return c

    kind = hc['kind']
    cs, cl = cfg_for(hc['n_small'], 0), cfg_for(hc['n_large'], 1)
    first, second = (cs, cl) if kind != 'n-down' else (cl, cs)
    steps = []
    try:
        gam, X1, y1, Xq1 = fit_model(P, first)
        X2, y2, Xq2 = gen_data(second)
        steps.append(history_step(gam, first, 'step0:fit', X1, Xq1))
        if kind in ('n-up', 'n-down'):
            gam.fit(X2, y2)
            steps.append(history_step(gam, second, 'step1:refit-other-n', X2, Xq2))
            gam.fit(X1, y1)
            steps.append(history_step(gam, first, 'step2:refit-back', X1, Xq1))
        elif kind == 'lam':
            gam.lam = hc['lam2']
            gam.fit(X1, y1)
            steps.append(history_step(gam, dict(first, lam=hc['lam2']), 'step1:refit-other-lam', X1, Xq1))
            gam.set_params(lam=0.6, force=True)
            gam.fit(X2, y2)
            steps.append(history_step(gam, second, 'step2:refit-other-n-and-lam', X2, Xq2))
        else:
            gam2, _, _, _ = fit_model(P, second)
            steps.append(history_step(gam2, second, 'step1:second-model', X2, Xq2))
            steps.append(history_step(gam, first, 'step2:first-model-again', X1, Xq1))
            gam.fit(X2, y2)
            steps.append(history_step(gam2, second, 'step3:second-model-after-refit-of-first', X2, Xq1))
            steps.append(history_step(gam, second, 'step4:first-model-refitted', X2, Xq2))
            gam2.fit(X1, y1)
            steps.append(history_step(gam2, first, 'step5:second-model-refitted', X1, Xq2))
    except Exception as e:                      # noqa: BLE001
        steps.append(dict(cfg=dict(first, tag='error'), error=type(e).__name__))
    return steps


def run_history(ctx, P, only=None):
    st = 'iv.history'
    ctx.stream(st, 'histories on one object (fit, query, refit on another n / another lam, query the same levels again; reverse order; '
                   'interleaved second model): CI by quantiles and width, PI, pdep vs the model fed the CURRENT statistics_')
    prepared = []
    for hc in history_cases(ctx) if only is None else [only]:
        steps = run_one_history(P, hc, ctx.tier)
        for sp_ in steps:
            ctx.count('history-step', '%s/%s' % (hc['kind'], sp_['cfg'].get('tag')))
        prepared += steps
    check_models(ctx, P, prepared, stream=st)


# ------------------------------------------------------------------------------------------------
# scale events: the `scale` parameter of a fitted model is changed and the model is fitted again — the reference
# distribution (normal / Student-t) and the scale added by prediction intervals are those of the LAST fit
# ------------------------------------------------------------------------------------------------
SCALE_LABELS = ['LinearGAM', 'GammaGAM', 'InvGaussGAM', 'ExpectileGAM.5', 'GAM/normal/identity']
SCALE_KINDS = ['est->supplied', 'supplied->est', 'supplied->supplied', 'est->supplied->est']
SCALE_HOW = ['set_params', 'attribute']


def scale_event_cases(ctx):
    """every (class, direction) every run — no draw decides whether a direction is exercised; the draw only varies the
    term mix, n (30..45: Student-t and normal quantiles differ by percents) and the way the parameter is changed"""
    out = []
    h = 0
    reps = 1 if ctx.tier == 'quick' else 3
    for rep in range(reps):
        for label in SCALE_LABELS:
            for kind in SCALE_KINDS:
                rng = common.random.Random('C09-scale-%d-%d' % (ctx.seed, h))
                out.append(dict(h=h, seed=ctx.seed, stream='scale', label=label, kind=kind,
                                mix=rng.choice(['s0', 's0+l1', 's0+f2', 'l0+l1']), n=rng.choice([30, 36, 45]),
                                n2=rng.choice([None, None, 33, 42]), how=SCALE_HOW[(h + rep) % 2],
                                factor=rng.choice([0.25, 0.5, 3.0])))
                h += 1
    return out


def run_one_scale_history(P, hc, tier):
    generic = hc['label'].startswith('GAM/')
    label = hc['label']
    base_idx = 700000 + 10 * hc['h']
    ctor, kw0, fam, link, _ = LABELS[label]

    def cfg_for(n, j, known):
        c = make_cfg(hc['seed'], base_idx + 4 * j, label, hc['mix'], tier)      # + 4 j: the same response unit at every step
        c.update(n=n, lam=0.6, ns=6, fit_intercept=True, nq=7, hist=hc)
        if generic:
            c['known'] = known
        return c

    c1 = cfg_for(hc['n'], 0, None)
    X1, y1, Xq1 = gen_data(c1)
    # supplied values in the units of the response (normal family: a variance; gamma / inverse Gaussian: dispersion)
    v = {'normal': hc['factor'] * float(np.var(y1)), 'gamma': 0.2 * hc['factor'], 'inv_gauss': 0.05 * hc['factor']}[fam]
    seq = {'est->supplied': [None, v], 'supplied->est': [v, None], 'supplied->supplied': [v, 4.0 * v],
           'est->supplied->est': [None, v, None]}[hc['kind']]

    def as_param(sc):
        if not generic:
            return dict(scale=sc)
        from pygam.distributions import NormalDist
        return dict(distribution='normal' if sc is None else NormalDist(scale=sc))

    steps = []
    try:
        kw = dict(kw0)
        kw.update(as_param(seq[0]))
        gam = getattr(P, ctor)(make_terms(P, hc['mix'], 0.6, 6), fit_intercept=True, max_iter=200, tol=1e-6, **kw)
        for j, sc in enumerate(seq):
            cj = cfg_for(hc['n'] if (j == 0 or hc['n2'] is None) else hc['n2'], j, sc is not None)
            Xj, yj, Xqj = gen_data(cj)
            if j > 0:
                if hc['how'] == 'set_params':
                    gam.set_params(**as_param(sc))
                else:
                    for k_, v_ in as_param(sc).items():
                        setattr(gam, k_, v_)
            gam.fit(Xj, yj)
            steps.append(history_step(gam, dict(cj, scale_param=sc), 'step%d:fit(scale=%s)' % (j, 'None' if sc is None else 'supplied'),
                                      Xj, Xqj))
    except Exception as e:                      # noqa: BLE001
        steps.append(dict(cfg=dict(c1, tag='error'), error=type(e).__name__))
    return steps


def run_scale_events(ctx, P, only=None):
    st = 'iv.scale-events'
    ctx.stream(st, 'fit, change the public scale parameter (set_params / attribute; None -> value, value -> None, value -> 4 value, '
                   'None -> value -> None), fit again, n = 30..45: CI, PI, pdep after EVERY fit vs z_q normal iff the scale '
                   'parameter of that fit is not None (Student-t(n - edof) otherwise), PI adds the supplied scale')
    prepared = []
    for hc in scale_event_cases(ctx) if only is None else [only]:
        steps = run_one_scale_history(P, hc, ctx.tier)
        for sp_ in steps:
            ctx.count('scale-event-step', '%s/%s' % (hc['kind'], sp_['cfg'].get('tag')))
            ctx.count('scale-event-class', hc['label'])
        prepared += steps
    check_models(ctx, P, prepared, stream=st)


# ------------------------------------------------------------------------------------------------
# large queries: every row of a big X gets the bound it gets when queried alone
# ------------------------------------------------------------------------------------------------
def large_sizes(P):
    import pygam.pygam as M
    sizes = {12345, 25001}
    for node in ast.walk(ast.parse(inspect.getsource(M))):
        if isinstance(node, ast.Constant) and isinstance(node.value, int) and not isinstance(node.value, bool) \
                and 1000 <= node.value <= 200000:
            sizes.add(node.value + 2345)
    return sorted(sizes)


def run_large(ctx, P, only=None):
    st = 'iv.large'
    ctx.stream(st, 'X with > 10^4 rows (12345, 25001, every int literal >= 1000 of pygam.py + 2345): ci / pi / pdep(width) rows equal the '
                   'same rows queried alone (exact) and the model formula')
    sizes = large_sizes(P) if only is None else [only]
    cfg = make_cfg(ctx.seed, 900000, 'LinearGAM', 's0+l1', ctx.tier)
    cfg.update(n=60, lam=0.6, ns=5, fit_intercept=True, nq=5)
    gam, X, y, _ = fit_model(P, cfg)
    prepared = []
    nfail = 0
    for size in sizes:
        c = dict(cfg, tag='large-%d' % size, large=size)
        rs = np.random.RandomState(common.random.Random('C09-large-%d-%d' % (ctx.seed, size)).randrange(2 ** 31))
        XL = np.c_[rs.uniform(-0.25, 1.25, size), rs.uniform(-3, 3, size), rs.randint(0, 4, size).astype(float),
                   rs.choice([-1.0, 0.5, 1.0, 2.0], size)]
        # rows to look at: both ends, around every multiple of every candidate block size, random ones
        rows = set(range(3)) | set(range(size - 3, size)) | set(int(r) for r in rs.randint(0, size, 20))
        for L in sorted(set(s_ - 2345 for s_ in large_sizes(P)) | {10000, 1000, 4096, 8192, 65536}):
            if L < size:
                k = (size // L) * L
                rows |= {L - 1, L, k - 1, k, min(size - 1, k + 1), (k + size) // 2}
        rows = sorted(r for r in rows if 0 <= r < size)
        fit = Fit(gam, c)
        items = []
        for (mode, term) in [('ci', -1), ('pi', -1), ('pd', 0)]:
            def big(mode=mode, term=term):
                r = call_api(fit, mode, term, XL, 0.9, None)
                if r[0] != 'ok':
                    return r
                return ('ok', None if r[1] is None else r[1][rows], r[2][rows])
            res = big()
            alone = call_api(fit, mode, term, XL[rows], 0.9, None)
            sig = dict(size=size, mode=mode, what='row-wise consistency')
            ctx.case(st, sig, nontrivial=True)
            ctx.count('large-size', size)
            if res[0] != 'ok' or alone[0] != 'ok':
                if nfail < MAX_FAILS:
                    nfail += 1
                    ctx.fail(st, sig, dict(cfg=c, mode=mode, size=size), observed=(res[0], alone[0]), expected='results',
                             oracle='a valid call on a large X returns intervals')
                continue
            same = np.array_equal(res[2], alone[2], equal_nan=True) and (mode != 'pd' or np.array_equal(res[1], alone[1], equal_nan=True))
            if not same:
                with np.errstate(all='ignore'):
                    rel = np.abs(res[2] - alone[2]) / np.maximum(np.abs(alone[2]), 1e-300)
                bad = np.argwhere(~(rel <= 1e-9))
                if bad.size and nfail < MAX_FAILS:
                    again = big()
                    if again[0] == 'ok' and not np.all(np.abs(again[2] - alone[2]) <= 1e-8 * np.maximum(np.abs(alone[2]), 1e-300)):
                        nfail += 1
                        r0 = rows[int(bad[0][0])]
                        ctx.fail(st, sig, dict(cfg=c, mode=mode, size=size, row=r0),
                                 observed=dict(row=r0, in_large_query=again[2][int(bad[0][0])].tolist()),
                                 expected=dict(queried_alone=alone[2][int(bad[0][0])].tolist()),
                                 oracle='the bounds of a row do not depend on which other rows are queried with it',
                                 detail='%d of %d inspected rows differ' % (len(set(int(b[0]) for b in bad)), len(rows)))
                        continue
                elif not bad.size:
                    ctx.count('large-rowwise-last-bits', mode)
            items.append(dict(mode=mode, term=term, width=0.9, quantiles=None, mesh=False, Xrows=XL[rows], Xcall=XL[rows], res=res,
                              levels=resolved_levels(0.9, None), reexec=big))
        prepared.append(dict(cfg=c, fit=fit, items=items, X=X, Xq=XL[rows]))
    check_models(ctx, P, prepared, stream=st)


# ------------------------------------------------------------------------------------------------
# nesting / containment / width == quantiles on the real code (+ the model's two levels)
# ------------------------------------------------------------------------------------------------
def run_width(ctx, P, prepared, lits):
    stw = 'iv.width'
    ctx.stream(stw, 'confidence_intervals(width=w) bit-identical to quantiles=<the model\'s quantilesOfWidth w>; levels vs [(1-w)/2,(1+w)/2]')
    ctx.stream('oracle.nesting', 'on the real code: intervals nest as the width grows; prediction interval contains confidence interval')
    rng = ctx.subrng('width')
    good = [p for p in prepared if 'fit' in p]
    widths_pool = [0.95, 0.5, 0.9, 0.99, 0.1, 1e-3, 1e-9, 0.999999, 1 - 2.0 ** -20, 0.6827, 0.25, 0.75] \
        + [float(x) for v in lits if 0 < v < 1 for x in (v, np.nextafter(v, 0), np.nextafter(v, 1))]
    jobs = []
    for p in good:
        ws = sorted(set(rng.sample(widths_pool, 3) + [rng.randint(1, 1023) / 1024.0 for _ in range(2)]))
        jobs.append((p, ws))
    outs = ctx.driver.run(['C09 qw ' + f2bits(w) for p, ws in jobs for w in ws])
    pos = 0
    nfail = 0
    for p, ws in jobs:
        fit, cfg = p['fit'], p['cfg']
        g = fit.gam
        Xq = p['Xq']
        prev = None
        has_pi = hasattr(g, 'prediction_intervals')
        pt = np.asarray(g.predict_mu(Xq), dtype=float)
        for w in ws:
            mq = [bits2f(t) for t in outs[pos].split()]
            pos += 1
            sig = dict(label=cfg['label'], mix=cfg['mix'], icpt=cfg['fit_intercept'], lam=cfg['lam'], n=cfg['n'], w=w)
            ctx.case(stw, sig, nontrivial=(w != 0.95))
            a = np.asarray(g.confidence_intervals(Xq, width=w), dtype=float)
            b = np.asarray(g.confidence_intervals(Xq, quantiles=mq), dtype=float)
            exact = [Fraction(1, 2) - common.f2q(w) / 2, Fraction(1, 2) + common.f2q(w) / 2]
            lev_ok = all(abs(common.f2q(x) - e) <= Fraction(1, 2 ** 52) for x, e in zip(mq, exact)) and len(mq) == 2
            same = a.shape == b.shape and bool(np.all((a == b) | (np.isnan(a) & np.isnan(b))))
            if not lev_ok:
                ctx.disagree(stw, dict(cfg=cfg, w=w), None, mq, 'model levels differ from [(1-w)/2, (1+w)/2]')
            if not same:
                # oracle: the property's own statement, with the exact levels rounded to double
                c = np.asarray(g.confidence_intervals(Xq, quantiles=[float(e) for e in exact]), dtype=float)
                ob, tol, _, _, _ = oracle_bounds(fit, 'ci', -1, Xq, [float(e) for e in exact])
                # the levels may differ in the last bit: allow the quantile function's own conditioning
                if not arr_close(a, c, tol + 1e-6 * np.abs(c), 10.0):
                    nfail += 1
                    ctx.fail(stw, sig, dict(cfg=cfg, w=w), observed=a.tolist(), expected=c.tolist(),
                             oracle='confidence_intervals(width=w) == confidence_intervals(quantiles=[(1-w)/2, (1+w)/2])')
                else:
                    ctx.disagree(stw, dict(cfg=cfg, w=w), a.tolist(), b.tolist(), 'width call differs from quantiles=model levels')
            if fit.link in INCREASING:
                ctx.case('oracle.nesting', sig, nontrivial=True)
                _, tol, _, ptol, _ = oracle_bounds(fit, 'ci', -1, Xq, float_levels(w))
                slack = 10 * (np.where(np.isfinite(tol), tol, np.inf).max(axis=1) + ptol)
                with np.errstate(all='ignore'):
                    bad = (a[:, 0] > a[:, 1] + slack) | (a[:, 0] > pt + slack) | (a[:, 1] < pt - slack)
                    if prev is not None:
                        bad |= (a[:, 0] > prev[:, 0] + slack) | (a[:, 1] < prev[:, 1] - slack)
                    if has_pi:
                        pi = np.asarray(g.prediction_intervals(Xq, width=w), dtype=float)
                        bad |= (pi[:, 0] > a[:, 0] + slack) | (pi[:, 1] < a[:, 1] - slack)
                        if fit.scale > 0 and w > 0:
                            bad |= ~(pi[:, 1] - pi[:, 0] > a[:, 1] - a[:, 0])        # strictly wider
                if bad.any() and nfail < MAX_FAILS:
                    nfail += 1
                    ctx.fail('oracle.nesting', sig, dict(cfg=cfg, w=w, prev_width=None if prev is None else 'smaller width of the same model'),
                             observed=a.tolist(), expected='lo(w\') <= lo(w) <= prediction <= hi(w) <= hi(w\') for w <= w\'; PI contains CI',
                             oracle='nested_in_width / prediction_contains_confidence on the public API')
                prev = a


# ------------------------------------------------------------------------------------------------
# rejection
# ------------------------------------------------------------------------------------------------
def reject_specs(rng, lits, tier):
    nb = []
    for v in lits + [-0.1, 1.5, 0.95, 0.999, -0.999]:
        nb += [float(v), float(np.nextafter(v, np.inf)), float(np.nextafter(v, -np.inf))]
    widths = sorted(set(nb + [0.0, 1.0, -0.1, 1.5, -1.0, 2.0, -2.0, 1e-300, -1e-300, 1 - 2.0 ** -53, 1 - 2.0 ** -52, 3.0, -3.0,
                              float('inf'), float('-inf')]))
    scal = sorted(set(nb + [0.0, 1.0, -0.1, 1.5, 5e-324, 1e-300, 1 - 2.0 ** -53, 0.3, float('inf'), float('-inf')]))
    lists = [[0.5, 0.0], [0.2, 1.0], [0.1, 0.9, -0.1], [0.1, 1.5, 0.9], [], [0.3], [0.975, 0.025], [1.0, 0.5], [0.0], [0.5, 0.5, 0.5]]
    nrand = 30 if tier == 'quick' else 200
    for _ in range(nrand):
        k = rng.randint(1, 6)
        qs = [rng.randint(1, 1023) / 1024.0 for _ in range(k)]
        if rng.random() < 0.7:
            qs[rng.randrange(k)] = rng.choice([0.0, 1.0, -0.1, 1.5, -1e-300, 1 + 2.0 ** -52, 2.0, -5.0, float(np.nextafter(0, -1))])
        lists.append(qs)
    lists += [[float('nan')], [0.5, float('nan')], [float('nan'), 0.0]]
    widths.append(float('nan'))
    specs = [('w', w) for w in widths] + [('q', q) for q in scal] + [('q', l) for l in lists]
    return specs


def run_reject(ctx, P, prepared, lits):
    st = 'iv.reject'
    ctx.stream(st, 'exception class (ok | ValueError | …) for boundary / invalid widths and quantile lists, all entry points, vs quantilesRejected')
    rng = ctx.subrng('reject')
    specs = reject_specs(rng, lits, ctx.tier)
    good = [p for p in prepared if 'fit' in p]
    # entry points: one LinearGAM (ci, pi, pd), and ci / pd of a few other classes
    seen, targets = set(), []
    for p in good:
        lab = p['cfg']['label']
        if lab in seen:
            continue
        seen.add(lab)
        targets.append(p)
    lines = []
    for kind, v in specs:
        if kind == 'w':
            lines.append('C09 chk w ' + f2bits(v))
        else:
            lines.append('C09 chk q ' + ' '.join(f2bits(x) for x in np.atleast_1d(np.asarray(v, dtype=float))))
    outs = ctx.driver.run(lines)
    nfail = 0
    for ti, p in enumerate(targets):
        fit, cfg = p['fit'], p['cfg']
        g = fit.gam
        Xq = p['Xq'][:2]
        modes = ['ci'] + (['pi'] if hasattr(g, 'prediction_intervals') else [])
        terms = [i for i, t in enumerate(g.terms) if not t.isintercept]
        if terms:
            modes.append('pd')
        # every spec through every entry point for the first two targets, a random third of them for the others
        for (kind, v), mo in zip(specs, outs):
            for mode in modes:
                if ti >= 2 and rng.random() > 0.34:
                    continue
                if kind == 'w':
                    res = call_api(fit, mode, terms[0] if mode == 'pd' else -1, Xq, v, None)
                    lv = float_levels(v)
                    if v == v and abs(v) != float('inf'):
                        ex = [Fraction(1, 2) - common.f2q(v) / 2, Fraction(1, 2) + common.f2q(v) / 2]
                    else:
                        ex = None
                else:
                    res = call_api(fit, mode, terms[0] if mode == 'pd' else -1, Xq, 0.95, v)
                    lv = [float(x) for x in np.atleast_1d(np.asarray(v, dtype=float))]
                    # a NaN level is not inside (0,1): it must be rejected like any other level outside
                    ex = [common.f2q(x) if math.isfinite(x) else (Fraction(2) if x > 0 else Fraction(-1)) for x in lv]
                impl = 'ok' if res[0] == 'ok' else res[0]
                sig = dict(mode=mode, kind=kind, v=repr(v), label=cfg['label'])
                ctx.case(st, sig, nontrivial=True, sample=dict(sig=sig, impl=impl) if ti == 0 else None)
                ctx.count('reject-outcome', impl)
                must = (ex is not None and (len(ex) == 0 or any(e <= 0 or e >= 1 for e in ex))) or (ex is None)
                inside = ex is not None and len(ex) > 0 and all(0 < x < 1 for x in lv) and all(0 < e < 1 for e in ex)
                wrong = (must and impl != 'ValueError') or (inside and impl != 'ok')
                if wrong and nfail < MAX_FAILS:
                    nfail += 1
                    ctx.fail(st, sig, dict(cfg=cfg, mode=mode, kind=kind, v=v if kind == 'w' else lv), observed=impl,
                             expected='ValueError' if must else 'a result',
                             oracle='levels outside (0,1) must be rejected with ValueError (also through width); levels inside give a result')
                elif impl != mo:
                    ctx.disagree(st, dict(cfg=cfg, mode=mode, kind=kind, v=repr(v)), impl, mo, 'exception class')


# ------------------------------------------------------------------------------------------------
# SciPy contracts
# ------------------------------------------------------------------------------------------------
def run_ppf_contract(ctx, prepared):
    st = 'scipy.ppf-contract'
    ctx.stream(st, 'norm.ppf / t.ppf(df): strictly increasing on a grid of (0,1), z(1-q) = -z(q) to 1e-7 relative, z(1/2) = 0 to 1e-12 (hypotheses PpfContract; t.ppf of SciPy is itself only accurate to ~1e-8 near df = 30)')
    qs = sorted(set([k / 1024 for k in range(1, 1024)] + [2.0 ** -k for k in range(2, 50)] + [1 - 2.0 ** -k for k in range(2, 50)]))
    qs = np.array(qs)
    dfs = sorted(set([round(p['ref'][1], 12) for p in prepared if 'ref' in p and p['ref'][0] == 't' and p['ref'][1] > 0]
                     + [1.0, 2.5, 10.0, 1000.0]))
    if ctx.tier == 'quick' and len(dfs) > 40:
        rng = ctx.subrng('ppf')
        dfs = sorted(rng.sample(dfs, 40))
    for name, f in [('norm', sp.stats.norm.ppf)] + [('t', (lambda d: (lambda q: sp.stats.t.ppf(q, df=d)))(d)) for d in dfs]:
        z = f(qs)
        inc = bool(np.all(np.diff(z) > 0)) and bool(np.isfinite(z).all())
        anti = float(np.max(np.abs(z + z[::-1]) / np.maximum(1, np.abs(z))))
        half = float(f(0.5))
        ctx.case(st, dict(dist=name, df=None if name == 'norm' else float(f.__closure__[0].cell_contents)), nontrivial=True)
        if not inc or not anti <= 1e-7 or not abs(half) <= 1e-12:
            ctx.disagree(st, dict(dist=name), dict(increasing=inc, antisymmetry=anti, half=half), 'PpfContract',
                         'a SciPy quantile function violates the contract assumed by the order theorems')


# ------------------------------------------------------------------------------------------------
def make_cfgs(ctx):
    rng = ctx.subrng('cfgs')
    cfgs = []
    idx = 0
    labels = [lab for lab in LABELS if lab not in EVENT_ONLY]
    reps = 1 if ctx.tier == 'quick' else 12
    for rep in range(reps):
        for lab in labels:
            for mix in MIXES:
                cfgs.append(make_cfg(ctx.seed, idx, lab, mix, ctx.tier))
                idx += 1
    # in every run: nearly saturated unknown-scale fits (as many coefficients as observations, hardly any smoothing), where
    # n - edof lies between 0 and 2 — the Student-t quantile has exactly that many degrees of freedom, however few
    for lab, n_, ns_, lam_ in (('LinearGAM', 8, 10, 1e-4), ('LinearGAM', 9, 12, 3e-5), ('ExpectileGAM.5', 10, 10, 1e-5), ('GammaGAM', 8, 10, 1e-4),
                               ('LinearGAM', 10, 10, 1e-4)):
        c = make_cfg(ctx.seed, idx, lab, 's0', ctx.tier)
        c.update(n=n_, ns=ns_, lam=lam_, fit_intercept=True, nearly_saturated=True)
        cfgs.append(c)
        idx += 1
    return cfgs


def run(ctx):
    P = common.import_pygam()
    lits = harvest_literals(P)
    ctx.extra['rule'] = ('one case = (model class, term mix, intercept, lam, n, n_splines, entry point, term, width | quantile list); '
                         'non-trivial = not the default width 0.95; every fitted model is queried on training rows, interior points and '
                         'extrapolation rows; widths / levels include boundary values and the numeric literals of _get_quantiles +- 1 ulp')
    ctx.assumptions.append('SciPy norm.ppf and t.ppf(df) are strictly increasing on (0,1) and antisymmetric about 1/2 '
                           '(hypothesis PpfContract of the order theorems; validated on a 1100-point grid for every df used, each run: strict increase exactly, antisymmetry to 1e-7 relative — the accuracy of t.ppf in SciPy)')
    ctx.assumptions.append('model-matrix rows are taken from gam.terms.build_columns (their correctness is property C16)')
    cfgs = make_cfgs(ctx)
    prepared = run_intervals(ctx, P, lits, cfgs)
    run_width(ctx, P, prepared, lits)
    run_reject(ctx, P, prepared, lits)
    run_history(ctx, P)
    run_scale_events(ctx, P)
    run_large(ctx, P)
    run_ppf_contract(ctx, prepared)
    ctx.count('literals', ','.join(repr(v) for v in lits))


def replay(ctx, rp):
    """re-execute the configuration of a recorded failing case through every stream"""
    P = common.import_pygam()
    lits = harvest_literals(P)
    case = rp.get('case', {})
    cfg = case.get('cfg')
    if not cfg:
        return run(ctx)
    if cfg.get('hist') is not None and cfg['hist'].get('stream') == 'scale':
        return run_scale_events(ctx, P, only=cfg['hist'])
    if cfg.get('hist') is not None:
        return run_history(ctx, P, only=cfg['hist'])
    if cfg.get('large') is not None:
        return run_large(ctx, P, only=cfg['large'])
    prepared = run_intervals(ctx, P, lits, [cfg])
    run_width(ctx, P, prepared, lits)
    run_reject(ctx, P, prepared, lits)
