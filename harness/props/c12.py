"""
C12 — fits are invariant to row order, feature units and equivalent weight encodings; LinearGAM is linear in y.

Theorems: lean/PyGam/Props/C12.lean (B'W²B + A and B'W²z are sums over rows, hence invariant under any permutation of the
rows, for the whole PIRLS step of every family/link/expectile; min/max commute with x -> a x + b (a >= 0), the model-matrix
row of the rescaled problem at the mapped point equals the original row whenever every rescaled feature enters only through
spline bases (from C03 affine_invariant), the penalty does not see the units; w_i copies of row i == row i with weight w_i for
the normal matrix, the right-hand side and the deviance; for fixed B, w, A the solution of the penalised normal equations is
additive and homogeneous in y and unique when A is positive definite; RSS, scale, GCV, cov scale with c², the pseudo-inverse
with c⁻², the Wald statistic is scale free).
Correspondence / oracle (the same runs serve both): metamorphic pairs of fits of the REAL code (tol 1e-10) for every model
class and random term mixes — permute the rows; rescale every spline-only feature x -> a x + b with a over 1e-6…1e6 (query
points and user-given edge knots mapped likewise), in every run also training matrices handed over with an INTEGER dtype
and user edge knots given as whole numbers, compared with the same model on the mapped floating-point data at query points
between the whole numbers; integer weights (incl. all ones vs weights=None) vs replicated rows, for PoissonGAM in every run
also together with a non-constant exposure (a copy of a row carries the exposure of the row; exposure is permuted with
the rows in the permutation stream); LinearGAM / GAM(normal, identity): y1 + y2 and c·y with c over ±1e-6…1e6.  Compared: predictions on the link scale (query points incl. extrapolation + training
rows), edof; for c·y also p_values (unchanged) and scale / GCV / cov (x c²); for rescaling also the model matrix and the
compiled edge knots.  Tolerance as in C01: thr = max(1e-6, 10 eps cond(N)), problems with thr > 1e-3 are not judged.
Model side (Lean driver, exact rationals, on matrices exported from the real fits): `colsaff` — the model's rescaled problem
(Term.affineKnots, mapRow, columnsAll) has exactly the original row and that row equals the real build_columns of the real
rescaled fit; `normperm` / `normrepl` — normalMat / normalRhs of the permuted / replicated rows are exactly those of the
original rows and equal NumPy's B1' W B1 on the real design of the second fit; `lin` — exact solutions of the normal
equations are additive / homogeneous and reproduce the real fitted values.
"""
import multiprocessing as mp
from fractions import Fraction

import numpy as np

from harness import common
from harness.gen import fitgen, termgen

EPS = np.finfo(float).eps
SQRT_EPS = np.sqrt(EPS)
KINDS = ('perm', 'rescale', 'repl', 'add', 'scale')
LINEAR_PAIRS = [('LinearGAM', 'normal', 'identity'), ('GAM', 'normal', 'identity')]


# ---------------------------------------------------------------------------------------------------------
# case generation
# ---------------------------------------------------------------------------------------------------------
def gen_jobs(rng, tier):
    """list of job dicts (picklable): a fitgen case + the kind of transformation + its own sub-seed"""
    if tier == 'quick':
        n_general, n_linear = 3, 12         # x 13 pairs x 3 kinds ; x 2 kinds
        n_expo, n_int = 8, 14
    else:
        n_general, n_linear = 60, 240
        n_expo, n_int = 48, 84
    jobs = []
    base = fitgen.gen_cases(rng, n_general * len(fitgen.PAIRS) * 3, tier)
    for i, c in enumerate(base):
        kind = ('perm', 'rescale', 'repl')[(i // len(fitgen.PAIRS)) % 3]
        c = dict(c)
        c['constraints'] = c['constraints'] and (i % 2 == 0)
        if c['n_mode'] in ('1',):
            c['n_mode'] = '2'
        if kind == 'repl':
            # styles of integer weight vectors: mixed, mixed with zeros, all equal (2, 3, 5), mostly ones
            # (all ones: the same rows with weights given and with weights=None)
            c['weights_mode'] = ('int', 'int0', 'const', 'sparse', 'ones', 'const')[(i // (3 * len(fitgen.PAIRS)) + i) % 6]
            if c['n_mode'] == 'xlarge':
                c['n_mode'] = 'large'
        job = dict(kind=kind, case=c, sub=rng.randrange(10 ** 9))
        # PoissonGAM: the exposure is part of the fitting problem (fitgen cycles exposure x weights: both, exposure only,
        # weights only, neither); a permuted / replicated row carries its exposure with it
        if c['cls'] == 'PoissonGAM' and c.get('exposure_mode', 'none') != 'none':
            job['exposure'] = True
        if kind == 'rescale':
            # styles of affine maps, cycled so that every run has several of each (see _pick_affine)
            job['style'] = ('std', 'offset', 'tiny', 'std', 'offset', 'huge')[(i // (3 * len(fitgen.PAIRS)) + i) % 6]
        jobs.append(job)
    # in every run, not left to the draw: PoissonGAM fitted with a non-constant exposure AND explicit integer weights
    # (every style, incl. all ones vs weights=None) against the replicated rows, each copy with the exposure of its
    # source row; and the same fits under a permutation of the rows.  Sizes at which the fit is well conditioned.
    for i in range(n_expo):
        c = fitgen.gen_cases(rng, 3, tier)[2]           # the PoissonGAM entry of the cycle of pairs
        assert c['cls'] == 'PoissonGAM'
        kind = 'perm' if i % 4 == 3 else 'repl'
        c.update(n_mode=('mid', 'large', 'mid')[i % 3], lam_mode=('default', 'mixed')[(i // 2) % 2], constraints=False,
                 exposure_mode='pos', history='none',
                 weights_mode=('int', 'pos')[(i // 4) % 2] if kind == 'perm' else ('int', 'ones', 'int0', 'const', 'sparse', 'ones')[(i - i // 4) % 6])
        jobs.append(dict(kind=kind, case=c, sub=rng.randrange(10 ** 9), exposure=True, forced=True))
    # in every run: integer-dtype training matrices and integer user edge knots (see _integerise), every model class
    ipairs = [0, 6, 0, 2, 1, 0, 3, 5, 0, 7, 10, 0, 4]
    for i in range(n_int):
        c = fitgen.gen_cases(rng, len(fitgen.PAIRS), tier)[ipairs[i % len(ipairs)]]
        c.update(n_mode=('mid', 'large')[i % 2], lam_mode=('default', 'mixed', 'default', 'zero')[(i // 3) % 4], constraints=False,
                 history='none', y_scale=1.0)
        jobs.append(dict(kind='rescale', case=c, sub=rng.randrange(10 ** 9), forced=True, intx=('X', 'X+ek', 'ek')[i % 3],
                         style=('std', 'offset', 'std', 'std', 'tiny', 'offset', 'huge')[i % 7]))
    for i in range(n_linear * 2):
        cls, dist, link = LINEAR_PAIRS[0] if i % 3 else LINEAR_PAIRS[1]
        c = dict(seed=rng.randrange(10 ** 9), cls=cls, dist=dist, link=link, levels=1, expectile=None, scale=None,
                 n_mode=rng.choice(['m+1', 'small', 'mid', 'mid', 'large', 'mid2']),
                 weights_mode=rng.choice(['none', 'pos', 'int', 'zeros']),
                 lam_mode=rng.choice(['default', 'default', 'zero', 'big', 'mixed']),
                 constraints=False, max_terms=rng.choice([1, 2, 3]))
        jobs.append(dict(kind=('add', 'scale')[i % 2], case=c, sub=rng.randrange(10 ** 9), k=i // 2))
    return jobs


def _build(case, pygam, exposure=False):
    c = dict(case)
    wm = c['weights_mode']
    if wm in ('int0', 'const', 'sparse', 'ones'):
        c['weights_mode'] = 'int'
    if c['n_mode'] == 'mid2':
        c['n_mode'] = 'mid'
    if exposure:
        c['feature_units'] = 'plain'        # of the opt-in ingredients of fitgen only the exposure
    b = fitgen.build(c, pygam, opt_in=bool(exposure))
    if b['gam'].terms.hasconstraint:
        b['gam'].max_iter = 60      # constrained PIRLS converges quickly or cycles; tensor constraints cost ~0.2 s per iteration
    return b


# ---------------------------------------------------------------------------------------------------------
# helpers on real term lists
# ---------------------------------------------------------------------------------------------------------
def _leaves(tl):
    for t in tl:
        if t.isintercept:
            continue
        if t.istensor:
            for s in t._terms:
                yield t, s
        else:
            yield t, t


def eligible_features(tl):
    """numeric features that enter only as the argument of spline bases (not linear / factor / by; a spline term declared
    dtype='categorical' treats its feature as category codes — knots half a category beyond the data, domain-checked
    queries — so it is not a numeric feature in the sense of the property)"""
    spl, raw = set(), set()
    for t in tl:
        if t.isintercept:
            continue
        if getattr(t, 'by', None) is not None:
            raw.add(int(t.by))
    for t, s in _leaves(tl):
        if getattr(s, 'by', None) is not None:
            raw.add(int(s.by))
        (spl if (s._name == 'spline_term' and getattr(s, 'dtype', 'numerical') == 'numerical') else raw).add(int(s.feature))
    return sorted(spl - raw)


def knot_safe(tl, X, tol=1e-6):
    """no value of an order-0 / cyclic spline feature within `tol` (relative position) of a knot or of the period edge"""
    for t, s in _leaves(tl):
        if s._name != 'spline_term':
            continue
        order, n, cyc = int(s.spline_order), int(s.n_splines), s.basis == 'cp'
        if order >= 1 and not cyc:
            continue
        lo, hi = float(min(s.edge_knots_)), float(max(s.edge_knots_))
        if hi == lo:
            return False
        cells = (n + (order if cyc else 0)) - order
        u = (np.asarray(X[:, s.feature], dtype=float) - lo) / (hi - lo)
        pos = u * cells
        near = np.abs(pos - np.round(pos)) < tol * cells
        edge = (np.abs(u) < 1e-13) | (np.abs(u - 1) < 1e-13)
        if (near & ~edge).any():        # for a cyclic basis the period edges are knots too (pos integer)
            return False
    return True


def _dense(M):
    return np.asarray(M.todense(), dtype=float) if hasattr(M, 'todense') else np.asarray(M, dtype=float)


def _eta(case, mu):
    with np.errstate(all='ignore'):
        return fitgen.np_link(case['link'], float(case['levels']), np.asarray(mu, dtype=float))


def _eff(y, w, e):
    """the weighted problem that counts y observed over exposures e stand for: rates y / e with weights w e"""
    if e is None:
        return y, w
    return y / e, (np.asarray(e, dtype=float) if w is None else np.asarray(w, dtype=float) * e)


def _fit(gam, X, y, w, exposure=None):
    status, out = fitgen.fit_quiet(gam, X, y, w, **({} if exposure is None else dict(exposure=exposure)))
    if status != 'ok':
        return dict(status=status, msg=out)
    coef = np.asarray(gam.coef_, dtype=float).ravel()
    if not np.isfinite(coef).all():
        return dict(status='nonfinite-coef', msg='')
    return dict(status='ok', conv=('did not converge' not in out), n_iter=len(gam.logs_['diffs']),
                last_diff=float(gam.logs_['diffs'][-1]), coef=coef, edof=float(gam.statistics_['edof']))


class _Eta(np.ndarray):
    """link-scale predictions carrying `floor`: the part of a difference that the rounding of mu itself explains
    (16 ulp of mu through g'(mu); large where the mean saturates, e.g. mu -> levels under the logit link)"""
    floor = None


def _predict_eta(gam, case, Xe):
    with np.errstate(all='ignore'):
        mu = np.asarray(gam.predict_mu(Xe), dtype=float)
        eta = _eta(case, mu).view(_Eta)
        levels = float(case['levels'])
        g = np.abs(fitgen.np_grad(case['link'], levels, mu))
        fl = 16 * EPS * g * (np.abs(mu) + (levels if case['link'] == 'logit' else 0.0))
        eta.floor = np.where(np.isfinite(fl), fl, np.inf)
    return eta


def _system(gam, case, X, y, w, coef=None):
    """B, A, per-unit working weights u (W² = w u), pseudo data z, mask, cond(N) and the normwise backward error of the
    score equation at the fitted coefficients (or at `coef`), all by NumPy formulas independent of pyGAM"""
    coef = np.asarray(gam.coef_ if coef is None else coef, dtype=float).ravel()
    n, m = X.shape[0], len(coef)
    B = _dense(gam.terms.build_columns(X))
    P = _dense(gam.terms.build_penalties())
    A = P + SQRT_EPS * np.eye(m)
    if gam.terms.hasconstraint:
        A = A + _dense(gam.terms.build_constraints(coef, gam._constraint_lam, gam._constraint_l2))
    wv = np.ones(n) if w is None else np.asarray(w, dtype=np.float32).astype(float)
    link, dist, levels, tau = case['link'], case['dist'], float(case['levels']), case['expectile']
    with np.errstate(all='ignore'):
        eta = B @ coef
        mu = fitgen.np_mu(link, levels, eta)
        g = fitgen.np_grad(link, levels, mu)
        V = fitgen.np_V(dist, levels, mu)
        asym = np.ones(n) if tau is None else np.where(y > mu, tau, 1 - tau)
        u = asym / (V * g * g)
        W2 = wv * u
        keep = np.isfinite(W2) & (np.sqrt(np.abs(W2)) >= SQRT_EPS)
        z = eta + (y - mu) * g
        W2k = np.where(keep, W2, 0.0)
        N = B.T @ (W2k[:, None] * B) + A
        if not np.isfinite(N).all():
            return None
        ev = np.linalg.eigvalsh((N + N.T) / 2)
        cond = float(ev.max() / max(ev.min(), 1e-300))
        grad = -2 * (B.T @ np.where(keep, W2k * (y - mu) * g, 0.0)) + 2 * (A @ coef)
        rhs = B.T @ np.where(keep, W2k * z, 0.0)
        be = float(np.linalg.norm(grad) / (2 * (np.linalg.norm(N, 2) * np.linalg.norm(coef) + np.linalg.norm(rhs)) + 1e-300))
    return dict(B=B, A=A, w=wv, u=u, W2=W2, z=z, keep=keep, cond=cond, N=N, n=n, m=m, be=be)


def _cross_stationarity(gam0, case, X, y, w, coef1):
    """backward errors of the score equation of problem 0 (NumPy definition) at its own fit and at the coefficients of
    the transformed fit: when both vanish although the fits differ, the problem has several stationary points
    (non-convex deviance, constraints) and the PIRLS runs merely ended in different ones"""
    s1 = _system(gam0, case, X, y, w, coef=coef1)
    return float('inf') if s1 is None else s1['be']


def _dev_finite(*gams):
    return all(np.isfinite(float(g.statistics_['deviance'])) for g in gams)


def _reldiff(e0, e1, scale=None):
    """max |e0 - e1| over the entries finite in both, relative to 1 + max |e| there; and the number of entries compared"""
    floor = 0.0
    for e in (e0, e1):
        if getattr(e, 'floor', None) is not None:
            floor = floor + np.asarray(e.floor, dtype=float).ravel()
    e0 = np.asarray(e0, dtype=float).ravel()
    e1 = np.asarray(e1, dtype=float).ravel()
    fin = np.isfinite(e0) & np.isfinite(e1) & np.isfinite(floor)
    if not fin.any():
        return 0.0, 0, 0
    sc = (1.0 + np.abs(e0[fin]).max()) if scale is None else scale
    mism = int((np.isfinite(e0) != np.isfinite(e1)).sum())
    diff = np.maximum(np.abs(e0 - e1) - floor, 0.0)
    return float(diff[fin].max() / sc), int(fin.sum()), mism


def _q(x):
    return termgen.q(x)


def _qs(a):
    return ' '.join(termgen.q(v) for v in np.asarray(a, dtype=float).ravel())


# ---------------------------------------------------------------------------------------------------------
# the five metamorphic relations (worker side)
# ---------------------------------------------------------------------------------------------------------
def _eval_rows(b, k=8):
    return np.vstack([b['Xq'], b['X'][:k]])


def _pick_perm(rs, X, feats=None):
    """random shuffles and the boundary cases of row order: reversal, rotation, the rows holding the extremes of a
    used column moved to the last / first position (where off-by-one row slicing hides)"""
    n = X.shape[0]
    r = rs.random()
    if r < 0.3 or n < 3:
        return rs.permutation(n)
    if r < 0.4:
        return np.arange(n)[::-1].copy()
    if r < 0.5:
        return np.roll(np.arange(n), int(rs.integers(1, n)))
    feats = list(feats) if feats else list(range(X.shape[1]))
    j = int(feats[int(rs.integers(0, len(feats)))])
    imax, imin = int(np.argmax(X[:, j])), int(np.argmin(X[:, j]))
    if imax == imin:
        return rs.permutation(n)
    rest = [int(k) for k in rs.permutation(n) if k != imax and k != imin]
    arr = int(rs.integers(0, 6))
    order = [rest + [imin, imax], [imax, imin] + rest, rest + [imax, imin], [imin, imax] + rest,
             [imin] + rest + [imax], [imax] + rest + [imin]][arr]
    return np.array(order)


def _job_perm(job, pygam):
    case = job['case']
    ex = bool(job.get('exposure'))
    b0, b1 = _build(case, pygam, ex), _build(case, pygam, ex)
    X, y, w, e = b0['X'], b0['y'], b0['weights'], b0['exposure']
    n = X.shape[0]
    perm = _pick_perm(np.random.default_rng(job['sub']), X, sorted({int(s_.feature) for _t, s_ in _leaves(b0['gam'].terms)}))
    f0 = _fit(b0['gam'], X, y, w, e)
    f1 = _fit(b1['gam'], X[perm].copy(), y[perm].copy(), None if w is None else w[perm].copy(), None if e is None else e[perm].copy())
    res = dict(st0=f0['status'], st1=f1['status'], desc=b0['desc'], msg=f0.get('msg', '') or f1.get('msg', ''))
    if f0['status'] != 'ok' or f1['status'] != 'ok':
        return res
    Xe = _eval_rows(b0)
    y, w = _eff(y, w, e)        # from here on the oracle's own weighted formulation of the problem with exposure
    sysm = _system(b0['gam'], case, X, y, w)
    if sysm is None:
        res['st0'] = 'nonfinite-system'
        return res
    e0, e1 = _predict_eta(b0['gam'], case, Xe), _predict_eta(b1['gam'], case, Xe)
    d, k, mism = _reldiff(e0, e1)
    res.update(conv=f0['conv'] and f1['conv'], cond=sysm['cond'], d_pred=d, n_cmp=k, nan_mismatch=mism, n=n, m=sysm['m'],
               d_edof=abs(f0['edof'] - f1['edof']) / (1 + abs(f0['edof'])), edof=(f0['edof'], f1['edof']),
               nonident=bool((perm != np.arange(n)).any()), be0=sysm['be'],
               be1=_cross_stationarity(b0['gam'], case, X, y, w, f1['coef']), dev_finite=_dev_finite(b0['gam'], b1['gam']))
    if n * sysm['m'] <= 6000 and sysm['m'] <= 45:
        B1 = _dense(b1['gam'].terms.build_columns(X[perm].copy()))
        W2p = np.where(sysm['keep'], sysm['W2'], 0.0)[perm]
        N1 = B1.T @ (W2p[:, None] * B1)
        W2x = np.where(np.isfinite(sysm['W2']), sysm['W2'], 0.0)
        zx = np.where(np.isfinite(sysm['z']), sysm['z'], 0.0)
        res['op'] = 'C12 normperm %d %d | %s | %s | %s | %s | %s' % (
            n, sysm['m'], _qs(sysm['B']), _qs(W2x), _qs(zx), ' '.join('1' if k_ else '0' for k_ in sysm['keep']),
            ' '.join(str(int(p)) for p in perm))
        res['N1'] = N1
        res['rhs1'] = B1.T @ (W2p * zx[perm])
        res['sN'] = float((np.abs(B1).T @ (np.abs(W2p)[:, None] * np.abs(B1))).max())
        res['sr'] = float((np.abs(B1).T @ np.abs(W2p * zx[perm])).max())
    return res


def _pick_affine(rs, lo, span, style='std'):
    """x -> a x + b, a > 0.
    'std'    a over 1e-6…1e6 (half of them powers of two), b a moderate multiple of a·span;
    'offset' |b| >> a·range: |b| / (a·range) over 1e5…1e9, both signs (an epoch timestamp covering an hour: a = 3600,
             b = 1.7e9; days since the epoch: a = 1/24, b = 19675; otherwise dyadic a and b so that a x + b is exact for
             the dyadic data columns and the comparison stays sharp);
    'tiny'   a over 1e-9…1e-12 at b = 0 (a feature in units of 1e-9 … 1e-12);
    'huge'   a over 1e9…1e12 at b = 0"""
    if style == 'tiny' or style == 'huge':
        sgn = -1 if style == 'tiny' else 1
        if rs.random() < 0.5:
            a = float(2.0 ** (sgn * int(rs.integers(30, 41))))
        else:
            a = float(10 ** (sgn * rs.uniform(9, 12)))
        return a, 0.0
    if style == 'offset':
        r = rs.random()
        if r < 0.15:
            return 3600.0 / span, 1.7e9 - 3600.0 * lo / span
        if r < 0.3:
            return (1.0 / 24.0) / span, 19675.0 - lo / span / 24.0
        ka = int(rs.integers(-20, 21))
        a = float(2.0 ** ka)
        ratio = int(rs.integers(17, 31))                      # |b| / (a·range) = 2^17 … 2^30  (1.3e5 … 1.1e9)
        kb = ka + int(np.round(np.log2(span))) + ratio
        b = float(2.0 ** kb) * (1.0 if rs.random() < 0.5 else -1.0)
        if rs.random() < 0.3:
            b *= 1.5                                          # still few bits
        return a, b
    if rs.random() < 0.5:
        a = float(2.0 ** int(rs.integers(-20, 21)))
    else:
        a = float(10 ** rs.uniform(-6, 6))
    b0 = [0.0, -lo, span, -3.5 * span, 17.0 * span, 32.0, -273.15][int(rs.integers(0, 7))]
    if abs(b0) > 64 * max(span, abs(lo)):
        b0 = 0.0
    b = float(a * b0)
    return a, b


_PRIMES = (23, 29, 37, 53, 61, 97)        # more cells than any basis of the generator has: a whole number is never on an inner knot


def _next_prime(k):
    while any(k % p == 0 for p in range(2, int(k ** 0.5) + 1)):
        k += 1
    return k


def _integerise(bs, elig, mode, rs):
    """re-express the generated problem in whole numbers (ages in years, temperatures in degrees, calendar years): a perfectly
    valid numeric input whose array dtype is integer.  Every spline-only feature is put on the grid L, L+1, …, L+R (relative
    positions kept, R prime); the query points keep their relative positions and so fall BETWEEN the whole numbers; the other
    columns become whole numbers too (by-variables in quarters x 4, other numeric columns on a 61-step grid, category codes
    as they are), so that the training matrix can be handed over with dtype int64.
    mode 'X'    integer-dtype X, knots derived from the data (hence whole numbers);
         'X+ek' integer-dtype X and user edge knots given as whole numbers (Python ints, or an int64 array, either order);
         'ek'   float X between the whole numbers, user edge knots given as whole numbers.
    The same data and terms go into both builds; the caller then maps the second one x -> a x + b (floating point)."""
    X, Xq = np.array(bs[0]['X'], dtype=float), np.array(bs[0]['Xq'], dtype=float)
    knots = {}
    for j in range(X.shape[1]):
        col, colq = X[:, j].copy(), Xq[:, j].copy()
        lo, hi = float(col.min()), float(col.max())
        if j in elig:
            R = int(_PRIMES[int(rs.integers(0, len(_PRIMES)))])
            L = int((0, -7, 18, 1900, -40, 1)[int(rs.integers(0, 6))])
            u, uq = (col - lo) / (hi - lo), (colq - lo) / (hi - lo)
            X[:, j] = L + (R * u if mode == 'ek' else np.round(R * u))
            Xq[:, j] = L + R * uq
            d1 = int(rs.integers(1, 4))
            knots[j] = (L - d1, L - d1 + _next_prime(R + d1 + 1))      # whole numbers beyond the data, a prime apart
        else:
            both = np.concatenate([col, colq])
            if (both == np.round(both)).all():
                continue
            if (4 * both == np.round(4 * both)).all():
                X[:, j], Xq[:, j] = 4 * col, 4 * colq
            else:
                span = (hi - lo) or 1.0
                X[:, j] = np.round(lo) + np.round(61 * (col - lo) / span)
                Xq[:, j] = np.round(lo) + np.round(61 * (colq - lo) / span)
    if mode != 'ek':
        Xi = X.astype(np.int64)
        assert (Xi == X).all()
        X = Xi
    form = int(rs.integers(0, 4))
    for b in bs:
        for _t, s in _leaves(b['gam'].terms):
            if s._name == 'spline_term' and int(s.feature) in elig:
                if mode == 'X':
                    s.edge_knots = None
                else:
                    k0, k1 = knots[int(s.feature)]
                    ek = [[k0, k1], [k1, k0], np.array([k0, k1], dtype=np.int64), [np.int64(k0), np.int64(k1)]][form]
                    s.edge_knots = ek
                    s.edge_knots_ = ek
        b['X'], b['Xq'] = X.copy(), Xq.copy()
        b['gam'].terms.compile(b['X'])


def _job_rescale(job, pygam):
    case = dict(job['case'])
    ex = bool(job.get('exposure'))
    intx = job.get('intx')
    b0 = b1 = None
    for attempt in range(8):
        b0 = _build(case, pygam, ex)
        # a constant column has no units to change: its edge knots coincide and the code falls back to scale = 1
        # (the hypothesis e0 != e1 of affine_invariant); such features are left alone
        elig = [f for f in eligible_features(b0['gam'].terms) if b0['X'][:, f].max() > b0['X'][:, f].min()]
        if elig:
            break
        case['seed'] = case['seed'] + 7919
    if not elig:
        return dict(st0='no-eligible-feature', st1='', desc=b0['desc'], msg='')
    b1 = _build(case, pygam, ex)
    rs = np.random.default_rng(job['sub'])
    if intx:
        _integerise([b0, b1], elig, intx, rs)
    X, y, w, Xq, e = b0['X'], b0['y'], b0['weights'], b0['Xq'], b0['exposure']
    nf = X.shape[1]
    a, b = np.ones(nf), np.zeros(nf)
    chosen = [f for f in elig if intx or rs.random() < 0.75] or [elig[0]]
    for f in chosen:
        lo, hi = float(X[:, f].min()), float(X[:, f].max())
        a[f], b[f] = _pick_affine(rs, lo, (hi - lo) or 1.0, job.get('style', 'std'))
    Xm, Xqm = np.array(X, dtype=float), Xq.copy()       # the re-expressed features are floating point whatever X was
    for f in chosen:
        Xm[:, f] = a[f] * X[:, f] + b[f]
        Xqm[:, f] = a[f] * Xq[:, f] + b[f]
    # user-given edge knots follow the units
    for t, s in _leaves(b1['gam'].terms):
        if s._name == 'spline_term' and int(s.feature) in chosen and getattr(s, 'edge_knots', None) is not None:
            ek = [float(a[s.feature] * float(e_) + b[s.feature]) for e_ in s.edge_knots]
            s.edge_knots = ek
            s.edge_knots_ = ek
    f0 = _fit(b0['gam'], X, y, w, e)
    f1 = _fit(b1['gam'], Xm, y, w, e)
    res = dict(st0=f0['status'], st1=f1['status'], desc=b0['desc'], msg=f0.get('msg', '') or f1.get('msg', ''), case_used=case,
               a=[float(v) for v in a], b=[float(v) for v in b], chosen=chosen, x_dtype=str(X.dtype))
    if f0['status'] != 'ok' or f1['status'] != 'ok':
        return res
    y, w = _eff(y, w, e)        # from here on the oracle's own weighted formulation of the problem with exposure
    g0, g1 = b0['gam'], b1['gam']
    Xe, Xem = np.vstack([Xq, X[:8]]), np.vstack([Xqm, Xm[:8]])
    safe = knot_safe(g0.terms, np.vstack([X, Xq])) and knot_safe(g1.terms, np.vstack([Xm, Xqm]))
    sysm = _system(g0, case, X, y, w)
    if sysm is None:
        res['st0'] = 'nonfinite-system'
        return res
    # precision lost by the change of units itself: relative position of a point moves by ~ eps |x'| / span'
    kappa = 0.0
    nsp = 1
    for f in chosen:
        sp0 = (X[:, f].max() - X[:, f].min()) or 1.0
        sp1 = (Xm[:, f].max() - Xm[:, f].min()) or 1.0
        kappa = max(kappa, np.abs(Xem[:, f]).max() / sp1 + np.abs(Xe[:, f]).max() / sp0, abs(b[f]) / sp1)
    ek_bad = 0.0
    for (t0, s0), (t1, s1) in zip(_leaves(g0.terms), _leaves(g1.terms)):
        if s0._name == 'spline_term':
            nsp = max(nsp, int(s0.n_splines) * (int(s0.spline_order) + 1))
        if s0._name == 'spline_term' and int(s0.feature) in chosen:
            f = int(s0.feature)
            for e0_, e1_ in zip(s0.edge_knots_, s1.edge_knots_):
                exact = Fraction(float(a[f])) * Fraction(float(e0_)) + Fraction(float(b[f]))
                den = abs(float(a[f]) * float(e0_)) + abs(float(b[f])) + 1e-300
                ek_bad = max(ek_bad, abs(float(Fraction(float(e1_)) - exact)) / den)
        else:
            if list(map(float, s0.edge_knots_)) != list(map(float, s1.edge_knots_)):
                ek_bad = max(ek_bad, 1.0)
    B0e, B1e = _dense(g0.terms.build_columns(Xe)), _dense(g1.terms.build_columns(Xem))
    B0t, B1t = sysm['B'], _dense(g1.terms.build_columns(Xm))
    bmax = max(1.0, np.abs(B0e).max())
    dB = max(float(np.abs(B0e - B1e).max()), float(np.abs(B0t - B1t).max())) / bmax if B0e.shape == B1e.shape else float('inf')
    e0, e1 = _predict_eta(g0, case, Xe), _predict_eta(g1, case, Xem)
    d, k, mism = _reldiff(e0, e1)
    exact_map = all(Fraction(float(Xem[i, f])) == Fraction(float(a[f])) * Fraction(float(Xe[i, f])) + Fraction(float(b[f]))
                    for f in chosen for i in range(min(4, Xe.shape[0])))
    res.update(conv=f0['conv'] and f1['conv'], cond=sysm['cond'], d_pred=d, n_cmp=k, nan_mismatch=mism, n=X.shape[0], m=sysm['m'],
               d_edof=abs(f0['edof'] - f1['edof']) / (1 + abs(f0['edof'])), edof=(f0['edof'], f1['edof']),
               dB=dB, kappa=float(kappa), nsp=nsp, ek_bad=float(ek_bad), safe=bool(safe), exact_map=bool(exact_map),
               nonident=True, be0=sysm['be'], be1=_cross_stationarity(g0, case, X, y, w, f1['coef']),
               dev_finite=_dev_finite(g0, g1))
    # model side: 3 evaluation rows (only programs the exact model evaluates cheaply)
    if safe and sysm['m'] <= 160:
        toks = ' '.join(termgen.encode_terms(g0.terms))
        rows = list(range(min(3, Xe.shape[0])))
        res['ops'] = ['C12 colsaff %s | %s | %s | %s' % (toks, _qs(Xe[i]), _qs(a), _qs(b)) for i in rows]
        res['rowsB1'] = [B1e[i] for i in rows]
        res['bmax'] = bmax
    return res


def _int_weights(rs, X, with_zeros, style='int'):
    n = X.shape[0]
    if style == 'const':
        # every row the same weight k != 1: with a penalty this is the data stacked k times, not the unweighted fit
        return np.full(n, float((2, 3, 5)[int(rs.integers(0, 3))]))
    if style == 'sparse':
        w = np.ones(n)
        k = max(1, n // 20)
        w[rs.choice(n, size=k, replace=False)] = float((2, 3, 4)[int(rs.integers(0, 3))])
        return w
    if style == 'ones':
        return np.ones(n)       # explicit unit weights: one copy of every row, i.e. the same rows with weights=None
    w = rs.integers(1, 4, size=n).astype(float)
    if with_zeros and n >= 6:
        protect = set()
        for j in range(X.shape[1]):
            col = X[:, j]
            protect.add(int(np.argmin(col)))
            protect.add(int(np.argmax(col)))
            vals = np.unique(col)
            if len(vals) <= 8:
                for v in vals:
                    protect.add(int(np.argmax(col == v)))
        for i in range(n):
            if i not in protect and rs.random() < 0.25:
                w[i] = 0.0
    return w


def _job_repl(job, pygam):
    case = job['case']
    ex = bool(job.get('exposure'))
    b0, b1 = _build(case, pygam, ex), _build(case, pygam, ex)
    X, y, e = b0['X'], b0['y'], b0['exposure']
    n = X.shape[0]
    rs = np.random.default_rng(job['sub'])
    w = _int_weights(rs, X, case['weights_mode'] == 'int0', style=case['weights_mode'] if case['weights_mode'] in ('const', 'sparse', 'ones') else 'int')
    idx = np.repeat(np.arange(n), w.astype(int))
    # a copy of a row is the whole observation: features, count and the exposure over which the count was observed
    f0 = _fit(b0['gam'], X, y, w, e)
    f1 = _fit(b1['gam'], X[idx].copy(), y[idx].copy(), None, None if e is None else e[idx].copy())
    res = dict(st0=f0['status'], st1=f1['status'], desc=b0['desc'], msg=f0.get('msg', '') or f1.get('msg', ''))
    if f0['status'] != 'ok' or f1['status'] != 'ok':
        return res
    Xe = _eval_rows(b0)
    w_int = w
    y, w = _eff(y, w, e)        # from here on the oracle's own weighted formulation of the problem with exposure
    sysm = _system(b0['gam'], case, X, y, w)
    if sysm is None:
        res['st0'] = 'nonfinite-system'
        return res
    e0, e1 = _predict_eta(b0['gam'], case, Xe), _predict_eta(b1['gam'], case, Xe)
    d, k, mism = _reldiff(e0, e1)
    res.update(conv=f0['conv'] and f1['conv'], cond=sysm['cond'], d_pred=d, n_cmp=k, nan_mismatch=mism, n=n, m=sysm['m'],
               d_edof=abs(f0['edof'] - f1['edof']) / (1 + abs(f0['edof'])), edof=(f0['edof'], f1['edof']),
               n_repl=int(len(idx)), zeros=int((w_int == 0).sum()), nonident=True, be0=sysm['be'],   # all ones: weights given vs weights=None
               be1=_cross_stationarity(b0['gam'], case, X, y, w, f1['coef']), dev_finite=_dev_finite(b0['gam'], b1['gam']))
    if len(idx) * sysm['m'] <= 8000 and sysm['m'] <= 45:
        B1 = _dense(b1['gam'].terms.build_columns(X[idx].copy()))
        ux = np.where(np.isfinite(sysm['u']), sysm['u'], 0.0) * (1.0 if e is None else e)    # working weight of ONE copy of the row
        zx = np.where(np.isfinite(sysm['z']), sysm['z'], 0.0)
        keepu = sysm['keep'] | (w_int == 0)      # the mask of a zero-weight row is irrelevant: it has no copy
        uk = np.where(keepu, ux, 0.0)
        res['op'] = 'C12 normrepl %d %d | %s | %s | %s | %s | %s' % (
            n, sysm['m'], _qs(sysm['B']), _qs(ux), _qs(zx), ' '.join('1' if k_ else '0' for k_ in keepu),
            ' '.join(str(int(v)) for v in w_int))
        res['N1'] = B1.T @ (uk[idx][:, None] * B1)
        res['rhs1'] = B1.T @ (uk[idx] * zx[idx])
        res['sN'] = float((np.abs(B1).T @ (np.abs(uk[idx])[:, None] * np.abs(B1))).max())
        res['sr'] = float((np.abs(B1).T @ np.abs(uk[idx] * zx[idx])).max())
    return res


def _second_response(rs, X, y):
    n = len(y)
    col = X[:, 0]
    span = (col.max() - col.min()) or 1.0
    kind = int(rs.integers(0, 3))
    if kind == 0:
        return rs.normal(size=n) * float(10 ** rs.uniform(-3, 3))
    if kind == 1:
        return np.cos(5 * (col - col.min()) / span) * 2.0 + 0.1 * rs.normal(size=n)
    return -0.5 * y + rs.normal(size=n)


def _pick_factor(rs, k=None):
    """response factors over 24 orders of magnitude: the decades 1e-12, 1e-9, …, 1e12 (cycled through by the job
    index, so that every run has them all), powers of two 2^-40 … 2^40, log-uniform 1e-12 … 1e12; 30 % negative"""
    decades = (-12, -9, -6, -3, 3, 6, 9, 12)
    r = rs.random()
    if k is not None and (k < len(decades) or k % 3 == 0):
        c = float(10.0 ** decades[k % len(decades)])
    elif r < 0.4:
        c = float(2.0 ** int(rs.integers(-40, 41)))
    else:
        c = float(10 ** rs.uniform(-12, 12))
    if rs.random() < 0.3:
        c = -c
    return c


def _stats(gam):
    st = gam.statistics_
    return dict(edof=float(st['edof']), scale=float(st['scale']), GCV=(None if st['GCV'] is None else float(st['GCV'])),
                cov=np.asarray(st['cov'], dtype=float), p=[float(v) for v in st['p_values']], n=int(st['n_samples']))


def _rank_margin(gam, cov):
    """per term: distance (in decades) of the closest singular value of the covariance block from the pinv cut-off"""
    out = []
    for i in range(len(gam.terms)):
        idx = gam.terms.get_coef_indices(i)
        blk = cov[np.ix_(idx, idx)]
        s = np.linalg.svd(blk, compute_uv=False)
        if s.max() == 0 or not np.isfinite(s).all():
            out.append(0.0)
            continue
        cut = max(blk.shape) * EPS * s.max()
        with np.errstate(all='ignore'):
            out.append(float(np.min(np.abs(np.log10(np.maximum(s, 1e-300) / cut)))))
    return out


def _job_linear(job, pygam):
    case = job['case']
    kind = job['kind']
    rs = np.random.default_rng(job['sub'])
    b0, b1 = _build(case, pygam), _build(case, pygam)
    X, y, w = b0['X'], b0['y'], b0['weights']
    n = X.shape[0]
    Xe = _eval_rows(b0)
    f0 = _fit(b0['gam'], X, y, w)
    res = dict(st0=f0['status'], st1='', desc=b0['desc'], msg=f0.get('msg', ''))
    if f0['status'] != 'ok':
        return res
    sysm = _system(b0['gam'], case, X, y, w)
    if sysm is None:
        res['st0'] = 'nonfinite-system'
        return res
    p0 = np.asarray(b0['gam'].predict_mu(Xe), dtype=float)
    res.update(n=n, m=sysm['m'], cond=sysm['cond'])
    if kind == 'add':
        b2 = _build(case, pygam)
        y2 = _second_response(rs, X, y)
        f1 = _fit(b1['gam'], X, y2, w)
        f2 = _fit(b2['gam'], X, y + y2, w)
        res['st1'] = f1['status'] if f1['status'] != 'ok' else f2['status']
        if f1['status'] != 'ok' or f2['status'] != 'ok':
            return res
        p1 = np.asarray(b1['gam'].predict_mu(Xe), dtype=float)
        p2 = np.asarray(b2['gam'].predict_mu(Xe), dtype=float)
        sc = 1.0 + np.abs(p0).max() + np.abs(p1).max()
        d, k, mism = _reldiff(p2, p0 + p1, scale=sc)
        res.update(conv=f0['conv'] and f1['conv'] and f2['conv'], d_pred=d, n_cmp=k, nan_mismatch=mism,
                   d_edof=max(abs(f0['edof'] - f1['edof']), abs(f0['edof'] - f2['edof'])) / (1 + abs(f0['edof'])),
                   edof=(f0['edof'], f1['edof'], f2['edof']), nonident=True, c=1.0)
        y2x, c = y2, 3.0
    else:
        c = _pick_factor(rs, job.get('k'))
        f1 = _fit(b1['gam'], X, c * y, w)
        res['st1'] = f1['status']
        if f1['status'] != 'ok':
            return res
        p1 = np.asarray(b1['gam'].predict_mu(Xe), dtype=float)
        d, k, mism = _reldiff(p1 / c, p0)
        s0, s1 = _stats(b0['gam']), _stats(b1['gam'])
        c2 = c * c
        # perturbation analysis of dev = sum w (y - mu)^2 under a relative change `thr` of mu: see run()
        wv = sysm['w']
        mu_tr = np.asarray(b0['gam'].predict_mu(X), dtype=float)
        dev = float(np.sum(wv * (y - mu_tr) ** 2))
        M = float(np.sum(wv * mu_tr ** 2)) + float(np.sum(wv * y ** 2))
        covn = float(np.linalg.norm(s0['cov'])) + 1e-300
        res.update(conv=f0['conv'] and f1['conv'], d_pred=d, n_cmp=k, nan_mismatch=mism, c=c,
                   d_edof=abs(f0['edof'] - f1['edof']) / (1 + abs(f0['edof'])), edof=(f0['edof'], f1['edof']),
                   scale=(s0['scale'], s1['scale'] / c2), GCV=(s0['GCV'], None if s1['GCV'] is None else s1['GCV'] / c2),
                   d_cov=float(np.linalg.norm(s1['cov'] / c2 - s0['cov']) / covn), p0=s0['p'], p1=s1['p'],
                   rank_margin=_rank_margin(b0['gam'], s0['cov']), dev=dev, M=M, n_minus_edof=float(n - f0['edof']),
                   nonident=(c != 1.0))
        y2x = _second_response(rs, X, y)
    if n * sysm['m'] <= 3000 and sysm['m'] <= 24:
        res['op'] = 'C12 lin %d %d | %s | %s | %s | %s | %s | %s' % (
            n, sysm['m'], _qs(sysm['B']), _qs(sysm['A']), _qs(sysm['w']), _qs(y), _qs(y2x), _q(c))
        res['Btr'] = sysm['B']
        res['pred_tr'] = np.asarray(b0['gam'].predict_mu(X), dtype=float)
    return res


def _run_job(job, pygam):
    try:
        if job['kind'] == 'perm':
            r = _job_perm(job, pygam)
        elif job['kind'] == 'rescale':
            r = _job_rescale(job, pygam)
        elif job['kind'] == 'repl':
            r = _job_repl(job, pygam)
        else:
            r = _job_linear(job, pygam)
    except ValueError as e:
        r = dict(st0='generator-rejected', st1='', msg=str(e)[:120], desc={})
    r['job'] = job
    return r


def _worker(job):
    import warnings
    warnings.filterwarnings('ignore')
    pygam = common.import_pygam()
    r = _run_job(job, pygam)
    # the every-run cases must end in a judged pair: when the drawn program is rejected by the generator, does not converge
    # in max_iter or is too ill-conditioned to be judged, the next program of the same configuration is drawn (the verdict
    # of a judged pair is never a reason to redraw)
    for t in range(1, 6 if job.get('forced') else 1):
        if r.get('conv') and _judge(r)[2]:
            break
        r = _run_job(dict(job, case=dict(job['case'], seed=job['case']['seed'] + 104729 * t)), pygam)
    return r


# ---------------------------------------------------------------------------------------------------------
# judging
# ---------------------------------------------------------------------------------------------------------
STREAM = {'perm': 'rows.permute', 'rescale': 'units.rescale', 'repl': 'weights.replicate', 'add': 'linear.add', 'scale': 'linear.scale'}
STREAM_INT, STREAM_EXPO = 'units.rescale.int', 'weights.replicate.exposure'
WHAT_INT = ('every run: the generated problem re-expressed in whole numbers — training X handed over with dtype int64 (knots derived from the data) and / or user edge knots given '
            'as whole numbers (Python ints, int64 array, either order) — vs the same model fitted on the affinely mapped floating-point X; judged at query points between the '
            'whole numbers (and extrapolating) mapped likewise: model matrix, edge knots, predictions, edof equal')
WHAT_EXPO = ('every run: PoissonGAM fitted with a non-constant exposure AND explicit integer weights (mixed, with zeros, all equal, mostly ones, all ones) vs the rows replicated '
             'with their counts and exposures and weights=None: predictions (rates, link scale) and edof equal')


def _stream_of(job):
    if job['kind'] == 'rescale' and job.get('intx'):
        return STREAM_INT
    if job['kind'] == 'repl' and job.get('exposure'):
        return STREAM_EXPO
    return STREAM[job['kind']]
WHAT = {
    'perm': 'real fit on permuted rows vs original: predictions (link scale) and edof equal to thr = max(1e-6, 10 eps cond)',
    'rescale': 'real fit with spline-only features mapped x -> a x + b (a 1e-12…1e12; offsets up to 1e9 x a·range, both signs; query points and user knots mapped): model matrix, edge knots, predictions, edof equal',
    'repl': 'real fit with integer weights vs replicated rows: predictions and edof equal',
    'add': 'LinearGAM / GAM(normal, identity): predictions of fit(y1 + y2) = sum of predictions, edof independent of y',
    'scale': 'LinearGAM / GAM(normal, identity): fit(c y), c over ±1e-6…1e6: predictions x c, edof and p-values unchanged, scale / GCV / cov x c²',
}
MODEL_STREAM = {'perm': 'model.normperm', 'rescale': 'model.colsaff', 'repl': 'model.normrepl', 'add': 'model.lin', 'scale': 'model.lin'}


def _judge(r):
    """-> (list of reasons the relation is violated at 10x the tolerance, thr, judged?)"""
    kind = r['job']['kind']
    thr = max(1e-6, 10 * EPS * r['cond'])
    if kind == 'repl':
        thr = max(thr, 3e-6)        # the code computes 1/w in float32 (weights.astype('f') ** -1): relative error 6e-8 in W²
    if thr > 1e-3:
        return [], thr, False
    bad = []
    tol = 10 * thr          # x10 safety margin on the calibrated tolerance
    if kind == 'rescale':
        # the change of units itself perturbs relative positions by ~ eps kappa; the basis has slope <= nsp
        shift = 50 * EPS * r['kappa'] * r['nsp']
        tolB = 10 * (1e-9 + shift)
        if r['safe']:
            if not (r['dB'] <= tolB):
                bad.append('model matrix of the rescaled problem (training rows and mapped query points) differs from the original by %.3g (relative) > %.3g; '
                           'predictions at the mapped points differ by %.3g (relative, link scale)' % (r['dB'], tolB, r['d_pred']))
            if not (r['ek_bad'] <= 1e-12):
                bad.append('compiled edge knots of the rescaled problem are not the mapped edge knots (relative error %.3g)' % r['ek_bad'])
        # predictions: the measured difference of the two model matrices acts like a data perturbation of that size
        tol = 10 * max(thr, 10 * r['cond'] * min(r['dB'], tolB))
        if tol > 1e-2 or not r['safe']:
            return bad, thr, bool(bad)
    if kind in ('perm', 'rescale', 'repl') and not r['dev_finite']:
        return bad, thr, bool(bad)      # fitted means outside the domain of the distribution: not a fit of the model
    fitbad = []
    if not (r['d_pred'] <= tol):
        fitbad.append('predictions differ by %.3g (relative, link scale) > %.3g' % (r['d_pred'], tol))
    if not (r['d_edof'] <= tol):
        fitbad.append('edof differs: %s (relative %.3g > %.3g)' % (list(r['edof']), r['d_edof'], tol))
    if fitbad and kind in ('perm', 'rescale', 'repl') and r['be0'] <= 1e-6 and r['be1'] <= 1e-6:
        # both coefficient vectors are stationary points of the same (NumPy-defined) penalised deviance
        r['multi'] = True
        fitbad = []
    bad += fitbad
    if kind == 'scale':
        s0, s1 = r['scale']
        # |dev' - dev| <= 2 sqrt(dev M) delta + delta² M for a relative perturbation delta of the fitted values
        tdev = (2 * np.sqrt(r['dev'] * r['M']) * tol + tol * tol * r['M'])
        nme = r['n_minus_edof']
        if abs(nme) > 1e-3 * r['n']:
            edof0 = r['edof'][0]
            rel_nme = tol * (1 + edof0) / abs(nme)          # relative change of n - edof
            if rel_nme < 0.1:
                ts = tdev / abs(nme) + abs(s0) * 2 * rel_nme + 1e-9 * abs(s0)
                if not (abs(s1 - s0) <= ts):
                    bad.append('scale(c y)/c² = %.17g vs scale(y) = %.17g (tolerance %.3g)' % (s1, s0, ts))
                g0, g1 = r['GCV']
                if g0 is not None and g1 is not None:
                    nge = r['n'] - 1.4 * edof0
                    rel_nge = tol * 1.4 * (1 + edof0) / max(abs(nge), 1e-300)
                    if abs(nge) > 1e-3 * r['n'] and rel_nge < 0.1:
                        tg = r['n'] * tdev / nge ** 2 + abs(g0) * 4 * rel_nge + 1e-9 * abs(g0)
                        if not (abs(g1 - g0) <= tg):
                            bad.append('GCV(c y)/c² = %.17g vs GCV(y) = %.17g (tolerance %.3g)' % (g1, g0, tg))
                elif (g0 is None) != (g1 is None):
                    bad.append('GCV present in only one of the fits')
                # cov = K * scale: K is as ill-conditioned as N
                tc = 10 * max(tol, 10 * EPS * r['cond'] ** 1.0) + ts / max(abs(s0), 1e-300)
                if tc < 1e-1 and not (r['d_cov'] <= tc):
                    bad.append('cov(c y)/c² differs from cov(y) by %.3g (relative Frobenius) > %.3g' % (r['d_cov'], tc))
        # p-values: only terms whose covariance block has an unambiguous numerical rank (all singular values 3 decades
        # away from the relative cut-off of the pseudo-inverse)
        for i, (pa, pb, mg) in enumerate(zip(r['p0'], r['p1'], r['rank_margin'])):
            if mg >= 3.0:
                if np.isfinite(pa) != np.isfinite(pb):
                    bad.append('p-value of term %d is finite in only one of the fits: %r vs %r' % (i, pa, pb))
                elif np.isfinite(pa) and not (abs(pa - pb) <= 1e-5 + 100 * tol):
                    bad.append('p-value of term %d changes from %.12g to %.12g' % (i, pa, pb))
    return bad, thr, True


def _lbk(x):
    return int(np.floor(np.log10(x))) if (np.isfinite(x) and x > 0) else 'zero'


def _parse_mat(s):
    return np.array([common.fracf(t) for t in s.split()], dtype=float)


def run(ctx):
    common.import_pygam()
    for k in KINDS:
        ctx.stream(STREAM[k], WHAT[k])
    ctx.stream(STREAM_INT, WHAT_INT)
    ctx.stream(STREAM_EXPO, WHAT_EXPO)
    ctx.stream('model.colsaff', 'Lean model (exact): row of the rescaled problem (Term.affineKnots, mapRow, columnsAll) == original row exactly, and == real build_columns of the real rescaled fit (1e-9 + rounding of the change of units)')
    ctx.stream('model.normperm', 'Lean model (exact): normalMat / normalRhs of the permuted exported rows == original exactly, and == NumPy B1\' W B1 of the real permuted design (1e-12)')
    ctx.stream('model.normrepl', 'Lean model (exact): normalMat / normalRhs of replicated rows with unit weights == weighted original rows exactly, and == NumPy on the real replicated design (1e-12)')
    ctx.stream('model.lin', 'Lean model (exact): solutions of the exported normal equations are additive and homogeneous in y; B beta == real fitted values (thr)')
    ctx.extra['rule'] = ('jobs = fitgen case (model class / distribution x link, random term program, n relative to m, weights mode, lam mode, constraints) x transformation '
                         '(row permutation; affine map of every spline-only feature with a over 1e-6…1e6, also from integer-dtype X / whole-number user knots; integer weights incl. zeros and all ones vs replication, PoissonGAM also with exposure; y1 + y2; c y with c over ±1e-6…1e6); '
                         'distinct = distinct job dicts; non-trivial = both fits converged, well enough conditioned to be judged, transformation not the identity')
    jobs = gen_jobs(ctx.subrng('jobs'), ctx.tier)
    with mp.get_context('fork').Pool(min(16, len(jobs))) as pool:
        results = pool.map(_worker, jobs, chunksize=1)

    ops, owner = [], []
    for ri, r in enumerate(results):
        for op in ([r['op']] if 'op' in r else []) + list(r.get('ops', [])):
            ops.append(op)
            owner.append(ri)
    outs = ctx.driver.run(ops, parallel=min(16, max(1, len(ops)))) if ops else []
    model_out = {}
    for ri, o in zip(owner, outs):
        model_out.setdefault(ri, []).append(o)

    for ri, r in enumerate(results):
        job = r['job']
        kind, c = job['kind'], job['case']
        st = _stream_of(job)
        sig = dict(job=job)
        ctx.count('kind', kind)
        ctx.count('pair', '%s %s/%s' % (c['cls'], c['dist'], c['link']))
        status = (r['st0'], r['st1'])
        okst = r['st0'] == 'ok' and r['st1'] in ('ok', '') and 'conv' in r
        if not okst:
            ctx.count('fit status', '%s: %s/%s' % (kind, r['st0'], r['st1']))
            bad_exc = [s for s in status if s not in ('ok', '', 'ValueError', 'generator-rejected', 'nonfinite-coef', 'nonfinite-system', 'no-eligible-feature', 'OptimizationError')]
            if bad_exc:
                ctx.case(st, sig, nontrivial=True)
                ctx.fail(st, dict(kind='exception', exc=bad_exc[0]), dict(job=job), observed='%s: %s' % (status, r.get('msg', '')),
                         expected='a fit or a ValueError', oracle='fit must not raise an unrelated exception')
            continue
        if not r['conv']:
            ctx.count('fit status', '%s: not converged in max_iter' % kind)
            continue
        bad, thr, judged = _judge(r)
        ctx.count('conditioning', 'judged' if judged else 'too ill-conditioned (not judged)')
        nontriv = bool(judged and r.get('nonident', True))
        small = dict(job=job, n=r['n'], m=r['m'], cond=r['cond'], d_pred=r['d_pred'], d_edof=r['d_edof'])
        ctx.case(st, sig, nontrivial=nontriv, sample=small)
        if judged:
            with np.errstate(all='ignore'):
                ctx.count('%s: log10(pred diff / thr)' % kind, int(np.floor(np.log10(max(r['d_pred'], 1e-300) / thr))) if r['d_pred'] > 0 else 'exact')
        if r.get('nan_mismatch'):
            ctx.count('non-finite predictions in one fit only', kind, r['nan_mismatch'])
        if r.get('multi'):
            ctx.count('different stationary points of the same problem (both score equations hold to 1e-6)', kind)
        if kind in ('perm', 'rescale', 'repl') and not r['dev_finite']:
            ctx.count('fitted means outside the domain (deviance not finite): not judged', kind)
        if kind == 'rescale':
            ctx.count('rescale: knot-safe', str(r['safe']))
            ctx.count('rescale: a decade', int(np.floor(np.log10(max(max(r['a']), 1.0 / min(r['a']))))))
            ctx.count('rescale: style', job.get('style', 'std'))
            ctx.count('rescale: dtype of the training X / user edge knots', '%s / %s' % (r.get('x_dtype'), {'X': 'from the data', 'X+ek': 'whole numbers', 'ek': 'whole numbers'}.get(job.get('intx'), 'float or none')))
            ctx.count('rescale: log10 |b| / (a range)', _lbk(r['kappa']))
        if job.get('exposure'):
            ctx.count('PoissonGAM with exposure', '%s, weights %s' % (kind, c['weights_mode']))
        if kind == 'scale':
            ctx.count('scale: |c| decade', int(np.floor(np.log10(abs(r['c'])))))
        confirmed = False
        if bad:
            # re-execute once more before reporting
            r2 = _worker(job)
            bad2 = _judge(r2)[0] if ('conv' in r2 and r2.get('conv')) else []
            if bad2:
                confirmed = True
                ctx.fail(st, dict(kind=kind, cls=c['cls'], pair='%s/%s' % (c['dist'], c['link'])), dict(job=job, n=r['n'], m=r['m'], cond=r['cond'], desc=r.get('desc'), **{k_: r2[k_] for k_ in ('a', 'b', 'chosen', 'x_dtype') if k_ in r2}),
                         observed=bad2, expected=(WHAT_INT if st == STREAM_INT else WHAT_EXPO if st == STREAM_EXPO else WHAT[kind]), oracle='metamorphic relation on the real code (two fits, tol=1e-10), tolerance 10 x max(1e-6, 10 eps cond)')
            else:
                ctx.count('not reproduced on re-execution', kind)
        # ---- model side
        mo = model_out.get(ri)
        if not mo:
            continue
        mst = MODEL_STREAM[kind]
        ctx.case(mst, sig, nontrivial=nontriv)
        if any(o == 'bad-op' for o in mo):
            ctx.disagree(mst, sig, 'n/a', 'bad-op', 'model could not evaluate the operation')
            continue
        if kind in ('perm', 'repl'):
            head, Ns, rhss = [p.strip() for p in mo[0].split('|')]
            N = _parse_mat(Ns).reshape(r['m'], r['m'])
            rhs = _parse_mat(rhss)
            flag = head.split()[0]
            if flag != 'eq':
                ctx.disagree(mst, sig, 'n/a', head, 'the model normal equations of the transformed rows differ from the original ones (theorem instance fails)')
            elif kind == 'repl' and int(head.split()[1]) != r['n_repl']:
                ctx.disagree(mst, sig, r['n_repl'], head, 'number of replicated rows')
            else:
                sN = r['sN'] + 1e-300           # scale of the sums of absolute terms (the sums themselves may cancel)
                sr = r['sr'] + 1e-300
                dN = float(np.abs(N - r['N1']).max() / sN)
                dr = float(np.abs(rhs - r['rhs1']).max() / sr)
                if (dN > 1e-11 or dr > 1e-9) and not confirmed:
                    ctx.disagree(mst, sig, dict(dN=dN, drhs=dr), 'exact model', 'normal matrix / rhs of the real transformed design differ from the model\'s')
        elif kind == 'rescale':
            shift = 50 * EPS * r['kappa'] * r['nsp']
            for o, rowB in zip(mo, r['rowsB1']):
                ds, rows = [p.strip() for p in o.split('|')]
                if Fraction(ds) != 0:
                    ctx.disagree(mst, sig, 'n/a', ds, 'model row of the rescaled problem differs from the original row (theorem instance fails)')
                    break
                row = _parse_mat(rows)
                if row.shape != rowB.shape or float(np.abs(row - rowB).max()) > (1e-9 + shift) * 10 * r['bmax']:
                    if not confirmed:
                        ctx.disagree(mst, sig, rowB.tolist(), row.tolist(), 'real build_columns of the real rescaled fit differs from the model row of the rescaled problem')
                    break
        else:
            head, betas = [p.strip() for p in mo[0].split('|')]
            if head.split() != ['1', '1', '1']:
                ctx.disagree(mst, sig, 'n/a', head, 'exact solutions of the model normal equations are not additive / homogeneous')
            else:
                beta = _parse_mat(betas)
                fitted = r['Btr'] @ beta
                dm = float(np.abs(fitted - r['pred_tr']).max() / (1 + np.abs(r['pred_tr']).max()))
                if judged and dm > 10 * thr and not confirmed:
                    ctx.disagree(mst, sig, r['pred_tr'][:5].tolist(), dict(model=fitted[:5].tolist(), reldiff=dm), 'exact solution of the exported normal equations differs from the real fitted values')
    ctx.partial.append('all theorems are about exact arithmetic: IEEE rounding (summation order, rounding of a x + b, the sqrt(eps) ridge) is covered by the tolerances of the metamorphic streams only')
    ctx.partial.append('weights_eq_replication takes the PIRLS mask as given per source row (the code thresholds sqrt(w u) for a weighted row and sqrt(u) for its copies)')
    ctx.partial.append('edof_indep_of_y is definitional (edof is a function of B, w, A); pinv_scaling states the Penrose equations for c^-2 M (uniqueness of the pseudo-inverse is standard and not re-proved)')
    ctx.assumptions.append('scipy.linalg.pinv returns the Moore-Penrose inverse with a rank cut-off relative to the largest singular value (p-values compared only for covariance blocks whose singular values stay 3 decades away from the cut-off)')


def replay(ctx, rp):
    run(ctx)
