"""
C04 — smoothing penalties measure exactly the roughness they promise.

Theorems: lean/PyGam/Props/C04.lean (quadratic forms of derivative / periodic / l2 penalties for all n, d, c;
symmetry, PSD, null spaces; lam-weighted sums; Kronecker lifting; block-diagonal assembly).
Correspondence: the model's matrices (exact integers, computed by the Lean driver from the very
definitions the theorems are about) against pygam.penalties.* and Term/TensorTerm/TermList.build_penalties().
Oracle: c' P c against np.diff / np.roll sums on the real code, exact integer arithmetic.
"""
import hashlib
import itertools

import numpy as np

from harness import common
from harness.gen import termgen


def _dense(M):
    return np.asarray(M.todense()) if hasattr(M, 'todense') else np.asarray(M)


def oracle_quadform(kind, n, d, P, rng, trials=6):
    """property oracle on the real code: returns None if it holds, else a description of the failing c"""
    P = np.asarray(P, dtype=float)
    if P.shape != (n, n):
        return dict(reason='shape', shape=list(P.shape))
    if not np.array_equal(P, P.T):
        return dict(reason='not symmetric')
    cs = [np.ones(n), np.arange(n, dtype=float)]
    for _ in range(trials):
        cs.append(np.array([rng.randint(-9, 9) for _ in range(n)], dtype=float))
    # a symmetric matrix is determined by its quadratic form on e_i and e_i + e_j: complete for small n
    if n <= 16:
        eye = np.eye(n)
        cs += [eye[i] for i in range(n)] + [eye[i] + eye[j] for i in range(n) for j in range(i)]
    for c in cs:
        got = float(c @ P @ c)
        if kind == 'derivative':
            want = float(np.sum(np.diff(c, n=d) ** 2)) if n > d else 0.0
        elif kind == 'periodic':
            v = c.copy()
            for _ in range(d):
                v = np.roll(v, -1) - v
            want = float(np.sum(v ** 2)) if n > 1 else 0.0
        elif kind == 'l2':
            want = float(np.sum(c ** 2))
        elif kind == 'none':
            want = 0.0
        if got != want:
            return dict(reason='quadratic form', c=c.tolist(), got=got, want=want)
    return None


def run_matrices(ctx):
    pygam = common.import_pygam()
    from pygam import penalties
    st = 'pen.matrix'
    ctx.stream(st, 'pygam.penalties.{derivative,periodic,l2,none}(n, d) entry by entry vs model (exact integers)')
    ns = list(range(1, 15)) + [20, 40]
    if ctx.tier == 'thorough':
        ns = list(range(1, 31)) + [40, 64]
    # difference orders up to 8: the entries of D D' grow like binomial(2d, d) (order 5: 252, order 8: 12870)
    ds = [1, 2, 3, 4, 5, 6, 8] if ctx.tier == 'quick' else [1, 2, 3, 4, 5, 6, 7, 8, 10]
    ds_per = [1, 2, 3, 4] if ctx.tier == 'quick' else [1, 2, 3, 4, 5, 6]     # the (n, d) grid of the recorded periodic finding
    cases = []
    for n in ns:
        for d in ds:
            cases.append(('derivative', n, d))
            if d in ds_per:
                cases.append(('periodic', n, d))
        cases.append(('l2', n, 0))
        cases.append(('none', n, 0))
    ops = []
    for kind, n, d in cases:
        ops.append('C04 pen %s %d%s' % (kind, n, (' %d' % d) if kind in ('derivative', 'periodic') else ''))
    outs = ctx.driver.run(ops)
    for (kind, n, d), out in zip(cases, outs):
        ctx.count('penalty kind', kind)
        rng = ctx.subrng(kind, n, d)
        try:
            if kind == 'derivative':
                P = _dense(penalties.derivative(n, None, derivative=d))
            elif kind == 'periodic':
                P = _dense(penalties.periodic(n, None, derivative=d))
            elif kind == 'l2':
                P = _dense(penalties.l2(n, None))
            else:
                P = _dense(penalties.none(n, None))
            impl = P.tolist()
            err = None
        except Exception as e:  # noqa
            impl, err, P = None, type(e).__name__, None
        model = [[int(x) for x in row] for row in common.parse_mat(out)] if out != 'bad-op' else None
        sig = dict(penalty=kind, n=n, d=d)
        if P is not None:
            dg = hashlib.sha1(repr(np.asarray(P, dtype=float).round(9).tolist()).encode()).hexdigest()[:12]
            sig['nd_digest'] = '%d,%d:%s' % (n, d, dg)
        else:
            sig['nd_digest'] = '%d,%d:%s' % (n, d, err)
        ctx.case(st, sig, nontrivial=(n > 1), sample=dict(op=ops[0], n=n, d=d, kind=kind))
        agree = err is None and model is not None and np.array_equal(np.asarray(model, dtype=float).reshape(n, n), P)
        bad = None
        if err is not None:
            bad = dict(reason='exception', exc=err)
        else:
            bad = oracle_quadform(kind, n, d, P, rng)
        if bad is not None:
            ctx.fail(st, sig, dict(call='pygam.penalties.%s(%d, None%s)' % (kind, n, ', derivative=%d' % d if d else '')),
                     observed=bad, expected='c^T P c = sum of squared %s differences of order %d' % ('cyclic' if kind == 'periodic' else 'forward', d),
                     oracle='exact integer c^T P c vs np.diff / np.roll sums')
        elif not agree:
            ctx.disagree(st, sig, impl, model, 'matrices differ although the quadratic-form oracle holds on sampled c')


def _real_pen(name, n):
    from pygam import penalties
    if name in (None, 'none'):
        return _dense(penalties.none(n, None))
    return _dense(penalties.PENALTIES[name](n, None))


def oracle_term_penalty(term):
    """documented penalty of one term recomputed with NumPy from pygam.penalties.* (the primitives are checked by run_matrices)"""
    if term.isintercept:
        return np.zeros((1, 1))
    if term.istensor:
        dims = [int(t.n_coefs) for t in term._terms]
        n = int(np.prod(dims))
        P = np.zeros((n, n))
        for i, t in enumerate(term._terms):
            mats = [oracle_term_penalty(t) if j == i else np.eye(d) for j, d in enumerate(dims)]
            K = mats[0]
            for M in mats[1:]:
                K = np.kron(K, M)
            P += K
        return P
    n = int(term.n_coefs)
    P = np.zeros((n, n))
    for pen, lam in zip(term.penalties, np.atleast_1d(term.lam)):
        if pen == 'auto':
            if term._name == 'spline_term' and term.dtype == 'numerical':
                pen = 'periodic' if term.basis == 'cp' else 'derivative'
            else:
                pen = 'l2'
        P = P + lam * _real_pen(pen, n)
    return P


def fibre_quadform(term, c):
    """c' P c of a tensor term as the sum over marginals of the lam-weighted marginal roughness of every fibre of c"""
    dims = [int(t.n_coefs) for t in term._terms]
    C = np.asarray(c, dtype=float).reshape(dims)
    tot = 0.0
    for i, t in enumerate(term._terms):
        Pi = oracle_term_penalty(t)
        Cm = np.moveaxis(C, i, 0).reshape(dims[i], -1)
        tot += float(np.einsum('af,ab,bf->', Cm, Pi, Cm))
    return tot


def apply_history(rng, tl):
    """penalties belong to the CURRENT configuration of a term: build them once (so that anything the implementation
    might keep from that build exists), then change settings through the public attributes — cyclic -> plain basis
    (which changes what 'auto' means), 'periodic' -> 'derivative', new lam values, another penalty kind in one slot —
    and let the caller compare the penalties of the resulting configuration.  Returns a description of the edits."""
    edits = []
    tl.build_penalties()
    for t in tl:
        t.build_penalties()
    for t in tl:
        if t.isintercept:
            continue
        for s_ in (t._terms if t.istensor else [t]):
            s_.build_penalties()
            pens = list(s_.penalties)
            if s_._name == 'spline_term' and s_.basis == 'cp':
                s_.basis = 'ps'
                edits.append('cp->ps')
            if 'periodic' in pens:
                pens = ['derivative' if p_ == 'periodic' else p_ for p_ in pens]
                edits.append('periodic->derivative')
            if rng.random() < 0.4:
                j = rng.randrange(len(pens))
                pens[j] = rng.choice(['auto', 'derivative', 'l2', None])
                edits.append('penalty-kind')
            s_.penalties = pens
            if rng.random() < 0.6:
                s_.lam = [rng.choice([0.0, 0.25, 1.0, 3.0, 50.0]) for _ in np.atleast_1d(s_.lam)]
                edits.append('lam')
            s_._validate_arguments()
    return edits


def run_terms(ctx):
    pygam = common.import_pygam()
    import scipy.linalg
    st = 'pen.terms'
    st_t = 'pen.term'
    st_or = 'pen.oracle'
    ctx.stream(st, 'TermList.build_penalties() vs model penaltyAll (exact rationals; programs without the periodic penalty)')
    ctx.stream(st_t, 'term.build_penalties() vs model Term.penalty')
    ctx.stream(st_or, 'fresh terms and terms whose settings were edited after an earlier build: term penalty = sum lam_j * penalty_j; tensor = Kronecker lifts = fibre roughness; list = block diagonal with zero intercept block (NumPy, real code only)')
    nprog = 40 if ctx.tier == 'quick' else 300
    progs = []
    k = 0
    while len(progs) < nprog and k < 4 * nprog:
        rng = ctx.subrng('tprog', k)
        k += 1
        try:
            pr = termgen.gen_program(rng, pygam, allow_constraints=False, allow_periodic_penalty=(k % 4 == 0), n_query=1)
        except ValueError as e:
            ctx.count('generator-rejected', str(e)[:40])
            continue
        if k % 2 == 0:
            # history: the penalties compared below are those of the configuration reached AFTER these edits
            try:
                edits = apply_history(rng, pr.terms)
            except ValueError as e:
                ctx.count('history rejected', str(e)[:40])
                continue
            pr.tokens = termgen.encode_terms(pr.terms)
            for e_ in edits or ['none']:
                ctx.count('history edit before the compared build', e_)
        else:
            ctx.count('history edit before the compared build', 'no history (fresh terms)')
        progs.append(pr)
    # in every run: a few programs that contain a cyclic spline whose penalty is 'auto' (what 'auto' means depends on the
    # basis), each with the history "build, switch the basis to 'ps', build again"
    extra, tries = 0, 0
    while extra < (6 if ctx.tier == 'quick' else 30) and tries < 400:
        rng = ctx.subrng('tprog-cp-auto', tries)
        tries += 1
        try:
            pr = termgen.gen_program(rng, pygam, allow_constraints=False, allow_periodic_penalty=True, n_query=1, max_terms=3)
        except ValueError:
            continue
        leaves = [s_ for t in pr.terms if not t.isintercept for s_ in (t._terms if t.istensor else [t])]
        if not any(s_._name == 'spline_term' and s_.basis == 'cp' and 'auto' in list(s_.penalties) for s_ in leaves):
            continue
        try:
            edits = apply_history(rng, pr.terms)
        except ValueError:
            continue
        pr.tokens = termgen.encode_terms(pr.terms)
        for e_ in edits or ['none']:
            ctx.count('history edit before the compared build', e_)
        progs.append(pr)
        extra += 1
    # in every run: lists of look-alike terms (same class / size / lam / penalty names, different matrices)
    for j in range(1 if ctx.tier == 'quick' else 6):
        for pr in twin_programs(ctx.subrng('twins', j), pygam):
            ctx.count('history edit before the compared build', 'no history (look-alike terms in one list)')
            progs.append(pr)
    ops, meta = [], []
    for pr in progs:
        toks = ' '.join(pr.tokens)
        per = any(termgen.uses_periodic_penalty(t) for t in pr.terms)
        if not per:
            ops.append('C04 tpen ' + toks)
            for ti in range(len(pr.terms)):
                ops.append('C04 termpen %d %s' % (ti, toks))
        meta.append((pr, per))
    outs = ctx.driver.run(ops)
    pos = 0
    for pr, per in meta:
        tl = pr.terms
        sig = dict(tokens=' '.join(pr.tokens))
        ctx.count('uses periodic penalty', per)
        for kind in pr.desc['kinds']:
            ctx.count('term kind', kind)
        nontriv = any((not t.isintercept) and (t.istensor or len(np.atleast_1d(t.lam)) > 1) for t in tl)
        # ---- oracle on the real code
        try:
            P = _dense(tl.build_penalties())
            blocks = [_dense(t.build_penalties()) for t in tl]
        except Exception as e:  # noqa
            ctx.case(st_or, sig, nontrivial=nontriv)
            ctx.fail(st_or, dict(kind='exception', exc=type(e).__name__), dict(tokens=sig['tokens']), observed='%s: %s' % (type(e).__name__, str(e)[:200]),
                     expected='a penalty matrix', oracle='build_penalties must not raise')
            if not per:
                pos += 1 + len(tl)
            continue
        ref_blocks = [oracle_term_penalty(t) for t in tl]
        ref = scipy.linalg.block_diag(*ref_blocks)
        ctx.case(st_or, sig, nontrivial=nontriv)
        bad = None
        if P.shape != ref.shape or np.abs(P - ref).max() > 1e-9 * max(1.0, np.abs(ref).max()):
            bad = 'list penalty != block_diag(sum_j lam_j * penalty_j, Kronecker lifts)'
        else:
            rng = ctx.subrng('coef', sig['tokens'])
            for t, B in zip(tl, blocks):
                if t.istensor:
                    c = np.array([rng.randint(-4, 4) for _ in range(B.shape[0])], dtype=float)
                    q1 = float(c @ B @ c)
                    q2 = fibre_quadform(t, c)
                    if abs(q1 - q2) > 1e-8 * max(1.0, abs(q2)):
                        bad = 'tensor quadratic form %.12g != sum of fibre roughness %.12g' % (q1, q2)
            if not np.allclose(P, P.T):
                bad = 'not symmetric'
        if bad:
            ctx.fail(st_or, dict(kind='term-penalty', why=bad.split(' ')[0]), dict(tokens=sig['tokens']), observed=bad,
                     expected='documented assembly of term penalties', oracle='NumPy recomputation from pygam.penalties primitives')
        if per:
            continue
        # ---- model comparison
        out = outs[pos]; pos += 1
        ctx.case(st, sig, nontrivial=nontriv, sample=dict(tokens=sig['tokens']))
        if out == 'bad-op':
            ctx.disagree(st, sig, 'n/a', 'bad-op', 'model rejected the encoding')
        else:
            M = np.array([[float(v) for v in row] for row in common.parse_mat(out)]).reshape(P.shape[0], -1) if P.size else np.zeros((0, 0))
            if M.shape != P.shape or np.abs(M - P).max() > 1e-9 * max(1.0, np.abs(M).max()):
                if not bad:
                    ctx.disagree(st, sig, dict(shape=list(P.shape)), dict(shape=list(M.shape), maxdiff=float(np.abs(M - P).max()) if M.shape == P.shape else None),
                                 'model penalty differs from build_penalties although the NumPy oracle agrees with the implementation')
        for ti, t in enumerate(tl):
            out = outs[pos]; pos += 1
            ctx.case(st_t, dict(tokens=sig['tokens'], term=ti), nontrivial=not t.isintercept)
            B = blocks[ti]
            if out == 'bad-op':
                ctx.disagree(st_t, sig, 'n/a', 'bad-op', 'model rejected term %d' % ti)
                continue
            M = np.array([[float(v) for v in row] for row in common.parse_mat(out)]).reshape(B.shape[0], -1)
            if M.shape != B.shape or np.abs(M - B).max() > 1e-9 * max(1.0, np.abs(M).max()):
                if not bad:
                    ctx.disagree(st_t, dict(tokens=sig['tokens'], term=ti), B.tolist(), M.tolist(), 'term penalty differs')


def twin_programs(rng, pygam):
    """term lists that contain look-alike terms: same class, number of coefficients, lam and penalty *names*, yet different
    penalty matrices (what 'auto' means depends on basis and dtype; a tensor block depends on the order of its marginals)"""
    from pygam.terms import SplineTerm, LinearTerm, TensorTerm, TermList, Intercept
    X = np.array([[rng.randint(0, 64) / 64.0 for _ in range(5)] for _ in range(12)])
    X[0], X[1] = 0.0, 1.0
    L = rng.choice([0.6, 2.5, 10.0])
    n = rng.choice([5, 6, 8])
    a, b = rng.choice([(4, 6), (5, 7), (4, 5)])      # default spline_order 3 needs n_splines >= 4
    lists = [
        [SplineTerm(0, n_splines=n, basis='cp', lam=L), SplineTerm(1, n_splines=n, basis='ps', lam=L)],
        [SplineTerm(1, n_splines=n, basis='ps', lam=L), SplineTerm(0, n_splines=n, basis='cp', lam=L), SplineTerm(2, n_splines=n, lam=L)],
        [SplineTerm(0, n_splines=n, dtype='categorical', lam=L), SplineTerm(1, n_splines=n, lam=L)],
        [TensorTerm(SplineTerm(0, n_splines=a), SplineTerm(1, n_splines=b)), TensorTerm(SplineTerm(2, n_splines=b), SplineTerm(3, n_splines=a))],
        [TensorTerm(SplineTerm(0, n_splines=a, lam=L), LinearTerm(1, lam=L)), TensorTerm(LinearTerm(2, lam=L), SplineTerm(3, n_splines=a, lam=L))],
        [TensorTerm(SplineTerm(0, n_splines=a - 2, basis='cp', spline_order=1), SplineTerm(1, n_splines=b)),
         TensorTerm(SplineTerm(2, n_splines=a - 2, spline_order=1), SplineTerm(3, n_splines=b))],
    ]
    out = []
    for terms in lists:
        tl = TermList(*terms)
        if rng.random() < 0.5:
            tl = tl + Intercept()
        tl.compile(X)
        out.append(termgen.Program(tl, X, X[:1].copy(), termgen.encode_terms(tl),
                                   dict(n_terms=len(tl), kinds=[t._name for t in tl], m_features=5, tensor_sizes=[len(t._terms) for t in tl if t.istensor], twins=True)))
    return out


def run(ctx):
    ctx.extra['rule'] = ('full product of penalty kind x n x derivative order (matrix level); random term programs '
                         '(term level); a case is non-trivial when n > 1 resp. the term list has a penalised term; '
                         'distinct = distinct (stream, configuration) signatures')
    run_matrices(ctx)
    run_terms(ctx)


def replay(ctx, rp):
    run(ctx)
