"""
C04 — smoothing penalties measure exactly the roughness they promise.

Theorems: lean/PyGam/Props/C04.lean (quadratic forms of derivative / periodic / l2 penalties for all n, d, c;
symmetry, PSD, null spaces; lam-weighted sums; Kronecker lifting; block-diagonal assembly).
Correspondence: the model's matrices (exact integers, computed by the Lean driver from the very
definitions the theorems are about) against pygam.penalties.* and Term/TensorTerm/TermList.build_penalties().
Oracle: c' P c against np.diff / np.roll sums on the real code, exact integer arithmetic.
"""
import hashlib
import itertools

import numpy as np

from harness import common
from harness.gen import termgen


def _dense(M):
    return np.asarray(M.todense()) if hasattr(M, 'todense') else np.asarray(M)


def oracle_quadform(kind, n, d, P, rng, trials=6):
    """property oracle on the real code: returns None if it holds, else a description of the failing c"""
    P = np.asarray(P, dtype=float)
    if P.shape != (n, n):
        return dict(reason='shape', shape=list(P.shape))
    if not np.array_equal(P, P.T):
        return dict(reason='not symmetric')
    cs = [np.ones(n), np.arange(n, dtype=float)]
    for _ in range(trials):
        cs.append(np.array([rng.randint(-9, 9) for _ in range(n)], dtype=float))
    # a symmetric matrix is determined by its quadratic form on e_i and e_i + e_j: complete for small n
    if n <= 16:
        eye = np.eye(n)
        cs += [eye[i] for i in range(n)] + [eye[i] + eye[j] for i in range(n) for j in range(i)]
    for c in cs:
        got = float(c @ P @ c)
        if kind == 'derivative':
            want = float(np.sum(np.diff(c, n=d) ** 2)) if n > d else 0.0
        elif kind == 'periodic':
            v = c.copy()
            for _ in range(d):
                v = np.roll(v, -1) - v
            want = float(np.sum(v ** 2)) if n > 1 else 0.0
        elif kind == 'l2':
            want = float(np.sum(c ** 2))
        elif kind == 'none':
            want = 0.0
        if got != want:
            return dict(reason='quadratic form', c=c.tolist(), got=got, want=want)
    return None


def run_matrices(ctx):
    pygam = common.import_pygam()
    from pygam import penalties
    st = 'pen.matrix'
    ctx.stream(st, 'pygam.penalties.{derivative,periodic,l2,none}(n, d) entry by entry vs model (exact integers)')
    ns = list(range(1, 15)) + [20, 40]
    if ctx.tier == 'thorough':
        ns = list(range(1, 31)) + [40, 64]
    ds = [1, 2, 3, 4] if ctx.tier == 'quick' else [1, 2, 3, 4, 5, 6]
    cases = []
    for n in ns:
        for d in ds:
            cases.append(('derivative', n, d))
            cases.append(('periodic', n, d))
        cases.append(('l2', n, 0))
        cases.append(('none', n, 0))
    ops = []
    for kind, n, d in cases:
        ops.append('C04 pen %s %d%s' % (kind, n, (' %d' % d) if kind in ('derivative', 'periodic') else ''))
    outs = ctx.driver.run(ops)
    for (kind, n, d), out in zip(cases, outs):
        ctx.count('penalty kind', kind)
        rng = ctx.subrng(kind, n, d)
        try:
            if kind == 'derivative':
                P = _dense(penalties.derivative(n, None, derivative=d))
            elif kind == 'periodic':
                P = _dense(penalties.periodic(n, None, derivative=d))
            elif kind == 'l2':
                P = _dense(penalties.l2(n, None))
            else:
                P = _dense(penalties.none(n, None))
            impl = P.tolist()
            err = None
        except Exception as e:  # noqa
            impl, err, P = None, type(e).__name__, None
        model = [[int(x) for x in row] for row in common.parse_mat(out)] if out != 'bad-op' else None
        sig = dict(penalty=kind, n=n, d=d)
        if P is not None:
            dg = hashlib.sha1(repr(np.asarray(P, dtype=float).round(9).tolist()).encode()).hexdigest()[:12]
            sig['nd_digest'] = '%d,%d:%s' % (n, d, dg)
        else:
            sig['nd_digest'] = '%d,%d:%s' % (n, d, err)
        ctx.case(st, sig, nontrivial=(n > 1), sample=dict(op=ops[0], n=n, d=d, kind=kind))
        agree = err is None and model is not None and np.array_equal(np.asarray(model, dtype=float).reshape(n, n), P)
        bad = None
        if err is not None:
            bad = dict(reason='exception', exc=err)
        else:
            bad = oracle_quadform(kind, n, d, P, rng)
        if bad is not None:
            ctx.fail(st, sig, dict(call='pygam.penalties.%s(%d, None%s)' % (kind, n, ', derivative=%d' % d if d else '')),
                     observed=bad, expected='c^T P c = sum of squared %s differences of order %d' % ('cyclic' if kind == 'periodic' else 'forward', d),
                     oracle='exact integer c^T P c vs np.diff / np.roll sums')
        elif not agree:
            ctx.disagree(st, sig, impl, model, 'matrices differ although the quadratic-form oracle holds on sampled c')


def run(ctx):
    ctx.extra['rule'] = ('full product of penalty kind x n x derivative order (matrix level); random term programs '
                         '(term level); a case is non-trivial when n > 1 resp. the term list has a penalised term; '
                         'distinct = distinct (stream, configuration) signatures')
    run_matrices(ctx)
    if hasattr(termgen, 'run_c04_terms'):
        termgen.run_c04_terms(ctx)


def replay(ctx, rp):
    run(ctx)
