"""
C03 — the spline basis is the Cox-de Boor B-spline basis with linear / periodic continuation.

Theorems: lean/PyGam/Props/C03.lean (support, non-negativity, partition of unity on the closed knot range,
bandwidth, linear continuation rows sum to one and are affine in x, affine invariance in (x, edge knots),
periodic rows sum to one and repeat with the knot range, default knots).
Correspondence: exact rational rows of the Lean model `basisRow` (the very definition the theorems are
about) vs pygam.utils.b_spline_basis (dense and sparse) and SplineTerm.build_columns, |diff| <= 1e-9 max(1,|model|).
Oracle (real code only): non-negativity / row sums / bandwidth inside, row sums + vanishing second differences
outside, periodicity, affine invariance, scipy.interpolate.BSpline as an independent reference.
"""
import ast
import inspect
import math
from fractions import Fraction

import numpy as np

from harness import common

TOL = 1e-9


def harvest_literals(fn):
    vals = set()
    try:
        tree = ast.parse(inspect.getsource(fn))
    except Exception:
        return []
    for node in ast.walk(tree):
        if isinstance(node, ast.Constant) and isinstance(node.value, (int, float)) and not isinstance(node.value, bool):
            v = float(node.value)
            if math.isfinite(v) and abs(v) < 1e6:
                vals.add(v)
    return sorted(vals)


def configs(ctx):
    quick = ctx.tier == 'quick'
    orders = [0, 1, 2, 3, 4, 5]
    out = []
    for p in orders:
        ns = sorted(set([p + 1, p + 2, p + 3, 7, 12] + ([20] if quick else [5, 9, 16, 20, 33, 40])))
        ns = [n for n in ns if n >= p + 1]
        for n in ns:
            for periodic in (False, True):
                out.append((p, n, periodic))
    return out


# any offset / scale: unit, generic, narrow at a large offset, degenerate, huge, reversed, and tiny-but-non-zero ranges
# (2^-40 and 5e-9: below every absolute closeness threshold a float comparison might use, yet a perfectly good range)
KNOT_PAIRS = [(0.0, 1.0), (-3.5, 12.25), (1000.0, 1000.0009765625), (2.0, 2.0), (-1e6, 3e6), (5.0, -1.0), (0.0, 2.0 ** -40), (3e-9, 8e-9)]


def xs_for(ctx, p, n, periodic, e0, e1, rng, lits):
    """evaluation points (floats), chosen so that float rescaling cannot flip a discontinuity"""
    lo, hi = min(e0, e1), max(e0, e1)
    scale = (hi - lo) if hi != lo else 1.0
    N = n + (p if periodic else 0)
    cells = N - p
    pts = set()
    # boundaries (exact in float: x' = 0 and 1)
    pts.update([lo, hi])
    # relative positions u in rescaled coordinates
    us = []
    # cell mid-points and quarter points (never on a knot)
    for k in range(cells):
        for f in (0.5, 0.25, 0.8125):
            us.append((k + f) / cells)
    if p >= 1:
        # knots themselves: continuous there, so a 1-ulp flip is harmless
        us += [k / cells for k in range(cells + 1)]
    # far and near outside
    outs = [-0.25, -1.0, -7.5, 1.25, 2.0, 9.75, -1e-3, 1 + 1e-3, -123.0, 55.5]
    if periodic and p == 0:
        # periodic order 0: stay away from the wrap discontinuities
        outs = [-0.26, -1.13, -7.52, 1.27, 2.31, 9.77, -123.37, 55.51]
    us += outs
    # literal-seeded: every numeric literal of the function as a relative position and as an offset
    for v in lits:
        for u in (v, -v, 1 + v, 1 - v, 0.5 + v):
            if abs(u) < 1e4:
                us.append(u)
    for _ in range(6 if ctx.tier == 'quick' else 30):
        us.append(rng.uniform(-2.5, 3.5))
        us.append(rng.uniform(0, 1))
    for u in us:
        x = lo + u * scale
        pts.add(float(x))
    pts = sorted(pts)
    # drop points whose exact rescaled position is within 1e-6 (relative to a cell) of a discontinuity
    keep = []
    for x in pts:
        xr = (common.f2q(x) - common.f2q(lo)) / common.f2q(scale)
        pos = xr * cells
        near_knot = abs(pos - round(pos)) < Fraction(1, 10 ** 6) and pos != round(pos)
        on_knot = pos == round(pos)
        frac_int = abs(xr - round(xr)) < Fraction(1, 10 ** 6)
        if p == 0:
            # order 0 is discontinuous at every knot: keep only exact boundaries 0 and 1
            if near_knot:
                continue
            if on_knot and not (xr == 0 or xr == 1):
                continue
            if periodic and frac_int and not (xr == 0 or xr == 1):
                continue
        if periodic and frac_int and xr != round(xr):
            continue  # wrap discontinuity up to O(1e-9)
        keep.append(x)
    return keep


def oracle_rows(p, n, periodic, lo, hi, xs, B):
    """property oracle on rows of the real basis; returns list of (index, reason)"""
    bad = []
    scale = (hi - lo) if hi != lo else 1.0
    for i, x in enumerate(xs):
        row = B[i]
        u = (x - lo) / scale
        inside = 0.0 <= u <= 1.0
        s = float(row.sum())
        if periodic or inside:
            if row.min() < -1e-10:
                bad.append((i, 'negative entry %.3g' % row.min()))
            if abs(s - 1) > 1e-8:
                bad.append((i, 'row sum %.12g' % s))
            nz = np.nonzero(np.abs(row) > 1e-13)[0]
            if len(nz) > p + 1:
                bad.append((i, '%d non-zeros > order+1' % len(nz)))
            if not periodic and len(nz) and nz[-1] - nz[0] > p:
                bad.append((i, 'non-zeros not consecutive'))
        elif p >= 1:
            if abs(s - 1) > 1e-8 * max(1, abs(u)):
                bad.append((i, 'extrapolated row sum %.12g' % s))
    return bad


def run(ctx):
    pygam = common.import_pygam()
    from pygam.utils import b_spline_basis, gen_edge_knots
    from pygam.terms import SplineTerm
    import scipy.interpolate as si

    lits = harvest_literals(b_spline_basis)
    st = 'basis.rows'
    ctx.stream(st, 'b_spline_basis(x, edge_knots, n_splines, order, periodic, sparse in {T,F}) vs exact model rows, 1e-9')
    st_term = 'basis.term'
    ctx.stream(st_term, 'SplineTerm.build_columns (with by-variable) vs model rows')
    st_or = 'basis.oracle'
    ctx.stream(st_or, 'non-negativity, row sums, bandwidth, linear continuation, periodicity, affine invariance, scipy BSpline reference on the real code')
    st_k = 'basis.knots'
    ctx.stream(st_k, 'gen_edge_knots vs model edgeKnots')
    ctx.extra['rule'] = ('full product order 0..5 x n_splines x periodic x edge-knot pairs; x = boundaries, cell interior points, '
                         'knots (order>=1), far/near outside, literal-seeded and random positions; distinct = (config, knot pair); '
                         'non-trivial = order >= 1 or periodic or a non-unit knot pair')

    cfgs = configs(ctx)
    pairs = KNOT_PAIRS if ctx.tier == 'thorough' else KNOT_PAIRS[:4] + KNOT_PAIRS[5:]
    ops = []
    meta = []
    for (p, n, periodic) in cfgs:
        for (e0, e1) in pairs:
            rng = ctx.subrng(p, n, periodic, e0, e1)
            xs = xs_for(ctx, p, n, periodic, e0, e1, rng, lits)
            for x in xs:
                ops.append('C03 row %d %d %d %s %s %s' % (n, p, 1 if periodic else 0, common.q2s(common.f2q(e0)), common.q2s(common.f2q(e1)), common.q2s(common.f2q(x))))
            meta.append((p, n, periodic, e0, e1, xs))
    outs = ctx.driver.run(ops)
    k = 0
    nrows = 0
    for (p, n, periodic, e0, e1, xs) in meta:
        lo, hi = min(e0, e1), max(e0, e1)
        xa = np.array(xs)
        sig = dict(order=p, n_splines=n, periodic=periodic, knots=[e0, e1])
        ctx.count('order', p); ctx.count('periodic', periodic); ctx.count('knot pair', '%g,%g' % (e0, e1))
        model = np.array([[float(q) for q in common.parse_vec(outs[k + i])] for i in range(len(xs))])
        k += len(xs)
        nrows += len(xs)
        try:
            Bd = b_spline_basis(xa, [e0, e1], n_splines=n, spline_order=p, sparse=False, periodic=periodic, verbose=False)
            Bs = b_spline_basis(xa, [e0, e1], n_splines=n, spline_order=p, sparse=True, periodic=periodic, verbose=False)
            Bs = np.asarray(Bs.todense())
            err = None
        except Exception as e:  # noqa
            err = '%s: %s' % (type(e).__name__, str(e)[:100])
        ctx.case(st, sig, nontrivial=(p >= 1 or periodic or (e0, e1) != (0.0, 1.0)),
                 sample=dict(config=sig, xs=xs[:5], model_row=[str(v) for v in model[0][:6]]))
        if err is not None:
            ctx.fail(st, dict(sig, kind='exception'), dict(call='b_spline_basis', xs=xs, edge_knots=[e0, e1], n_splines=n, spline_order=p, periodic=periodic),
                     observed=err, expected='a basis matrix', oracle='b_spline_basis must accept every finite x')
            continue
        if Bd.shape != (len(xs), n):
            ctx.fail(st, dict(sig, kind='shape'), dict(xs=xs), observed=list(Bd.shape), expected=[len(xs), n], oracle='shape (len(x), n_splines)')
            continue
        tol = TOL * np.maximum(1.0, np.abs(model))
        diff = np.abs(Bd - model)
        diff_s = np.abs(Bs - Bd)
        bad_rows = sorted(set(np.nonzero((diff > tol).any(axis=1))[0].tolist()) | set(np.nonzero((diff_s > 1e-15).any(axis=1))[0].tolist()))
        obad = oracle_rows(p, n, periodic, lo, hi, xs, Bd)
        ctx.case(st_or, sig, nontrivial=True)
        # scipy reference on the inside (non-periodic, order >= 1), independent of both
        if not periodic and p >= 1 and hi > lo:
            cells = n - p
            h = 1.0 / cells
            t = np.array([(j - p) * h for j in range(n + p + 1)])
            for i, x in enumerate(xs):
                u = (x - lo) / (hi - lo)
                if 0.0 <= u < 1.0:
                    ref = np.array([si.BSpline.basis_element(t[j:j + p + 2], extrapolate=False)(u) for j in range(n)])
                    ref = np.nan_to_num(ref)
                    if np.abs(ref - Bd[i]).max() > 1e-8:
                        obad.append((i, 'differs from scipy BSpline by %.3g' % np.abs(ref - Bd[i]).max()))
        if obad:
            i, why = obad[0]
            ctx.fail(st_or, dict(sig, kind='oracle', why=why.split(' ')[0]),
                     dict(call='b_spline_basis', x=xs[i], edge_knots=[e0, e1], n_splines=n, spline_order=p, periodic=periodic),
                     observed=dict(row=Bd[i].tolist(), reason=why), expected='Cox-de Boor row: >= 0, sums to 1, at most order+1 consecutive non-zeros (inside); sums to 1 (continued)',
                     oracle='row-wise property oracle on the real code', detail='%d failing rows' % len(obad))
        elif bad_rows:
            i = bad_rows[0]
            ctx.disagree(st, dict(sig, x=xs[i]), Bd[i].tolist(), model[i].tolist(),
                         'model and implementation rows differ by %.3g (sparse/dense %.3g) although the row oracle holds' % (diff[i].max(), diff_s[i].max()))

    ctx.extra['rows_compared'] = nrows

    # ---- metamorphic oracles on the real code: affine invariance, periodicity, linear continuation ----
    rng = ctx.subrng('meta')
    for (p, n, periodic) in cfgs:
        for trial in range(2 if ctx.tier == 'quick' else 6):
            a = 10 ** rng.uniform(-6, 6)
            b = rng.uniform(-1e3, 1e3)
            e0, e1 = 0.0, 1.0
            us = np.array([rng.uniform(-1.5, 2.5) for _ in range(12)] + [0.0, 1.0])
            if p == 0:
                cells = n
                us = us[np.abs(us * cells - np.round(us * cells)) > 1e-3]
            if periodic:
                us = us[np.abs(us - np.round(us)) > 1e-3]
            B0 = b_spline_basis(us, [e0, e1], n_splines=n, spline_order=p, sparse=False, periodic=periodic, verbose=False)
            B1 = b_spline_basis(a * us + b, [a * e0 + b, a * e1 + b], n_splines=n, spline_order=p, sparse=False, periodic=periodic, verbose=False)
            sig = dict(order=p, n_splines=n, periodic=periodic, meta='affine')
            ctx.case(st_or, dict(sig, trial=trial), nontrivial=True)
            # rounding of (a u + b) amplifies with |b|/a: allow for it
            cond = 1e-15 * (abs(b) / a + 1) * max(1, p) * (n) * 50
            if p >= 1 or True:
                d = np.abs(B0 - B1).max()
                if p == 0 or periodic:
                    # discontinuous cases: only compare rows whose position is far (relative to rounding) from jumps
                    pass
                if d > max(1e-8, cond * 1e3) and not (p == 0 and cond > 1e-4):
                    ctx.fail(st_or, dict(sig, kind='oracle', why='affine'),
                             dict(a=a, b=b, us=us.tolist(), n_splines=n, spline_order=p, periodic=periodic),
                             observed=dict(maxdiff=float(d)), expected='basis(a x + b; a e + b) == basis(x; e)', oracle='affine invariance')
        if periodic:
            us = np.array([0.12341, 0.37113, 0.61771, 0.93137])
            B0 = b_spline_basis(us, [0.0, 1.0], n_splines=n, spline_order=p, sparse=False, periodic=True, verbose=False)
            for kshift in (-3, -1, 1, 2, 10):
                Bk = b_spline_basis(us + kshift, [0.0, 1.0], n_splines=n, spline_order=p, sparse=False, periodic=True, verbose=False)
                ctx.case(st_or, dict(order=p, n_splines=n, meta='period', k=kshift), nontrivial=True)
                if np.abs(Bk - B0).max() > 1e-9:
                    ctx.fail(st_or, dict(order=p, n_splines=n, kind='oracle', why='period'), dict(us=us.tolist(), shift=kshift, n_splines=n, spline_order=p),
                             observed=dict(maxdiff=float(np.abs(Bk - B0).max())), expected='basis(x + k*range) == basis(x)', oracle='periodicity with the knot range')
        elif p >= 1:
            for side in (-1, 1):
                base = -0.5 if side < 0 else 1.5
                us = np.array([base + side * j * 0.75 for j in range(4)])
                B = b_spline_basis(us, [0.0, 1.0], n_splines=n, spline_order=p, sparse=False, periodic=False, verbose=False)
                d2 = np.abs(B[2:] - 2 * B[1:-1] + B[:-2]).max()
                ctx.case(st_or, dict(order=p, n_splines=n, meta='linear', side=side), nontrivial=True)
                # the continuation slope is the boundary slope of the spline itself (one-sided difference inside)
                edge = 0.0 if side < 0 else 1.0
                dl = 1e-6
                Bi = b_spline_basis(np.array([edge, edge - side * dl, edge + side * 1.0]), [0.0, 1.0], n_splines=n, spline_order=p, sparse=False, periodic=False, verbose=False)
                slope_in = (Bi[1] - Bi[0]) / (-side * dl)
                slope_out = (Bi[2] - Bi[0]) / (side * 1.0)
                if np.abs(slope_in - slope_out).max() > 1e-3 * max(1.0, np.abs(slope_in).max()) * (1 if p == 1 else 5 * n * p):
                    ctx.fail(st_or, dict(order=p, n_splines=n, kind='oracle', why='slope'), dict(side=side, n_splines=n, spline_order=p),
                             observed=dict(slope_inside=slope_in.tolist(), slope_outside=slope_out.tolist()),
                             expected='continuation slope == one-sided derivative of the basis at the edge knot', oracle='boundary slope')
                if d2 > 1e-8 * max(1.0, np.abs(B).max()):
                    ctx.fail(st_or, dict(order=p, n_splines=n, kind='oracle', why='linear'), dict(us=us.tolist(), n_splines=n, spline_order=p),
                             observed=dict(second_difference=float(d2)), expected='rows affine in x outside the knot range', oracle='linear continuation')

    # ---- SplineTerm.build_columns and default knots ----
    rng = ctx.subrng('term')
    ops, meta = [], []
    for trial in range(12 if ctx.tier == 'quick' else 60):
        p = rng.randint(0, 4)
        n = rng.randint(p + 1, 12)
        basis = rng.choice(['ps', 'cp'])
        nrow = rng.randint(3, 9)
        X = np.array([[rng.choice([rng.uniform(-5, 5), float(rng.randint(-3, 3))]) for _ in range(3)] for _ in range(nrow)])
        # dyadic feature values so that the exact rescaling is benign; mid-cell for order 0
        X[:, 0] = np.array([rng.randint(0, 64) / 64.0 for _ in range(nrow)]) * 4 - 1
        if p == 0 or basis == 'cp':
            X[:, 0] = (np.array([rng.randint(0, n - 1) for _ in range(nrow)]) + 0.5) / n * 4 - 1
            X[0, 0], X[1, 0] = -1.0, 3.0
        by = rng.choice([None, 1])
        if trial % 3 == 0:
            # in every run: a by-variable that is exactly 0 on the rows holding the minimum and the maximum of the feature
            # (the default knots are the range of the FEATURE, whatever the by-variable does) and non-zero elsewhere
            by = 1
            X[:, 1] = np.where(X[:, 1] == 0, 1.0, X[:, 1])
            X[int(np.argmin(X[:, 0])), 1] = 0.0
            X[int(np.argmax(X[:, 0])), 1] = 0.0
        Xq = X.copy()
        if p >= 1 and basis == 'ps':
            Xq[:, 0] = Xq[:, 0] * 1.5 - 0.3   # prediction-time X outside the training range
        term = SplineTerm(0, n_splines=n, spline_order=p, basis=basis, by=by)
        term.compile(X)
        ek = [float(v) for v in term.edge_knots_]
        cols = np.asarray(term.build_columns(Xq).todense())
        meta.append((p, n, basis, by, X, Xq, ek, cols))
        ops.append('C03 knots 0 %s %s' % (common.q2s(common.f2q(X[:, 0].min())), common.q2s(common.f2q(X[:, 0].max()))))
        for x in Xq[:, 0]:
            ops.append('C03 row %d %d %d %s %s %s' % (n, p, 1 if basis == 'cp' else 0, common.q2s(common.f2q(ek[0])), common.q2s(common.f2q(ek[1])), common.q2s(common.f2q(x))))
    outs = ctx.driver.run(ops)
    k = 0
    for (p, n, basis, by, X, Xq, ek, cols) in meta:
        mk = [float(q) for q in common.parse_vec(outs[k])]
        k += 1
        sig = dict(order=p, n_splines=n, basis=basis, by=by)
        ctx.case(st_k, sig, nontrivial=True)
        if mk != ek or ek != [float(X[:, 0].min()), float(X[:, 0].max())]:
            ctx.fail(st_k, dict(kind='knots'), dict(x=X[:, 0].tolist()), observed=ek, expected=[float(X[:, 0].min()), float(X[:, 0].max())], oracle='default edge knots = (min, max) of the feature')
        model = np.array([[float(q) for q in common.parse_vec(outs[k + i])] for i in range(len(Xq))])
        k += len(Xq)
        if by is not None:
            model = model * Xq[:, by][:, None]
        ctx.case(st_term, sig, nontrivial=True, sample=dict(sig, x=Xq[:3, 0].tolist()))
        if cols.shape != model.shape or (np.abs(cols - model) > TOL * np.maximum(1, np.abs(model))).any():
            # independent oracle: the term must reproduce b_spline_basis (times by)
            ref = b_spline_basis(Xq[:, 0], ek, n_splines=n, spline_order=p, sparse=False, periodic=(basis == 'cp'), verbose=False)
            if by is not None:
                ref = ref * Xq[:, by][:, None]
            if cols.shape != ref.shape or np.abs(cols - ref).max() > 1e-12:
                ctx.fail(st_term, dict(sig, kind='term-columns'), dict(X=Xq.tolist(), edge_knots=ek), observed=cols.tolist(), expected=ref.tolist(),
                         oracle='SplineTerm.build_columns == b_spline_basis(feature) * by')
            else:
                ctx.disagree(st_term, sig, cols.tolist(), model.tolist(), 'term columns differ from the model rows')


    # ---- gen_edge_knots itself, both dtypes: numerical -> (min, max); categorical -> (min - 1/2, max + 1/2)
    rngk = ctx.subrng('gen_edge_knots')
    kcases = []
    for trial in range(12 if ctx.tier == 'quick' else 120):
        cat = trial % 2 == 1
        if cat:
            base = rngk.choice([0, 1, -3, 7, 100])
            data = np.array([float(base + rngk.randint(0, rngk.choice([1, 2, 5, 9]))) for _ in range(rngk.randint(1, 12))])
        else:
            a_ = rngk.choice([0.0, -2.5, 1e6, -1e-3])
            data = np.array([a_ + rngk.randint(0, 1024) / 256.0 for _ in range(rngk.randint(1, 12))])
        kcases.append((cat, data))
    kouts = ctx.driver.run(['C03 knots %d %s %s' % (1 if cat else 0, common.q2s(common.f2q(d.min())), common.q2s(common.f2q(d.max()))) for cat, d in kcases])
    for (cat, d), o in zip(kcases, kouts):
        sigk = dict(dtype='categorical' if cat else 'numerical', data=d.tolist())
        ctx.case(st_k, sigk, nontrivial=True)
        want = [float(d.min()) - 0.5, float(d.max()) + 0.5] if cat else [float(d.min()), float(d.max())]
        try:
            got = [float(v) for v in gen_edge_knots(d, 'categorical' if cat else 'numerical', verbose=False)]
        except Exception as e:  # noqa
            got = '%s: %s' % (type(e).__name__, str(e)[:100])
        mk = [float(q) for q in common.parse_vec(o)] if o != 'bad-op' else None
        if got != want:
            ctx.fail(st_k, dict(kind='gen_edge_knots', dtype=sigk['dtype']), sigk, observed=got, expected=want,
                     oracle='edge knots of a feature: its range, widened by half a category on each side for a categorical feature')
        elif mk != want:
            ctx.disagree(st_k, sigk, got, mk, 'model edgeKnots differs from gen_edge_knots')

    # ---- default knots follow the data of every compile / fit (also of a re-compile, of a deep copy, of a refit)
    import copy
    from pygam import LinearGAM
    rng = ctx.subrng('recompile')
    for trial in range(6 if ctx.tier == 'quick' else 40):
        p = rng.randint(0, 3)
        n = rng.randint(p + 1, 9)
        basis = rng.choice(['ps', 'cp'])
        X1 = np.array([[rng.uniform(0, 1)] for _ in range(30)])
        X2 = np.array([[rng.uniform(5, 9)] for _ in range(30)])
        term = SplineTerm(0, n_splines=n, spline_order=p, basis=basis)
        term.compile(X1)
        t2 = copy.deepcopy(term)
        term.compile(X2)
        t2.compile(X2)
        want = [float(X2.min()), float(X2.max())]
        sig = dict(order=p, n_splines=n, basis=basis, recompile=True)
        ctx.case(st_k, sig, nontrivial=True)
        for which, tt in (('recompiled term', term), ('recompiled deep copy', t2)):
            got = [float(v) for v in tt.edge_knots_]
            if got != want:
                ctx.fail(st_k, dict(kind='knots', why='recompile'), dict(term='s(0, n_splines=%d, spline_order=%d, basis=%r)' % (n, p, basis), which=which,
                         first_range=[float(X1.min()), float(X1.max())], second_range=want), observed=got, expected=want,
                         oracle='default edge knots = (min, max) of the feature of the data being compiled')
                break
        if trial < 3:
            y1 = np.sin(3 * X1[:, 0]); y2 = np.cos(X2[:, 0])
            g = LinearGAM(SplineTerm(0, n_splines=max(n, 4), spline_order=min(p, 3), basis=basis)).fit(X1, y1)
            g.fit(X2, y2)
            got = [float(v) for v in g.terms[0].edge_knots_]
            ctx.case(st_k, dict(sig, refit=True), nontrivial=True)
            if got != want:
                ctx.fail(st_k, dict(kind='knots', why='refit'), dict(first_range=[float(X1.min()), float(X1.max())], second_range=want), observed=got, expected=want,
                         oracle='after a refit the default edge knots are (min, max) of the new data')


def replay(ctx, rp):
    run(ctx)
