"""
C17 — posterior simulation draws from the stated sampling distributions.

Theorems: lean/PyGam/Props/C17.lean about `sample` (Model/Sampling.lean = GAM.sample / _sample_coef /
_bootstrap_samples_of_smoothing / _simulate_coef_from_bootstraps / utils.load_diagonal) with the random generators as
oracle arguments: rejections, shapes, with one bootstrap exactly one MVN call with (coef_, cov + sqrt(eps) I, n_draws),
simulated means = inverse link of modelmat(X) . draws, simulated responses = the family sampler called with
`samplerParams` (Model/Dists.lean).

Correspondence: numpy.random.{choice, multivariate_normal, normal, binomial, poisson, gamma, wald, randn} are patched in
this process to record their arguments and to return *supplied* closed-form draws
(mvn: mean_j + cov_jj u[p, j]; responses: affine in the parameters with a supplied t per entry); gam.sample(X, y,
quantity in {coef, mu, y}, n_draws, n_bootstraps = 1, sample_at_X in {None, other rows}) is run for every model class x
term mix, and the recorded arguments and the returned arrays are compared (1e-12) with the Lean pipeline fed the same
supplied draws (`C17 sample`).  Streams:
  sample.values     returned array (coef / mu / y) vs the model pipeline
  sample.gen-args   arguments received by choice / multivariate_normal vs the model (`choice k n`, calls, mean, cov)
  sample.reject     exception classes over quantity x fitted x n_draws x n_bootstraps x data validity vs `validate`
  sample.load       cov + sqrt(eps) I (the covariance received by the MVN generator) vs `loadDiagonal sqrtEpsMach`
  sample.bootstraps (thorough) n_bootstraps in {2, 3}: grouping of draws by bootstrap index, sizes and order of MVN calls
  sample.statistics (thorough) seeded real draws: mean / covariance of 2e4 coefficient draws vs coef_ / cov, standardised
                    response draws — supporting evidence only
Oracle (NumPy only): the property sentence by sentence on the recorded run (mean / covariance / size handed to the MVN
generator, mu = g^-1(B(X) draws^T)^T, documented parameterisation of each response sampler, shapes, rejections).
"""
import contextlib
import io
import math

import numpy as np

from harness import common
from harness.common import f2bits, bits2f
from harness.props import c09 as base

EPS = 2.0 ** -52
SQRT_EPS = 2.0 ** -26
MAX_FAILS = 10

LABELS = ['LinearGAM', 'LinearGAM.known', 'LogisticGAM', 'PoissonGAM', 'GammaGAM', 'GammaGAM.known', 'InvGaussGAM',
          'InvGaussGAM.known', 'ExpectileGAM.5', 'ExpectileGAM.8.known', 'GAM/binomial3/logit', 'GAM/gamma/inverse',
          'GAM/normal/log']
MIXES = ['s0', 's0+l1', 's0+f2', 's0+s1by3', 'te01', 'l0+l1', 'cp0+f2d']
FAMTOK = {'normal': 'normal', 'binomial': 'binomial', 'poisson': 'poisson', 'gamma': 'gamma', 'inv_gauss': 'inv_gauss'}


# ------------------------------------------------------------------------------------------------
# patched generators
# ------------------------------------------------------------------------------------------------
class Recorder:
    """stand-ins for numpy.random.* that record their arguments and return supplied closed-form draws"""

    def __init__(self, seed, idx=None, passthrough=False):
        self.rs = np.random.RandomState(seed)
        self.idx = idx
        self.choice_calls = []
        self.mvn_calls = []       # (mean, cov, size, u)
        self.resp_calls = []      # (name, args dict, t)
        self.randn_calls = []
        self.real = {}

    def _u(self, shape, lo=-1.0, hi=1.0):
        # dyadic rationals: exactly representable, products with them are still rounded identically on both sides
        return lo + (hi - lo) * self.rs.randint(0, 2 ** 20 + 1, size=shape) / float(2 ** 20)

    def choice(self, a, size=None, replace=True, p=None):
        a = np.asarray(a)
        self.choice_calls.append(dict(a=a.copy(), size=size, replace=replace, p=p))
        if self.idx is not None:
            out = np.asarray(self.idx, dtype=int)
        else:
            out = np.zeros(int(size), dtype=int)
        return a[out]

    def multivariate_normal(self, mean, cov, size=None, **kw):
        mean = np.asarray(mean, dtype=float)
        cov = np.asarray(cov, dtype=float)
        u = self._u((int(size), len(mean)))
        self.mvn_calls.append(dict(mean=mean.copy(), cov=cov.copy(), size=size, u=u, kw=dict(kw)))
        return mean[None, :] + np.diag(cov)[None, :] * u

    def _resp(self, name, shp_, **args):
        t = self._u(shp_, 0.25, 1.0)
        self.resp_calls.append(dict(name=name, args={k: np.array(v, dtype=float, copy=True) for k, v in args.items()}, t=t))
        return t

    def normal(self, loc=0.0, scale=1.0, size=None):
        t = self._resp('normal', np.shape(loc), loc=loc, scale=scale)
        return loc + scale * t

    def binomial(self, n, p, size=None):
        t = self._resp('binomial', np.shape(p), n=n, p=p)
        return n * t + p

    def poisson(self, lam=1.0, size=None):
        t = self._resp('poisson', np.shape(lam), lam=lam)
        return lam * t

    def gamma(self, shape, scale=1.0, size=None):
        t = self._resp('gamma', np.shape(scale), shape=shape, scale=scale)
        return shape * t + scale

    def wald(self, mean, scale, size=None):
        t = self._resp('wald', np.shape(mean), mean=mean, scale=scale)
        return mean * t + scale

    def randn(self, *shape):
        self.randn_calls.append(shape)
        return self.rs.randn(*shape)


NAMES = ['choice', 'multivariate_normal', 'normal', 'binomial', 'poisson', 'gamma', 'wald', 'randn']


@contextlib.contextmanager
def patched(rec):
    saved = {n: getattr(np.random, n) for n in NAMES}
    try:
        for n in NAMES:
            setattr(np.random, n, getattr(rec, n))
        yield rec
    finally:
        for n, f in saved.items():
            setattr(np.random, n, f)


def quiet(f, *a, **k):
    """call with stdout / stderr silenced (also at file-descriptor level: the gridsearch progress bar keeps its own handle)"""
    import os
    import sys
    buf = io.StringIO()
    sys.stdout.flush()
    sys.stderr.flush()
    saved = os.dup(2)
    devnull = os.open(os.devnull, os.O_WRONLY)
    try:
        os.dup2(devnull, 2)
        with contextlib.redirect_stdout(buf), contextlib.redirect_stderr(buf):
            return f(*a, **k)
    finally:
        os.dup2(saved, 2)
        os.close(saved)
        os.close(devnull)


# ------------------------------------------------------------------------------------------------
# helpers
# ------------------------------------------------------------------------------------------------
def fit_info(gam, cfg):
    ctor, kw, fam, link, known = base.LABELS[cfg['label']]
    return dict(fam=fam, link=link, levels=float(gam.distribution.levels) if fam == 'binomial' else 1.0,
                coef=np.asarray(gam.coef_, dtype=float).copy(), cov=np.asarray(gam.statistics_['cov'], dtype=float).copy(),
                scale=float(gam.statistics_['scale']), m=len(gam.coef_))


def sample_line(info, quantity, fitted, n_boot, n_draws, data_ok, MX, MAt, idx, extra, rec):
    m = info['m']
    toks = ['C17', 'sample', quantity, '1' if fitted else '0', str(n_boot), str(n_draws), '1' if data_ok else '0',
            FAMTOK[info['fam']], info['link'], f2bits(info['levels']), f2bits(info['scale']),
            str(m), str(MX.shape[0]), str(-1 if MAt is None else MAt.shape[0]), str(len(extra)), str(len(idx))]
    toks += [str(int(i)) for i in idx]
    toks += [f2bits(v) for v in info['coef']] + [f2bits(v) for v in info['cov'].ravel()]
    for (c, v) in extra:
        toks += [f2bits(x) for x in c] + [f2bits(x) for x in v.ravel()]
    toks += [f2bits(v) for v in MX.ravel()]
    if MAt is not None:
        toks += [f2bits(v) for v in MAt.ravel()]
    calls = rec.mvn_calls if rec is not None else []
    toks.append(str(len(calls)))
    for c in calls:
        toks.append(str(int(c['size'])))
        toks += [f2bits(v) for v in c['u'].ravel()]
    if rec is not None and rec.resp_calls:
        t = rec.resp_calls[-1]['t']
        toks.append(str(t.size))
        toks += [f2bits(v) for v in t.ravel()]
    else:
        toks.append('0')
    return ' '.join(toks)


def parse_sample(out, m):
    if out in ('ValueError', 'AttributeError', 'TypeError', 'bad-op'):
        return dict(err=out)
    parts = out.split(' | ')
    ch = parts[0].split()
    calls = [int(x) for x in parts[1].split()[1:]]
    args = [bits2f(t) for t in parts[2].split()[1:]]
    per = m + m * m
    rows = [[bits2f(t) for t in r.split()] for r in parts[3].split(' ; ')] if parts[3].strip() else []
    return dict(err=None, choice=(int(ch[1]), int(ch[2])), calls=list(zip(calls[0::2], calls[1::2])),
                args=[(np.array(args[i * per:i * per + m]), np.array(args[i * per + m:(i + 1) * per]).reshape(m, m))
                      for i in range(len(args) // per)] if per else [],
                out=np.array(rows, dtype=float))


def to_arr(x):
    """whatever the library returned, as a float array — or None when it is not one (None, ragged, non-numeric)"""
    if x is None:
        return None
    try:
        a = np.asarray(x, dtype=float)
    except Exception:                         # noqa: BLE001
        return None
    return a


def shape_of(a):
    return None if a is None else list(np.shape(a))


def close_arr(a, b, tol):
    """shape-safe: anything that is not a pair of equally shaped float arrays (with a broadcastable tolerance) is `False`"""
    a, b = to_arr(a), to_arr(b)
    if a is None or b is None or a.shape != b.shape:
        return False
    try:
        with np.errstate(all='ignore'):
            tol = np.broadcast_to(np.asarray(tol, dtype=float), a.shape)
            ok = (a == b) | (np.isnan(a) & np.isnan(b)) | (np.abs(a - b) <= tol)
    except Exception:                         # noqa: BLE001
        return False
    return bool(np.all(ok))


def head(a, k=3):
    """first rows of an array for a report (never raises)"""
    try:
        return np.asarray(a).tolist()[:k]
    except Exception:                         # noqa: BLE001
        return repr(a)[:200]


def resp_expected(info, mu):
    """documented parameterisation of each response sampler (oracle side)"""
    fam, phi, lv = info['fam'], info['scale'], info['levels']
    if fam == 'normal':
        return 'normal', dict(loc=mu, scale=np.sqrt(phi) if phi else 1.0)
    if fam == 'binomial':
        return 'binomial', dict(n=lv, p=mu / lv)
    if fam == 'poisson':
        return 'poisson', dict(lam=mu)
    if fam == 'gamma':
        return 'gamma', dict(shape=1.0 / phi, scale=mu * phi)
    return 'wald', dict(mean=mu, scale=1.0 / phi)


def resp_fake(name, args, t):
    if name == 'normal':
        return args['loc'] + args['scale'] * t
    if name == 'binomial':
        return args['n'] * t + args['p']
    if name == 'poisson':
        return args['lam'] * t
    if name == 'gamma':
        return args['shape'] * t + args['scale']
    return args['mean'] * t + args['scale']


# ------------------------------------------------------------------------------------------------
# one fitted model, n_bootstraps = 1
# ------------------------------------------------------------------------------------------------
def gen_requests(rng, tier):
    reqs = []
    for quantity in ['coef', 'mu', 'y']:
        for at in ([False, True] if quantity != 'coef' else [rng.random() < 0.5]):
            reqs.append(dict(quantity=quantity, at=at, n_draws=rng.choice([1, 2, 3, 5, 8])))
    if tier != 'quick':
        reqs.append(dict(quantity=rng.choice(['mu', 'y']), at=rng.random() < 0.5, n_draws=rng.choice([13, 21])))
    return reqs


def prepare(P, cfg, tier):
    try:
        gam, X, y, Xq = quiet(base.fit_model, P, cfg)
    except Exception as e:                    # noqa: BLE001
        return dict(cfg=cfg, error=type(e).__name__)
    info = fit_info(gam, cfg)
    if not (np.isfinite(info['coef']).all() and np.isfinite(info['cov']).all() and math.isfinite(info['scale'])):
        return dict(cfg=cfg, error='non-finite-statistics')
    rng = common.random.Random('C17-req-%d-%d' % (cfg['seed'], cfg['idx']))
    MX = base.dense_rows(gam, X)
    MAt = base.dense_rows(gam, Xq)
    items = []
    for k, rq in enumerate(gen_requests(rng, tier)):
        rec = Recorder(seed=rng.randrange(2 ** 31))
        with patched(rec):
            try:
                out = gam.sample(X, y, quantity=rq['quantity'], n_draws=rq['n_draws'], n_bootstraps=1,
                                 sample_at_X=Xq if rq['at'] else None)
                res = ('ok', np.asarray(out, dtype=float))
            except Exception as e:            # noqa: BLE001
                res = (type(e).__name__, None)
        items.append(dict(rq=rq, rec=rec, res=res))
    return dict(cfg=cfg, gam=gam, info=info, X=X, y=y, Xq=Xq, MX=MX, MAt=MAt, items=items)


def check_values(ctx, prepared):
    sv, sg = 'sample.values', 'sample.gen-args'
    ctx.stream(sv, 'gam.sample(quantity in coef|mu|y, n_bootstraps=1, sample_at_X) with supplied draws vs the model pipeline, 1e-12')
    ctx.stream(sg, 'arguments received by numpy.random.choice / multivariate_normal (mean, cov, size, number of calls) vs the model, 1e-12')
    ctx.stream('oracle.pipeline', 'NumPy: MVN gets (coef_, cov + sqrt(eps) I, n_draws) once; mu = g^-1(B draws^T)^T; sampler parameterisation; shapes')
    good = [p for p in prepared if 'info' in p]
    for p in prepared:
        if 'info' not in p:
            ctx.count('fit-skipped', p['error'])
    lines, index = [], []
    for p in good:
        for k, it in enumerate(p['items']):
            rq = it['rq']
            lines.append(sample_line(p['info'], rq['quantity'], True, 1, rq['n_draws'], True, p['MX'],
                                     p['MAt'] if rq['at'] else None, [0] * rq['n_draws'], [], it['rec']))
            index.append((p, k))
    outs = ctx.driver.run(lines)
    nfail = 0
    for (p, k), out in zip(index, outs):
        cfg, info, it = p['cfg'], p['info'], p['items'][k]
        rq, rec, res = it['rq'], it['rec'], it['res']
        m = info['m']
        sig = dict(label=cfg['label'], mix=cfg['mix'], icpt=cfg['fit_intercept'], lam=cfg['lam'], n=cfg['n'], ns=cfg['ns'],
                   quantity=rq['quantity'], at=rq['at'], n_draws=rq['n_draws'])
        case = dict(cfg=cfg, rq=rq)
        ctx.case(sv, sig, nontrivial=True, sample=dict(sig=sig, shape=None if res[1] is None else list(res[1].shape)) if k == 0 else None)
        ctx.case(sg, sig, nontrivial=True)
        ctx.count('quantity', rq['quantity'] + ('@X' if rq['at'] else ''))
        ctx.count('class', cfg['label'])
        ctx.count('n_draws', rq['n_draws'])
        model = parse_sample(out, m)
        if res[0] != 'ok' or model['err']:
            if res[0] != (model['err'] or 'ok'):
                # valid call on a fitted model: the property says a result of the stated shape is returned
                if res[0] != 'ok':
                    ctx.fail(sv, sig, case, observed=res[0], expected='an array',
                             oracle='a valid sample() call on a fitted model returns draws')
                else:
                    ctx.disagree(sv, case, res[0], model['err'], 'exception class')
            continue
        M = p['MAt'] if rq['at'] else p['MX']
        nd = rq['n_draws']
        # ---------- oracle: NumPy recomputation from the recorded run -----------------------------
        ctx.case('oracle.pipeline', sig, nontrivial=True)
        problems = []
        if len(rec.choice_calls) != 1 or len(rec.choice_calls[0]['a']) != 1 or rec.choice_calls[0]['size'] != nd \
                or rec.choice_calls[0]['replace'] is not True:
            problems.append('choice must be called once over one bootstrap with size = n_draws, replace=True')
        if len(rec.mvn_calls) != 1:
            problems.append('%d multivariate_normal calls (expected one)' % len(rec.mvn_calls))
        else:
            c = rec.mvn_calls[0]
            if not close_arr(c['mean'], info['coef'], 1e-12 * np.abs(info['coef'])):
                problems.append('MVN mean is not coef_')
            want = info['cov'] + SQRT_EPS * np.eye(m)
            if not close_arr(c['cov'], want, 1e-12 * np.abs(want)):
                problems.append('MVN cov is not statistics_[cov] + sqrt(eps) I')
            if c['size'] != nd or c['kw']:
                problems.append('MVN size is not n_draws')
        draws = np.vstack([c['mean'][None, :] + np.diag(c['cov'])[None, :] * c['u'] for c in rec.mvn_calls]) if rec.mvn_calls else np.zeros((0, m))
        with np.errstate(all='ignore'):
            lp = (M @ draws.T).T
            mag = (np.abs(M) @ np.abs(draws).T).T
            tl = 1e-12 * np.abs(lp) + 16 * m * EPS * mag
            mu = base.link_inv(info['link'], info['levels'], lp)
            tmu = np.abs(base.link_inv(info['link'], info['levels'], lp + tl) - base.link_inv(info['link'], info['levels'], lp - tl)) + 1e-12 * np.abs(mu)
            tmu = np.where(np.isnan(tmu), np.inf, tmu)
        impl = res[1]
        if rq['quantity'] == 'coef':
            want_shape, want, tol = (nd, m), draws, 1e-12 * np.abs(draws)
        elif rq['quantity'] == 'mu':
            want_shape, want, tol = (nd, M.shape[0]), mu, tmu
        else:
            want_shape = (nd, M.shape[0])
            name, eargs = resp_expected(info, mu)
            if len(rec.resp_calls) != 1 or rec.resp_calls[0]['name'] != name:
                problems.append('response sampler: expected one call of numpy.random.%s, got %s' % (name, [c['name'] for c in rec.resp_calls]))
                want, tol = impl, 0 * impl
            else:
                rc = rec.resp_calls[0]
                s_ = max(1.0, info['scale'])
                for key, ev in eargs.items():
                    got = rc['args'].get(key)
                    ev = np.asarray(ev, dtype=float)
                    tk = (tmu * s_ if ev.shape == mu.shape else 0.0) + 1e-12 * np.abs(ev)
                    try:
                        same = got is not None and close_arr(np.broadcast_to(got, ev.shape), ev, 10 * tk)
                    except ValueError:
                        same = False
                    if not same:
                        problems.append('response sampler argument %s differs from the documented parameterisation' % key)
                if rc['t'].shape == mu.shape:
                    want = resp_fake(name, {k2: np.asarray(v, dtype=float) for k2, v in eargs.items()}, rc['t'])
                    tol = tmu * s_ + 1e-12 * (np.abs(want) + sum(np.abs(np.asarray(v, dtype=float)) for v in eargs.values()))
                else:
                    problems.append('response sampler called on an array of shape %s, expected %s' % (rc['t'].shape, mu.shape))
                    want, tol = mu, tmu
        if impl.shape != want_shape:
            problems.append('shape %s, expected %s' % (impl.shape, want_shape))
        elif not close_arr(impl, want, 10 * tol):
            problems.append('returned %s draws differ from the recomputation' % rq['quantity'])
        if problems and nfail < MAX_FAILS:
            nfail += 1
            ctx.fail('oracle.pipeline', sig, case, observed=dict(problems=problems, out=impl.tolist()[:3]),
                     expected=dict(out=np.asarray(want).tolist()[:3]),
                     oracle='single bootstrap: MVN(coef_, cov + sqrt(eps) I, size=n_draws); mu = g^-1(B(X) draws^T)^T; '
                            'y = family sampler at the documented parameters; shape (n_draws, m | rows)')
            continue
        # ---------- model vs implementation ----------------------------------------------------------
        if model['choice'] != (len(rec.choice_calls[0]['a']), rec.choice_calls[0]['size']) or \
                model['calls'] != [(0, c['size']) for c in rec.mvn_calls] or len(model['args']) != len(rec.mvn_calls) or \
                any(not (close_arr(a[0], c['mean'], 1e-12 * np.abs(c['mean'])) and close_arr(a[1], c['cov'], 1e-12 * np.abs(c['cov'])))
                    for a, c in zip(model['args'], rec.mvn_calls)):
            ctx.disagree(sg, case, dict(choice=[len(rec.choice_calls[0]['a']), rec.choice_calls[0]['size']],
                                        calls=[c['size'] for c in rec.mvn_calls]),
                         dict(choice=model['choice'], calls=model['calls']), 'generator arguments')
        if not close_arr(impl, model['out'], tol):
            ctx.disagree(sv, case, impl.tolist()[:3], model['out'].tolist()[:3], 'returned draws')


# ------------------------------------------------------------------------------------------------
# load_diagonal
# ------------------------------------------------------------------------------------------------
def check_load(ctx, prepared):
    st = 'sample.load'
    ctx.stream(st, 'the covariance received by multivariate_normal vs loadDiagonal sqrtEpsMach statistics_[cov] (bit-exact)')
    good = [p for p in prepared if 'info' in p and p['items'] and p['items'][0]['rec'].mvn_calls]
    outs = ctx.driver.run(['C17 load %d %s' % (p['info']['m'], ' '.join(f2bits(v) for v in p['info']['cov'].ravel())) for p in good])
    for p, out in zip(good, outs):
        m = p['info']['m']
        model = np.array([bits2f(t) for t in out.split()]).reshape(m, m)
        got = p['items'][0]['rec'].mvn_calls[0]['cov']
        ctx.case(st, dict(label=p['cfg']['label'], mix=p['cfg']['mix'], idx=p['cfg']['idx']), nontrivial=True)
        if not np.array_equal(model, got):
            want = p['info']['cov'] + SQRT_EPS * np.eye(m)
            if not close_arr(got, want, 1e-11 * np.abs(want)):
                ctx.fail(st, dict(label=p['cfg']['label'], mix=p['cfg']['mix']), dict(cfg=p['cfg']), observed=got.tolist(),
                         expected=want.tolist(), oracle='covariance handed to the MVN generator = reported covariance + sqrt(eps) I')
            else:
                ctx.disagree(st, dict(cfg=p['cfg']), got.tolist(), model.tolist(), 'loaded covariance')


# ------------------------------------------------------------------------------------------------
# rejections
# ------------------------------------------------------------------------------------------------
def check_reject(ctx, P, prepared):
    st = 'sample.reject'
    ctx.stream(st, 'exception class over quantity x fitted x n_draws x n_bootstraps x data validity vs validateSample')
    good = [p for p in prepared if 'info' in p]
    rng = ctx.subrng('reject')
    targets = []
    seen = set()
    for p in good:
        if p['cfg']['label'] not in seen:
            seen.add(p['cfg']['label'])
            targets.append(p)
    quantities = ['coef', 'mu', 'y', 'foo', '', 'Y', 'coefs', 'MU']
    cases = []
    for p in targets[:6] if ctx.tier == 'quick' else targets:
        for q in quantities:
            for fitted in (True, False):
                for nd in (-1, 0, 1, 2):
                    for nb in (-2, 0, 1):
                        for data in ('ok', 'ok', 'nan-y', 'short-y', 'wide-X', 'bad-w'):
                            if rng.random() < (0.25 if ctx.tier == 'quick' else 0.6):
                                cases.append((p, q, fitted, nd, nb, data))
    outs = ctx.driver.run(['C17 validate %s %d %d %d %d' % (q if q else 'EMPTY', 1 if f else 0, nb, nd, 1 if data == 'ok' else 0)
                           for (p, q, f, nd, nb, data) in cases])
    nfail = 0
    for (p, q, fitted, nd, nb, data), mo in zip(cases, outs):
        cfg = p['cfg']
        X, y = p['X'], p['y'].copy()
        w = None
        if data == 'nan-y':
            y[0] = np.nan
        elif data == 'short-y':
            y = y[:-1]
        elif data == 'wide-X':
            X = np.c_[X, X[:, :1]]
        elif data == 'bad-w':
            w = np.ones(len(y) + 1)
        if fitted:
            gam = p['gam']
        else:
            ctor, kw, fam, link, known = base.LABELS[cfg['label']]
            kw = dict(kw)
            if kw.get('distribution') == 'binomial3':
                from pygam.distributions import BinomialDist
                kw['distribution'] = BinomialDist(levels=3)
            gam = getattr(P, ctor)(base.make_terms(P, cfg['mix'], cfg['lam'], cfg['ns']), **kw)
        rec = Recorder(seed=1)
        with patched(rec):
            try:
                out = quiet(gam.sample, X, y, quantity=q, n_draws=nd, n_bootstraps=nb, weights=w)
                impl = 'ok'
            except Exception as e:              # noqa: BLE001
                impl = type(e).__name__
        sig = dict(label=cfg['label'], quantity=q, fitted=fitted, n_draws=nd, n_bootstraps=nb, data=data)
        ctx.case(st, sig, nontrivial=True)
        ctx.count('reject-outcome', impl)
        # oracle: the property's rejection sentence (data validity is C11's: only the class is compared with the model there)
        bad_arg = q not in ('coef', 'mu', 'y') or nd < 1 or nb < 1
        want = None
        if q not in ('coef', 'mu', 'y'):
            want = 'ValueError'
        elif fitted and (nd < 1 or nb < 1):
            want = 'ValueError'
        elif fitted and not bad_arg and data == 'ok':
            want = 'ok'
        if want is not None and impl != want and nfail < MAX_FAILS:
            nfail += 1
            ctx.fail(st, sig, dict(cfg=cfg, quantity=q, fitted=fitted, n_draws=nd, n_bootstraps=nb, data=data), observed=impl,
                     expected=want, oracle='unknown quantity / n_draws < 1 / n_bootstraps < 1 are rejected with ValueError; valid calls return draws')
        elif impl != mo:
            ctx.disagree(st, dict(cfg=cfg, quantity=q, fitted=fitted, n_draws=nd, n_bootstraps=nb, data=data), impl, mo, 'exception class')


# ------------------------------------------------------------------------------------------------
# thorough: n_bootstraps > 1 (light)
# ------------------------------------------------------------------------------------------------
def check_bootstraps(ctx, P, prepared):
    st = 'sample.bootstraps'
    ctx.stream(st, 'n_bootstraps in {2,3}: choice over arange(n_bootstraps); one MVN call per drawn bootstrap in order of first appearance, '
                   'sizes = counts, bootstrap 0 = (coef_, cov + sqrt(eps) I), rows placed at the draw positions — vs the model')
    good = [p for p in prepared if 'info' in p and p['cfg']['label'] in ('LinearGAM', 'LinearGAM.known', 'GammaGAM.known', 'PoissonGAM')
            and p['cfg']['mix'] in ('s0', 's0+l1', 'l0+l1')]
    good = good[:6 if ctx.tier == 'quick' else 14]
    lines, keep = [], []
    for p in good:
        info, gam = p['info'], p['gam']
        rng = common.random.Random('C17-boots-%d-%d' % (p['cfg']['seed'], p['cfg']['idx']))
        nb = rng.choice([2, 3])
        nd = rng.choice([4, 6])
        idx = [rng.randrange(nb) for _ in range(nd)]
        for b in range(nb):
            idx[rng.randrange(nd)] = b
        if len(set(idx)) < nb:
            idx = (list(range(nb)) + idx)[:nd]
        quantity = rng.choice(['coef', 'mu'])
        rec = Recorder(seed=rng.randrange(2 ** 31), idx=idx)
        np.random.seed(rng.randrange(2 ** 31))
        with patched(rec):
            try:
                out = quiet(gam.sample, p['X'], p['y'], quantity=quantity, n_draws=nd, n_bootstraps=nb)
                res = ('ok', np.asarray(out, dtype=float))
            except Exception as e:              # noqa: BLE001
                res = (type(e).__name__, None)
        if res[0] != 'ok':
            ch = rec.choice_calls
            if ch and (len(ch[0]['a']) != nb or ch[0]['size'] != nd):
                ctx.case(st, dict(label=p['cfg']['label'], mix=p['cfg']['mix'], n_bootstraps=nb, idx=idx, quantity=quantity), nontrivial=True)
                ctx.fail(st, dict(label=p['cfg']['label'], mix=p['cfg']['mix'], n_bootstraps=nb, quantity=quantity),
                         dict(cfg=p['cfg'], n_bootstraps=nb, n_draws=nd, idx=idx, quantity=quantity),
                         observed=dict(exception=res[0], choice_over=len(ch[0]['a']), size=ch[0]['size']),
                         expected='choice over arange(n_bootstraps) with size = n_draws',
                         oracle='bootstrap indices are drawn uniformly from {0, …, n_bootstraps - 1}, one per draw')
            else:
                ctx.count('bootstraps-skipped', res[0])
            continue
        order = []
        for b in idx:
            if b not in order:
                order.append(b)
        extra = {}
        for b, c in zip(order, rec.mvn_calls):
            extra[b] = (c['mean'], c['cov'])
        ex = [extra.get(b, (np.zeros(info['m']), np.zeros((info['m'], info['m'])))) for b in range(1, nb)]
        # the response sampler is also used for the bootstrap responses: only the MVN part is passed on
        rec2 = Recorder(seed=0)
        rec2.mvn_calls = rec.mvn_calls
        lines.append(sample_line(info, quantity, True, nb, nd, True, p['MX'], None, idx, ex, rec2))
        keep.append((p, nb, nd, idx, order, quantity, rec, res))
    outs = ctx.driver.run(lines)
    for (p, nb, nd, idx, order, quantity, rec, res), out in zip(keep, outs):
        info, cfg = p['info'], p['cfg']
        m = info['m']
        sig = dict(label=cfg['label'], mix=cfg['mix'], n_bootstraps=nb, idx=idx, quantity=quantity)
        ctx.case(st, sig, nontrivial=True)
        model = parse_sample(out, m)
        problems = []
        ch = rec.choice_calls
        if len(ch) != 1 or len(ch[0]['a']) != nb or ch[0]['size'] != nd:
            problems.append('choice must draw n_draws indices from arange(n_bootstraps)')
        sizes = [c['size'] for c in rec.mvn_calls]
        if sizes != [idx.count(b) for b in order]:
            problems.append('MVN call sizes %s != counts %s in order of first appearance' % (sizes, [idx.count(b) for b in order]))
        if 0 in order:
            c0 = rec.mvn_calls[order.index(0)]
            want = info['cov'] + SQRT_EPS * np.eye(m)
            if not (close_arr(c0['mean'], info['coef'], 1e-12 * np.abs(info['coef'])) and close_arr(c0['cov'], want, 1e-12 * np.abs(want))):
                problems.append('bootstrap 0 is not (coef_, cov + sqrt(eps) I)')
        # rows placed at the draw positions
        draws = np.zeros((nd, m))
        for b, c in zip(order, rec.mvn_calls):
            pos = [d for d in range(nd) if idx[d] == b]
            if len(pos) == c['size']:
                draws[pos] = c['mean'][None, :] + np.diag(c['cov'])[None, :] * c['u']
        if quantity == 'coef':
            want, tol = draws, 1e-12 * np.abs(draws)
        else:
            lp = (p['MX'] @ draws.T).T
            want = base.link_inv(info['link'], info['levels'], lp)
            tl = 1e-12 * np.abs(lp) + 16 * m * EPS * (np.abs(p['MX']) @ np.abs(draws).T).T
            tol = np.abs(base.link_inv(info['link'], info['levels'], lp + tl) - base.link_inv(info['link'], info['levels'], lp - tl)) + 1e-12 * np.abs(want)
        if res[1].shape != want.shape or not close_arr(res[1], want, 10 * tol):
            problems.append('returned draws are not the MVN rows placed at their draw positions')
        if problems:
            ctx.fail(st, sig, dict(cfg=cfg, n_bootstraps=nb, n_draws=nd, idx=idx, quantity=quantity), observed=problems,
                     expected='grouping by bootstrap index', oracle='draw d comes from the MVN call of bootstrap idx[d]')
            continue
        if model['err'] or model['choice'] != (nb, nd) or model['calls'] != [(b, idx.count(b)) for b in order] or \
                not close_arr(res[1], model['out'], tol):
            ctx.disagree(st, dict(cfg=cfg, idx=idx), dict(calls=sizes), dict(err=model['err'], calls=model.get('calls')), 'bootstrap grouping')


# ------------------------------------------------------------------------------------------------
# thorough: seeded statistical checks with the real generators (supporting evidence)
# ------------------------------------------------------------------------------------------------
def check_statistics(ctx, P, prepared):
    st = 'sample.statistics'
    ctx.stream(st, 'seeded real draws (supporting): 2e4 coefficient draws — mean within 7 sigma, chi-square of whitened draws within '
                   '7 sigma, covariance entries within 9 sigma; standardised response draws mean 0 / variance 1')
    good = [p for p in prepared if 'info' in p]
    seen, targets = {}, []
    for p in good:
        if seen.get(p['cfg']['label'], 0) < 2 and p['info']['m'] <= 24:
            seen[p['cfg']['label']] = seen.get(p['cfg']['label'], 0) + 1
            targets.append(p)
    N = 20000
    for p in targets:
        info, gam, cfg = p['info'], p['gam'], p['cfg']
        m = info['m']
        seed = common.random.Random('C17-stats-%d-%d' % (cfg['seed'], cfg['idx'])).randrange(2 ** 31)
        np.random.seed(seed)
        D = np.asarray(gam.sample(p['X'], p['y'], quantity='coef', n_draws=N, n_bootstraps=1), dtype=float)
        S = info['cov'] + SQRT_EPS * np.eye(m)
        sig = dict(label=cfg['label'], mix=cfg['mix'], seed=seed, what='coef')
        ctx.case(st, sig, nontrivial=True)
        problems = []
        sd = np.sqrt(np.diag(S))
        zmean = np.abs(D.mean(axis=0) - info['coef']) / (sd / math.sqrt(N))
        if zmean.max() > 7:
            problems.append('mean of draws deviates from coef_ by %.1f sigma' % zmean.max())
        C = np.cov(D.T, bias=False).reshape(m, m)
        bound = 9 * np.sqrt((np.outer(np.diag(S), np.diag(S)) + S ** 2) / N)
        if np.any(np.abs(C - S) > bound):
            problems.append('sample covariance deviates from cov by more than 9 sigma')
        ev, V = np.linalg.eigh(S)
        keep = ev > 1e-6 * ev.max()
        Z = (D - info['coef'][None, :]) @ V[:, keep] / np.sqrt(ev[keep])[None, :]
        r = int(keep.sum())
        chi = float((Z ** 2).sum())
        if abs(chi - N * r) > 7 * math.sqrt(2 * N * r):
            problems.append('whitened chi-square %.1f vs %d +- %.1f' % (chi, N * r, math.sqrt(2 * N * r)))
        if problems:
            ctx.fail(st, sig, dict(cfg=cfg, seed=seed, n_draws=N), observed=problems, expected='N(coef_, cov) within concentration bounds',
                     oracle='coefficient draws ~ N(coef_, cov): 7-sigma mean, 9-sigma covariance entries, 7-sigma chi-square (false alarm < 1e-9)')
        # responses: same seed => same coefficient draws => the means of the y call are the mu call's output
        nd = 4000
        np.random.seed(seed)
        MU = np.asarray(gam.sample(p['X'], p['y'], quantity='mu', n_draws=nd, n_bootstraps=1, sample_at_X=p['Xq']), dtype=float)
        np.random.seed(seed)
        try:
            Y = np.asarray(gam.sample(p['X'], p['y'], quantity='y', n_draws=nd, n_bootstraps=1, sample_at_X=p['Xq']), dtype=float)
        except ValueError as e:
            # a simulated mean outside the sampler's domain (e.g. negative mean under the inverse link): NumPy refuses
            ctx.count('response-stat-skipped', '%s: %s' % (cfg['label'], str(e)[:40]))
            continue
        fam, phi, lv = info['fam'], info['scale'], info['levels']
        with np.errstate(all='ignore'):
            V_ = {'normal': np.ones_like(MU), 'binomial': MU * (1 - MU / lv), 'poisson': MU, 'gamma': MU ** 2, 'inv_gauss': MU ** 3}[fam]
            R = (Y - MU) / np.sqrt(phi * V_)
        okm = np.isfinite(R) & (V_ > 1e-12) & (np.abs(MU) < 1e8)
        R = R[okm]
        sig = dict(label=cfg['label'], mix=cfg['mix'], seed=seed, what='y')
        ctx.case(st, sig, nontrivial=True)
        if R.size > 1000:
            n_ = R.size
            zm = abs(R.mean()) * math.sqrt(n_)
            m4 = float(np.mean(R ** 4))
            zv = abs(float(np.mean(R ** 2)) - 1) / math.sqrt(max(m4 - 1, 1e-3) / n_)
            ctx.count('response-z', 'mean<=%d' % math.ceil(zm))
            if zm > 7 or zv > 9:
                ctx.fail(st, sig, dict(cfg=cfg, seed=seed, n_draws=nd), observed=dict(z_mean=zm, z_var=zv, mean_r2=float(np.mean(R ** 2))),
                         expected='standardised response draws have mean 0 and variance 1',
                         oracle='y draws have mean mu and variance scale V(mu) (7 / 9 sigma)')
        else:
            ctx.count('response-stat-skipped', cfg['label'])


# ------------------------------------------------------------------------------------------------
def make_cfgs(ctx):
    cfgs, idx = [], 0
    rng = ctx.subrng('cfgs')
    reps = 1 if ctx.tier == 'quick' else 10
    for rep in range(reps):
        for lab in LABELS:
            for mix in MIXES:
                cfg = base.make_cfg(ctx.seed, 100000 + idx, lab, mix, ctx.tier)
                cfg['nq'] = rng.choice([3, 5, 7])
                cfgs.append(cfg)
                idx += 1
    return cfgs


def run(ctx, cfgs=None, force=()):
    P = common.import_pygam()
    ctx.extra['rule'] = ('one case = (model class, term mix, intercept, lam, n, n_splines, quantity, sample_at_X given?, n_draws); '
                         'generators are replaced by recorded closed-form draws, so every case is an exact comparison of the whole pipeline')
    ctx.assumptions.append('numpy.random.multivariate_normal(mean, cov, size) returns draws from N(mean, cov); numpy.random.{normal, '
                           'binomial, poisson, gamma, wald} have the documented laws (first two moments tabulated in Model/Dists.lean: moments); '
                           'numpy.random.choice(arange(k), size=n) returns n values < k — trusted library contracts; the distributional '
                           'claim of C17 rests on them (thorough tier adds seeded concentration checks as supporting evidence)')
    ctx.partial.append('distributional statement: proved for the pipeline around the generators (arguments handed over, placement of the '
                       'results); the law of the NumPy generators themselves is assumed')
    full = cfgs is None
    if cfgs is None:
        cfgs = make_cfgs(ctx)
    prepared = [prepare(P, cfg, ctx.tier) for cfg in cfgs]
    check_values(ctx, prepared)
    check_load(ctx, prepared)
    check_reject(ctx, P, prepared)
    if (ctx.tier == 'thorough' and full) or 'sample.bootstraps' in force:
        check_bootstraps(ctx, P, prepared)
    if (ctx.tier == 'thorough' and full) or 'sample.statistics' in force:
        check_statistics(ctx, P, prepared)


def replay(ctx, rp):
    cfg = (rp.get('case') or {}).get('cfg')
    if not cfg:
        return run(ctx)
    return run(ctx, cfgs=[cfg], force=(rp.get('stream'),))
