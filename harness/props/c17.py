"""
C17 — posterior simulation draws from the stated sampling distributions.

Theorems: lean/PyGam/Props/C17.lean about `sample` (Model/Sampling.lean = GAM.sample / _sample_coef /
_bootstrap_samples_of_smoothing / _simulate_coef_from_bootstraps / utils.load_diagonal) with the random generators as
oracle arguments: rejections, shapes, with one bootstrap exactly one MVN call with (coef_, cov + sqrt(eps) diag(cov), n_draws)
(relative loading: equivariant under rescaling of coefficients, keeps positive semi-definiteness — loaded_cov_rescale, loaded_cov_psd),
simulated means = inverse link of modelmat(X) . draws, simulated responses = the family sampler called with
`samplerParams` (Model/Dists.lean).

Correspondence: numpy.random.{choice, multivariate_normal, normal, binomial, poisson, gamma, wald, randn} are patched in
this process to record their arguments and to return *supplied* closed-form draws
(mvn: mean_j + cov_jj u[p, j]; responses: affine in the parameters with a supplied t per entry); gam.sample(X, y,
quantity in {coef, mu, y}, n_draws, n_bootstraps = 1, sample_at_X in {None, other rows}) is run for every model class x
term mix, and the recorded arguments and the returned arrays are compared (1e-12) with the Lean pipeline fed the same
supplied draws (`C17 sample`).  Streams:
  sample.values     returned array (coef / mu / y) vs the model pipeline
  sample.gen-args   arguments received by choice / multivariate_normal vs the model (`choice k n`, calls, mean, cov)
  sample.reject     exception classes over quantity x fitted x n_draws x n_bootstraps x data validity vs `validate`
  sample.load       cov + sqrt(eps) diag(cov) (the covariance received by the MVN generator) vs `loadedCov`
  sample.bootstraps (thorough) n_bootstraps in {2, 3}: grouping of draws by bootstrap index, sizes and order of MVN calls
  sample.statistics (thorough) seeded real draws: mean / covariance of 2e4 coefficient draws vs coef_ / cov, standardised
                    response draws — supporting evidence only
  sample.history    histories of sample() calls on ONE fitted object: three array objects (X itself, which is the query
                    when sample_at_X is None, and two scenario buffers) whose contents are overwritten in place / that are
                    replaced by new objects with equal or new contents between calls; quantities coef / mu / y alternate;
                    predict and refits (same data, rescaled feature = moved knots, new responses) are interleaved.  Every
                    call must return the pipeline applied to the CURRENT contents and the CURRENT fit: decided exactly with
                    the coefficient draws a deep copy of the model (taken after its fit, used for nothing else) returns under
                    the same seed, and compared with the per-call Lean model `sample` fed the latest fit's record and the rows
                    at the current contents (Props/C17.lean: sample_stateless, history_mu_eq say that this is what the
                    history model `runHistory` returns).  At the end of each history 2000 real draws are checked against
                    N(coef_, cov) of the latest fit (stale state in the coefficient stage).
                    Calls with several bootstraps are history steps too (every history has one; four forced histories per
                    run are on the generic GAM(distribution=normal | gamma | inv_gauss, link=...) models with estimated
                    scale, the classes whose `distribution` object is a user-facing parameter): each is framed by two
                    identical single-bootstrap requests for responses.  The bootstrap refits happen on copies; the model is
                    the fitted model it was, so (a) the later request is judged like every step — sampler arguments at the
                    scale the model REPORTS (statistics_['scale'] read at the time of the call) — and (b) a request that
                    repeats an earlier one (same quantity, contents, n_draws, seed; no refit in between) must return the
                    same draws (patched generators: within the pipeline tolerance; real generators for the framed pairs).
Generator-agnostic oracles (nothing assumed about which numpy.random entry point produces the coefficient draws):
  oracle.seeded-pipeline  under one seed, sample(mu | y) = g^-1(B(X) D^T)^T (resp. the documented sampler arguments at those
                    means) for D = what sample(coef) returns for a copy of the model under the same seed; every model
  sample.moments    real generators, seeded, 4000 draws: means (6 sigma) and variances (exact chi-square quantiles at the
                    6-sigma level, + 64 m eps ||S|| numerical slack) of the coordinates, neighbour contrasts, random
                    directions, model-matrix rows and eigenvectors of S = cov + sqrt(eps) diag(cov); mu at the same seed; standardised
                    responses.  Models: one per class of the regular product + *stress* models whose covariance is badly
                    conditioned (response units 1e-9 … 1e9 x data gap / duplicated feature / n < n_coefs / constant or badly scaled feature /
                    plain x lam 1e-3 … 1e8 x n_splines) so that rare branches of whatever factorisation the sampler uses
                    (Cholesky failure, negative eigenvalues) are exercised; a failure must repeat under a second seed.
When numpy.random.multivariate_normal is not called at all, the capture streams report the broken correspondence
(ctx.disagree -> no-failing-input-found: the property does not prescribe the entry point) and the two oracles above decide.
Oracle (NumPy only): the property sentence by sentence on the recorded run (mean / covariance / size handed to the MVN
generator, mu = g^-1(B(X) draws^T)^T, documented parameterisation of each response sampler, shapes, rejections).
"""
import contextlib
import io
import math

import numpy as np

from harness import common
from harness.common import f2bits, bits2f
from harness.props import c09 as base

EPS = 2.0 ** -52
SQRT_EPS = 2.0 ** -26


def loaded(cov):
    """the covariance handed to the generator: load_diagonal(cov, load=sqrt(eps) * diag(cov)) = cov + sqrt(eps) diag(cov),
    computed as the library's `cov + np.eye(n) * load` (the vector load broadcasts along the columns)"""
    cov = np.asarray(cov, dtype=float)
    return cov + np.eye(len(cov)) * (SQRT_EPS * np.diag(cov))
MAX_FAILS = 10

LABELS = ['LinearGAM', 'LinearGAM.known', 'LogisticGAM', 'PoissonGAM', 'GammaGAM', 'GammaGAM.known', 'InvGaussGAM',
          'InvGaussGAM.known', 'ExpectileGAM.5', 'ExpectileGAM.8.known', 'GAM/binomial3/logit', 'GAM/gamma/inverse',
          'GAM/normal/log']
MIXES = ['s0', 's0+l1', 's0+f2', 's0+s1by3', 'te01', 'l0+l1', 'cp0+f2d']
FAMTOK = {'normal': 'normal', 'binomial': 'binomial', 'poisson': 'poisson', 'gamma': 'gamma', 'inv_gauss': 'inv_gauss'}
# generic GAM(distribution=<name>, link=<name>) models with unknown scale that c09's table does not have (histories only):
# (constructor, keywords, family, link, scale known?, label whose data generator is used)
EXTRA_LABELS = {
    'GAM/normal/identity': ('GAM', {'distribution': 'normal', 'link': 'identity'}, 'normal', 'identity', False, 'LinearGAM'),
    'GAM/inv_gauss/log': ('GAM', {'distribution': 'inv_gauss', 'link': 'log'}, 'inv_gauss', 'log', False, 'InvGaussGAM'),
}


def label_spec(label):
    """(constructor, keywords, family, link, scale known?) of a model label (c09's table + EXTRA_LABELS)"""
    return base.LABELS[label] if label in base.LABELS else EXTRA_LABELS[label][:5]


def fit_any(P, cfg):
    """base.fit_model for every label of label_spec"""
    if cfg['label'] in base.LABELS:
        return base.fit_model(P, cfg)
    ctor, kw, fam, link, known, data_label = EXTRA_LABELS[cfg['label']]
    X, y, Xq = base.gen_data(dict(cfg, label=data_label))
    terms = base.make_terms(P, cfg['mix'], cfg['lam'], cfg['ns'])
    gam = getattr(P, ctor)(terms, fit_intercept=cfg['fit_intercept'], max_iter=200, tol=1e-6, **dict(kw))
    gam.fit(X, y)
    return gam, X, y, Xq


# ------------------------------------------------------------------------------------------------
# patched generators
# ------------------------------------------------------------------------------------------------
class Recorder:
    """stand-ins for numpy.random.* that record their arguments and return supplied closed-form draws"""

    def __init__(self, seed, idx=None, passthrough=False):
        self.rs = np.random.RandomState(seed)
        self.idx = idx
        self.choice_calls = []
        self.mvn_calls = []       # (mean, cov, size, u)
        self.resp_calls = []      # (name, args dict, t)
        self.randn_calls = []
        self.real = {}

    def _u(self, shape, lo=-1.0, hi=1.0):
        # dyadic rationals: exactly representable, products with them are still rounded identically on both sides
        return lo + (hi - lo) * self.rs.randint(0, 2 ** 20 + 1, size=shape) / float(2 ** 20)

    def choice(self, a, size=None, replace=True, p=None):
        a = np.asarray(a)
        self.choice_calls.append(dict(a=a.copy(), size=size, replace=replace, p=p))
        if self.idx is not None:
            out = np.asarray(self.idx, dtype=int)
        else:
            out = np.zeros(int(size), dtype=int)
        return a[out]

    def multivariate_normal(self, mean, cov, size=None, **kw):
        mean = np.asarray(mean, dtype=float)
        cov = np.asarray(cov, dtype=float)
        n = 1 if size is None else int(np.prod(size))
        u = self._u((n, len(mean)))
        self.mvn_calls.append(dict(mean=mean.copy(), cov=cov.copy(), size=size, u=u, kw=dict(kw)))
        out = mean[None, :] + np.diag(cov)[None, :] * u
        return out[0] if size is None else out

    def _resp(self, name, shp_, **args):
        t = self._u(shp_, 0.25, 1.0)
        self.resp_calls.append(dict(name=name, args={k: np.array(v, dtype=float, copy=True) for k, v in args.items()}, t=t))
        return t

    def normal(self, loc=0.0, scale=1.0, size=None):
        t = self._resp('normal', np.shape(loc), loc=loc, scale=scale)
        return loc + scale * t

    def binomial(self, n, p, size=None):
        t = self._resp('binomial', np.shape(p), n=n, p=p)
        return n * t + p

    def poisson(self, lam=1.0, size=None):
        t = self._resp('poisson', np.shape(lam), lam=lam)
        return lam * t

    def gamma(self, shape, scale=1.0, size=None):
        t = self._resp('gamma', np.shape(scale), shape=shape, scale=scale)
        return shape * t + scale

    def wald(self, mean, scale, size=None):
        t = self._resp('wald', np.shape(mean), mean=mean, scale=scale)
        return mean * t + scale

    def randn(self, *shape):
        self.randn_calls.append(shape)
        return self.rs.randn(*shape)


NAMES = ['choice', 'multivariate_normal', 'normal', 'binomial', 'poisson', 'gamma', 'wald', 'randn']


@contextlib.contextmanager
def patched(rec):
    saved = {n: getattr(np.random, n) for n in NAMES}
    try:
        for n in NAMES:
            setattr(np.random, n, getattr(rec, n))
        yield rec
    finally:
        for n, f in saved.items():
            setattr(np.random, n, f)


def quiet(f, *a, **k):
    """call with stdout / stderr silenced (also at file-descriptor level: the gridsearch progress bar keeps its own handle)"""
    import os
    import sys
    buf = io.StringIO()
    sys.stdout.flush()
    sys.stderr.flush()
    saved = os.dup(2)
    saved1 = os.dup(1)                       # LAPACK's xerbla writes its complaints to file descriptor 1
    devnull = os.open(os.devnull, os.O_WRONLY)
    try:
        os.dup2(devnull, 2)
        os.dup2(devnull, 1)
        with contextlib.redirect_stdout(buf), contextlib.redirect_stderr(buf):
            return f(*a, **k)
    finally:
        os.dup2(saved, 2)
        os.dup2(saved1, 1)
        os.close(saved)
        os.close(saved1)
        os.close(devnull)


# ------------------------------------------------------------------------------------------------
# helpers
# ------------------------------------------------------------------------------------------------
def fit_info(gam, cfg):
    ctor, kw, fam, link, known = label_spec(cfg['label'])
    return dict(fam=fam, link=link, levels=float(gam.distribution.levels) if fam == 'binomial' else 1.0,
                coef=np.asarray(gam.coef_, dtype=float).copy(), cov=np.asarray(gam.statistics_['cov'], dtype=float).copy(),
                scale=float(gam.statistics_['scale']), m=len(gam.coef_))


def sample_line(info, quantity, fitted, n_boot, n_draws, data_ok, MX, MAt, idx, extra, rec):
    m = info['m']
    toks = ['C17', 'sample', quantity, '1' if fitted else '0', str(n_boot), str(n_draws), '1' if data_ok else '0',
            FAMTOK[info['fam']], info['link'], f2bits(info['levels']), f2bits(info['scale']),
            str(m), str(MX.shape[0]), str(-1 if MAt is None else MAt.shape[0]), str(len(extra)), str(len(idx))]
    toks += [str(int(i)) for i in idx]
    toks += [f2bits(v) for v in info['coef']] + [f2bits(v) for v in info['cov'].ravel()]
    for (c, v) in extra:
        toks += [f2bits(x) for x in c] + [f2bits(x) for x in v.ravel()]
    toks += [f2bits(v) for v in MX.ravel()]
    if MAt is not None:
        toks += [f2bits(v) for v in MAt.ravel()]
    calls = rec.mvn_calls if rec is not None else []
    toks.append(str(len(calls)))
    for c in calls:
        toks.append(str(int(c['u'].shape[0])))
        toks += [f2bits(v) for v in c['u'].ravel()]
    if rec is not None and rec.resp_calls:
        t = rec.resp_calls[-1]['t']
        toks.append(str(t.size))
        toks += [f2bits(v) for v in t.ravel()]
    else:
        toks.append('0')
    return ' '.join(toks)


def parse_sample(out, m):
    if out in ('ValueError', 'AttributeError', 'TypeError', 'bad-op'):
        return dict(err=out)
    parts = out.split(' | ')
    ch = parts[0].split()
    calls = [int(x) for x in parts[1].split()[1:]]
    args = [bits2f(t) for t in parts[2].split()[1:]]
    per = m + m * m
    rows = [[bits2f(t) for t in r.split()] for r in parts[3].split(' ; ')] if parts[3].strip() else []
    return dict(err=None, choice=(int(ch[1]), int(ch[2])), calls=list(zip(calls[0::2], calls[1::2])),
                args=[(np.array(args[i * per:i * per + m]), np.array(args[i * per + m:(i + 1) * per]).reshape(m, m))
                      for i in range(len(args) // per)] if per else [],
                out=np.array(rows, dtype=float))


def to_arr(x):
    """whatever the library returned, as a float array — or None when it is not one (None, ragged, non-numeric)"""
    if x is None:
        return None
    try:
        a = np.asarray(x, dtype=float)
    except Exception:                         # noqa: BLE001
        return None
    return a


def shape_of(a):
    return None if a is None else list(np.shape(a))


def close_arr(a, b, tol):
    """shape-safe: anything that is not a pair of equally shaped float arrays (with a broadcastable tolerance) is `False`"""
    a, b = to_arr(a), to_arr(b)
    if a is None or b is None or a.shape != b.shape:
        return False
    try:
        with np.errstate(all='ignore'):
            tol = np.broadcast_to(np.asarray(tol, dtype=float), a.shape)
            ok = (a == b) | (np.isnan(a) & np.isnan(b)) | (np.abs(a - b) <= tol)
    except Exception:                         # noqa: BLE001
        return False
    return bool(np.all(ok))


def head(a, k=3):
    """first rows of an array for a report (never raises)"""
    try:
        return np.asarray(a).tolist()[:k]
    except Exception:                         # noqa: BLE001
        return repr(a)[:200]


def resp_expected(info, mu):
    """documented parameterisation of each response sampler (oracle side)"""
    fam, phi, lv = info['fam'], info['scale'], info['levels']
    if fam == 'normal':
        return 'normal', dict(loc=mu, scale=np.sqrt(phi) if phi else 1.0)
    if fam == 'binomial':
        return 'binomial', dict(n=lv, p=mu / lv)
    if fam == 'poisson':
        return 'poisson', dict(lam=mu)
    if fam == 'gamma':
        return 'gamma', dict(shape=1.0 / phi, scale=mu * phi)
    return 'wald', dict(mean=mu, scale=1.0 / phi)


def resp_fake(name, args, t):
    if name == 'normal':
        return args['loc'] + args['scale'] * t
    if name == 'binomial':
        return args['n'] * t + args['p']
    if name == 'poisson':
        return args['lam'] * t
    if name == 'gamma':
        return args['shape'] * t + args['scale']
    return args['mean'] * t + args['scale']


def pipeline_expect(info, M, draws, quantity, resp_calls, impl):
    """NumPy statement of the pipeline behind the coefficient draws: what `sample` must return for `quantity` given the
    coefficient draws `draws` (n_draws x m), the model matrix `M` at the requested rows and — for 'y' — the recorded call
    of the response sampler.  Returns (problems, expected array, tolerance array); shape-safe."""
    problems = []
    m = info['m']
    nd = draws.shape[0]
    with np.errstate(all='ignore'):
        lp = (M @ draws.T).T
        mag = (np.abs(M) @ np.abs(draws).T).T
        tl = 1e-12 * np.abs(lp) + 16 * m * EPS * mag
        mu = base.link_inv(info['link'], info['levels'], lp)
        tmu = np.abs(base.link_inv(info['link'], info['levels'], lp + tl) - base.link_inv(info['link'], info['levels'], lp - tl)) + 1e-12 * np.abs(mu)
        tmu = np.where(np.isnan(tmu), np.inf, tmu)
    if quantity == 'coef':
        want_shape, want, tol = (nd, m), draws, 1e-12 * np.abs(draws)
    elif quantity == 'mu':
        want_shape, want, tol = (nd, M.shape[0]), mu, tmu
    else:
        want_shape = (nd, M.shape[0])
        want, tol = mu, tmu
        name, eargs = resp_expected(info, mu)
        if len(resp_calls) != 1 or resp_calls[0]['name'] != name:
            problems.append('response sampler: expected one call of numpy.random.%s, got %s' % (name, [c['name'] for c in resp_calls]))
            want, tol = impl, 0.0
        else:
            rc = resp_calls[0]
            s_ = max(1.0, info['scale'])
            for key, ev in eargs.items():
                got = rc['args'].get(key)
                ev = np.asarray(ev, dtype=float)
                tk = (tmu * s_ if ev.shape == mu.shape else 0.0) + 1e-12 * np.abs(ev)
                try:
                    same = got is not None and close_arr(np.broadcast_to(got, ev.shape), ev, 10 * tk)
                except ValueError:
                    same = False
                if not same:
                    problems.append('response sampler argument %s differs from the documented parameterisation' % key)
            if rc['t'].shape == mu.shape:
                want = resp_fake(name, {k2: np.asarray(v, dtype=float) for k2, v in eargs.items()}, rc['t'])
                tol = tmu * s_ + 1e-12 * (np.abs(want) + sum(np.abs(np.asarray(v, dtype=float)) for v in eargs.values()))
            else:
                problems.append('response sampler called on an array of shape %s, expected %s' % (rc['t'].shape, mu.shape))
    if impl is None or np.shape(impl) != want_shape:
        problems.append('shape %s, expected %s' % (shape_of(impl), list(want_shape)))
    elif not close_arr(impl, want, 10 * np.asarray(tol)):
        problems.append('returned %s draws differ from the recomputation' % quantity)
    return problems, want, tol


# ------------------------------------------------------------------------------------------------
# one fitted model, n_bootstraps = 1
# ------------------------------------------------------------------------------------------------
def gen_requests(rng, tier):
    reqs = []
    for quantity in ['coef', 'mu', 'y']:
        for at in ([False, True] if quantity != 'coef' else [rng.random() < 0.5]):
            reqs.append(dict(quantity=quantity, at=at, n_draws=rng.choice([1, 2, 3, 5, 8])))
    if tier != 'quick':
        reqs.append(dict(quantity=rng.choice(['mu', 'y']), at=rng.random() < 0.5, n_draws=rng.choice([13, 21])))
    return reqs


def prepare(P, cfg, tier):
    try:
        gam, X, y, Xq = quiet(base.fit_model, P, cfg)
    except Exception as e:                    # noqa: BLE001
        return dict(cfg=cfg, error=type(e).__name__)
    info = fit_info(gam, cfg)
    if not (np.isfinite(info['coef']).all() and np.isfinite(info['cov']).all() and math.isfinite(info['scale'])):
        return dict(cfg=cfg, error='non-finite-statistics')
    rng = common.random.Random('C17-req-%d-%d' % (cfg['seed'], cfg['idx']))
    MX = base.dense_rows(gam, X)
    MAt = base.dense_rows(gam, Xq)
    items = []
    for k, rq in enumerate(gen_requests(rng, tier)):
        rec = Recorder(seed=rng.randrange(2 ** 31))
        with patched(rec):
            try:
                out = gam.sample(X, y, quantity=rq['quantity'], n_draws=rq['n_draws'], n_bootstraps=1,
                                 sample_at_X=Xq if rq['at'] else None)
                res = ('ok', to_arr(out))
            except Exception as e:            # noqa: BLE001
                res = (type(e).__name__, None)
        items.append(dict(rq=rq, rec=rec, res=res))
    return dict(cfg=cfg, gam=gam, info=info, X=X, y=y, Xq=Xq, MX=MX, MAt=MAt, items=items)


def check_values(ctx, prepared):
    sv, sg = 'sample.values', 'sample.gen-args'
    ctx.stream(sv, 'gam.sample(quantity in coef|mu|y, n_bootstraps=1, sample_at_X) with supplied draws vs the model pipeline, 1e-12')
    ctx.stream(sg, 'arguments received by numpy.random.choice / multivariate_normal (mean, cov, size, number of calls) vs the model, 1e-12')
    ctx.stream('oracle.pipeline', 'NumPy: MVN gets (coef_, cov + sqrt(eps) diag(cov), n_draws) once; mu = g^-1(B draws^T)^T; sampler parameterisation; shapes')
    good = [p for p in prepared if 'info' in p]
    for p in prepared:
        if 'info' not in p:
            ctx.count('fit-skipped', p['error'])
    lines, index = [], []
    for p in good:
        for k, it in enumerate(p['items']):
            rq = it['rq']
            lines.append(sample_line(p['info'], rq['quantity'], True, 1, rq['n_draws'], True, p['MX'],
                                     p['MAt'] if rq['at'] else None, [0] * rq['n_draws'], [], it['rec']))
            index.append((p, k))
    outs = ctx.driver.run(lines)
    nfail = ndis = 0
    for (p, k), out in zip(index, outs):
        cfg, info, it = p['cfg'], p['info'], p['items'][k]
        rq, rec, res = it['rq'], it['rec'], it['res']
        m = info['m']
        sig = dict(label=cfg['label'], mix=cfg['mix'], icpt=cfg['fit_intercept'], lam=cfg['lam'], n=cfg['n'], ns=cfg['ns'],
                   quantity=rq['quantity'], at=rq['at'], n_draws=rq['n_draws'])
        case = dict(cfg=cfg, rq=rq)
        ctx.case(sv, sig, nontrivial=True, sample=dict(sig=sig, shape=None if res[1] is None else list(res[1].shape)) if k == 0 else None)
        ctx.case(sg, sig, nontrivial=True)
        ctx.count('quantity', rq['quantity'] + ('@X' if rq['at'] else ''))
        ctx.count('class', cfg['label'])
        ctx.count('n_draws', rq['n_draws'])
        model = parse_sample(out, m)
        if res[0] != 'ok' or model['err']:
            if res[0] != (model['err'] or 'ok'):
                # valid call on a fitted model: the property says a result of the stated shape is returned
                if res[0] != 'ok':
                    ctx.fail(sv, sig, case, observed=res[0], expected='an array',
                             oracle='a valid sample() call on a fitted model returns draws')
                else:
                    ctx.disagree(sv, case, res[0], model['err'], 'exception class')
            continue
        M = p['MAt'] if rq['at'] else p['MX']
        nd = rq['n_draws']
        impl = res[1]
        # ---------- generator-independent part: the shape ---------------------------------------------
        want_shape = (nd, m) if rq['quantity'] == 'coef' else (nd, M.shape[0])
        if impl is None or impl.shape != want_shape:
            if nfail < MAX_FAILS:
                nfail += 1
                ctx.fail('oracle.pipeline', sig, case, observed=dict(problems=['shape %s, expected %s' % (shape_of(impl), list(want_shape))]),
                         expected=dict(shape=list(want_shape)), oracle='outputs have shape (n_draws, m) or (n_draws, query rows)')
            continue
        # ---------- is the generator protocol the model describes the one in use? ---------------------
        if not rec.mvn_calls:
            # the library reached its random generator through another NumPy entry point: the supplied draws were not
            # used, so neither the Lean pipeline nor the recorded-run oracle can say anything about this call.  The
            # property is about the *distribution* of the draws, not about the entry point: no failing input here —
            # the generator-agnostic streams (oracle.seeded-pipeline, sample.moments) decide on the real draws.
            ctx.count('capture', 'no-multivariate_normal-call')
            if ndis < MAX_FAILS:
                ndis += 1
                ctx.disagree(sg, case, dict(mvn_calls=0, choice_calls=len(rec.choice_calls), randn_calls=len(rec.randn_calls)),
                             dict(choice=model['choice'], calls=model['calls']),
                             'numpy.random.multivariate_normal was not called: the generator protocol of Model/Sampling.lean '
                             '(one MVN call per drawn bootstrap) is not the one in use')
            continue
        ctx.count('capture', 'multivariate_normal x%d' % len(rec.mvn_calls))
        # ---------- oracle: NumPy recomputation from the recorded run -----------------------------
        ctx.case('oracle.pipeline', sig, nontrivial=True)
        problems = []
        ch = rec.choice_calls
        if len(ch) != 1 or len(ch[0]['a']) != 1 or ch[0]['size'] != nd or ch[0]['replace'] is not True:
            problems.append('choice must be called once over one bootstrap with size = n_draws, replace=True')
        if len(rec.mvn_calls) != 1:
            problems.append('%d multivariate_normal calls (expected one)' % len(rec.mvn_calls))
        else:
            c = rec.mvn_calls[0]
            if not close_arr(c['mean'], info['coef'], 1e-12 * np.abs(info['coef'])):
                problems.append('MVN mean is not coef_')
            want = loaded(info['cov'])
            if not close_arr(c['cov'], want, 1e-12 * np.abs(want)):
                problems.append('MVN cov is not statistics_[cov] + sqrt(eps) diag(cov)')
            if c['size'] != nd or c['kw']:
                problems.append('MVN size is not n_draws')
        try:
            draws = np.vstack([c['mean'][None, :] + np.diag(c['cov'])[None, :] * c['u'] for c in rec.mvn_calls])
        except Exception:                     # noqa: BLE001  (a call with arguments of another shape)
            draws = np.zeros((0, m))
        if draws.shape != (nd, m):
            problems.append('the multivariate_normal calls return %s rows in total, expected (n_draws, m) = %s' % (list(draws.shape), [nd, m]))
            want, tol = impl, 0 * impl
        else:
            pp, want, tol = pipeline_expect(info, M, draws, rq['quantity'], rec.resp_calls, impl)
            problems += pp
        if problems:
            if nfail < MAX_FAILS:
                nfail += 1
                ctx.fail('oracle.pipeline', sig, case, observed=dict(problems=problems, out=head(impl)),
                         expected=dict(out=head(want)),
                         oracle='single bootstrap: MVN(coef_, cov + sqrt(eps) diag(cov), size=n_draws); mu = g^-1(B(X) draws^T)^T; '
                                'y = family sampler at the documented parameters; shape (n_draws, m | rows)')
            continue
        # ---------- model vs implementation ----------------------------------------------------------
        if model['choice'] != (len(ch[0]['a']), ch[0]['size']) or \
                model['calls'] != [(0, c['size']) for c in rec.mvn_calls] or len(model['args']) != len(rec.mvn_calls) or \
                any(not (close_arr(a[0], c['mean'], 1e-12 * np.abs(c['mean'])) and close_arr(a[1], c['cov'], 1e-12 * np.abs(c['cov'])))
                    for a, c in zip(model['args'], rec.mvn_calls)):
            ctx.disagree(sg, case, dict(choice=[len(ch[0]['a']), ch[0]['size']], calls=[c['size'] for c in rec.mvn_calls]),
                         dict(choice=model['choice'], calls=model['calls']), 'generator arguments')
        if not close_arr(impl, model['out'], tol):
            ctx.disagree(sv, case, head(impl), head(model['out']), 'returned draws')


# ------------------------------------------------------------------------------------------------
# load_diagonal
# ------------------------------------------------------------------------------------------------
def check_load(ctx, prepared):
    st = 'sample.load'
    ctx.stream(st, 'the covariance received by multivariate_normal vs loadedCov statistics_[cov] = cov + sqrt(eps) diag(cov) (bit-exact)')
    good = [p for p in prepared if 'info' in p and p['items'] and p['items'][0]['rec'].mvn_calls]
    outs = ctx.driver.run(['C17 load %d %s' % (p['info']['m'], ' '.join(f2bits(v) for v in p['info']['cov'].ravel())) for p in good])
    for p, out in zip(good, outs):
        m = p['info']['m']
        model = np.array([bits2f(t) for t in out.split()]).reshape(m, m)
        got = p['items'][0]['rec'].mvn_calls[0]['cov']
        ctx.case(st, dict(label=p['cfg']['label'], mix=p['cfg']['mix'], idx=p['cfg']['idx']), nontrivial=True)
        if not np.array_equal(model, got):
            want = loaded(p['info']['cov'])
            if not close_arr(got, want, 1e-11 * np.abs(want)):
                ctx.fail(st, dict(label=p['cfg']['label'], mix=p['cfg']['mix']), dict(cfg=p['cfg']), observed=got.tolist(),
                         expected=want.tolist(), oracle='covariance handed to the MVN generator = reported covariance + sqrt(eps) diag(reported covariance)')
            else:
                ctx.disagree(st, dict(cfg=p['cfg']), got.tolist(), model.tolist(), 'loaded covariance')


# ------------------------------------------------------------------------------------------------
# rejections
# ------------------------------------------------------------------------------------------------
def check_reject(ctx, P, prepared):
    st = 'sample.reject'
    ctx.stream(st, 'exception class over quantity x fitted x n_draws x n_bootstraps x data validity vs validateSample')
    good = [p for p in prepared if 'info' in p]
    rng = ctx.subrng('reject')
    targets = []
    seen = set()
    for p in good:
        if p['cfg']['label'] not in seen:
            seen.add(p['cfg']['label'])
            targets.append(p)
    quantities = ['coef', 'mu', 'y', 'foo', '', 'Y', 'coefs', 'MU']
    cases = []
    for p in targets[:6] if ctx.tier == 'quick' else targets:
        for q in quantities:
            for fitted in (True, False):
                for nd in (-1, 0, 1, 2):
                    for nb in (-2, 0, 1):
                        for data in ('ok', 'ok', 'nan-y', 'short-y', 'wide-X', 'bad-w'):
                            if rng.random() < (0.25 if ctx.tier == 'quick' else 0.6):
                                cases.append((p, q, fitted, nd, nb, data))
    outs = ctx.driver.run(['C17 validate %s %d %d %d %d' % (q if q else 'EMPTY', 1 if f else 0, nb, nd, 1 if data == 'ok' else 0)
                           for (p, q, f, nd, nb, data) in cases])
    nfail = 0
    for (p, q, fitted, nd, nb, data), mo in zip(cases, outs):
        cfg = p['cfg']
        X, y = p['X'], p['y'].copy()
        w = None
        if data == 'nan-y':
            y[0] = np.nan
        elif data == 'short-y':
            y = y[:-1]
        elif data == 'wide-X':
            X = np.c_[X, X[:, :1]]
        elif data == 'bad-w':
            w = np.ones(len(y) + 1)
        if fitted:
            gam = p['gam']
        else:
            ctor, kw, fam, link, known = base.LABELS[cfg['label']]
            kw = dict(kw)
            if kw.get('distribution') == 'binomial3':
                from pygam.distributions import BinomialDist
                kw['distribution'] = BinomialDist(levels=3)
            gam = getattr(P, ctor)(base.make_terms(P, cfg['mix'], cfg['lam'], cfg['ns']), **kw)
        rec = Recorder(seed=1)
        with patched(rec):
            try:
                out = quiet(gam.sample, X, y, quantity=q, n_draws=nd, n_bootstraps=nb, weights=w)
                impl = 'ok'
            except Exception as e:              # noqa: BLE001
                impl = type(e).__name__
        sig = dict(label=cfg['label'], quantity=q, fitted=fitted, n_draws=nd, n_bootstraps=nb, data=data)
        ctx.case(st, sig, nontrivial=True)
        ctx.count('reject-outcome', impl)
        # oracle: the property's rejection sentence (data validity is C11's: only the class is compared with the model there)
        bad_arg = q not in ('coef', 'mu', 'y') or nd < 1 or nb < 1
        want = None
        if q not in ('coef', 'mu', 'y'):
            want = 'ValueError'
        elif fitted and (nd < 1 or nb < 1):
            want = 'ValueError'
        elif fitted and not bad_arg and data == 'ok':
            want = 'ok'
        if want is not None and impl != want and nfail < MAX_FAILS:
            nfail += 1
            ctx.fail(st, sig, dict(cfg=cfg, quantity=q, fitted=fitted, n_draws=nd, n_bootstraps=nb, data=data), observed=impl,
                     expected=want, oracle='unknown quantity / n_draws < 1 / n_bootstraps < 1 are rejected with ValueError; valid calls return draws')
        elif impl != mo:
            ctx.disagree(st, dict(cfg=cfg, quantity=q, fitted=fitted, n_draws=nd, n_bootstraps=nb, data=data), impl, mo, 'exception class')


# ------------------------------------------------------------------------------------------------
# thorough: n_bootstraps > 1 (light)
# ------------------------------------------------------------------------------------------------
def check_bootstraps(ctx, P, prepared):
    st = 'sample.bootstraps'
    ctx.stream(st, 'n_bootstraps in {2,3}: choice over arange(n_bootstraps); one MVN call per drawn bootstrap in order of first appearance, '
                   'sizes = counts, bootstrap 0 = (coef_, cov + sqrt(eps) diag(cov)), rows placed at the draw positions — vs the model')
    good = [p for p in prepared if 'info' in p and p['cfg']['label'] in ('LinearGAM', 'LinearGAM.known', 'GammaGAM.known', 'PoissonGAM')
            and p['cfg']['mix'] in ('s0', 's0+l1', 'l0+l1')]
    good = good[:6 if ctx.tier == 'quick' else 14]
    lines, keep = [], []
    for p in good:
        info, gam = p['info'], p['gam']
        rng = common.random.Random('C17-boots-%d-%d' % (p['cfg']['seed'], p['cfg']['idx']))
        nb = rng.choice([2, 3])
        nd = rng.choice([4, 6])
        idx = [rng.randrange(nb) for _ in range(nd)]
        for b in range(nb):
            idx[rng.randrange(nd)] = b
        if len(set(idx)) < nb:
            idx = (list(range(nb)) + idx)[:nd]
        quantity = rng.choice(['coef', 'mu'])
        rec = Recorder(seed=rng.randrange(2 ** 31), idx=idx)
        np.random.seed(rng.randrange(2 ** 31))
        with patched(rec):
            try:
                out = quiet(gam.sample, p['X'], p['y'], quantity=quantity, n_draws=nd, n_bootstraps=nb)
                res = ('ok', to_arr(out))
            except Exception as e:              # noqa: BLE001
                res = (type(e).__name__, None)
        if res[0] == 'ok' and res[1] is None:
            res = ('not-an-array', None)
        if res[0] != 'ok':
            ch = rec.choice_calls
            if ch and (len(ch[0]['a']) != nb or ch[0]['size'] != nd):
                ctx.case(st, dict(label=p['cfg']['label'], mix=p['cfg']['mix'], n_bootstraps=nb, idx=idx, quantity=quantity), nontrivial=True)
                ctx.fail(st, dict(label=p['cfg']['label'], mix=p['cfg']['mix'], n_bootstraps=nb, quantity=quantity),
                         dict(cfg=p['cfg'], n_bootstraps=nb, n_draws=nd, idx=idx, quantity=quantity),
                         observed=dict(exception=res[0], choice_over=len(ch[0]['a']), size=ch[0]['size']),
                         expected='choice over arange(n_bootstraps) with size = n_draws',
                         oracle='bootstrap indices are drawn uniformly from {0, …, n_bootstraps - 1}, one per draw')
            else:
                ctx.count('bootstraps-skipped', res[0])
            continue
        if not rec.mvn_calls:
            ctx.count('capture', 'no-multivariate_normal-call (bootstraps)')
            ctx.disagree(st, dict(cfg=p['cfg'], n_bootstraps=nb, n_draws=nd, idx=idx), dict(mvn_calls=0), dict(calls='one per drawn bootstrap'),
                         'numpy.random.multivariate_normal was not called: generator protocol of the model not in use')
            continue
        order = []
        for b in idx:
            if b not in order:
                order.append(b)
        extra = {}
        for b, c in zip(order, rec.mvn_calls):
            extra[b] = (c['mean'], c['cov'])
        ex = [extra.get(b, (np.zeros(info['m']), np.zeros((info['m'], info['m'])))) for b in range(1, nb)]
        # the response sampler is also used for the bootstrap responses: only the MVN part is passed on
        rec2 = Recorder(seed=0)
        rec2.mvn_calls = rec.mvn_calls
        lines.append(sample_line(info, quantity, True, nb, nd, True, p['MX'], None, idx, ex, rec2))
        keep.append((p, nb, nd, idx, order, quantity, rec, res))
    outs = ctx.driver.run(lines)
    for (p, nb, nd, idx, order, quantity, rec, res), out in zip(keep, outs):
        info, cfg = p['info'], p['cfg']
        m = info['m']
        sig = dict(label=cfg['label'], mix=cfg['mix'], n_bootstraps=nb, idx=idx, quantity=quantity)
        ctx.case(st, sig, nontrivial=True)
        model = parse_sample(out, m)
        problems = []
        ch = rec.choice_calls
        if len(ch) != 1 or len(ch[0]['a']) != nb or ch[0]['size'] != nd:
            problems.append('choice must draw n_draws indices from arange(n_bootstraps)')
        sizes = [c['size'] for c in rec.mvn_calls]
        if sizes != [idx.count(b) for b in order]:
            problems.append('MVN call sizes %s != counts %s in order of first appearance' % (sizes, [idx.count(b) for b in order]))
        if 0 in order:
            c0 = rec.mvn_calls[order.index(0)]
            want = loaded(info['cov'])
            if not (close_arr(c0['mean'], info['coef'], 1e-12 * np.abs(info['coef'])) and close_arr(c0['cov'], want, 1e-12 * np.abs(want))):
                problems.append('bootstrap 0 is not (coef_, cov + sqrt(eps) diag(cov))')
        # rows placed at the draw positions
        draws = np.zeros((nd, m))
        for b, c in zip(order, rec.mvn_calls):
            pos = [d for d in range(nd) if idx[d] == b]
            if len(pos) == c['size']:
                draws[pos] = c['mean'][None, :] + np.diag(c['cov'])[None, :] * c['u']
        if quantity == 'coef':
            want, tol = draws, 1e-12 * np.abs(draws)
        else:
            lp = (p['MX'] @ draws.T).T
            want = base.link_inv(info['link'], info['levels'], lp)
            tl = 1e-12 * np.abs(lp) + 16 * m * EPS * (np.abs(p['MX']) @ np.abs(draws).T).T
            tol = np.abs(base.link_inv(info['link'], info['levels'], lp + tl) - base.link_inv(info['link'], info['levels'], lp - tl)) + 1e-12 * np.abs(want)
        if res[1].shape != want.shape or not close_arr(res[1], want, 10 * tol):
            problems.append('returned draws are not the MVN rows placed at their draw positions')
        if problems:
            ctx.fail(st, sig, dict(cfg=cfg, n_bootstraps=nb, n_draws=nd, idx=idx, quantity=quantity), observed=problems,
                     expected='grouping by bootstrap index', oracle='draw d comes from the MVN call of bootstrap idx[d]')
            continue
        if model['err'] or model['choice'] != (nb, nd) or model['calls'] != [(b, idx.count(b)) for b in order] or \
                not close_arr(res[1], model['out'], tol):
            ctx.disagree(st, dict(cfg=cfg, idx=idx), dict(calls=sizes), dict(err=model['err'], calls=model.get('calls')), 'bootstrap grouping')


# ------------------------------------------------------------------------------------------------
# thorough: seeded statistical checks with the real generators (supporting evidence)
# ------------------------------------------------------------------------------------------------
def check_statistics(ctx, P, prepared):
    st = 'sample.statistics'
    ctx.stream(st, 'seeded real draws (supporting): 2e4 coefficient draws — mean within 7 sigma, chi-square of whitened draws within '
                   '7 sigma, covariance entries within 9 sigma; standardised response draws mean 0 / variance 1')
    good = [p for p in prepared if 'info' in p]
    seen, targets = {}, []
    for p in good:
        if seen.get(p['cfg']['label'], 0) < 2 and p['info']['m'] <= 24:
            seen[p['cfg']['label']] = seen.get(p['cfg']['label'], 0) + 1
            targets.append(p)
    N = 20000
    for p in targets:
        info, gam, cfg = p['info'], p['gam'], p['cfg']
        m = info['m']
        seed = common.random.Random('C17-stats-%d-%d' % (cfg['seed'], cfg['idx'])).randrange(2 ** 31)
        rD = real_call(gam, seed, p['X'], p['y'], 'coef', N, None)
        D = rD[1]
        S = loaded(info['cov'])
        sig = dict(label=cfg['label'], mix=cfg['mix'], seed=seed, what='coef')
        ctx.case(st, sig, nontrivial=True)
        if rD[0] != 'ok' or D is None or D.shape != (N, m) or not np.isfinite(D).all():
            ctx.fail(st, sig, dict(cfg=cfg, seed=seed, n_draws=N), observed=dict(status=rD[0], shape=shape_of(D)),
                     expected=dict(shape=[N, m]), oracle='a valid sample() call returns finite draws of shape (n_draws, m)')
            continue
        problems = []
        sd = np.sqrt(np.diag(S))
        zmean = np.abs(D.mean(axis=0) - info['coef']) / (sd / math.sqrt(N))
        if zmean.max() > 7:
            problems.append('mean of draws deviates from coef_ by %.1f sigma' % zmean.max())
        C = np.cov(D.T, bias=False).reshape(m, m)
        bound = 9 * np.sqrt((np.outer(np.diag(S), np.diag(S)) + S ** 2) / N)
        if np.any(np.abs(C - S) > bound):
            problems.append('sample covariance deviates from cov by more than 9 sigma')
        ev, V = np.linalg.eigh(S)
        keep = ev > 1e-6 * ev.max()
        Z = (D - info['coef'][None, :]) @ V[:, keep] / np.sqrt(ev[keep])[None, :]
        r = int(keep.sum())
        chi = float((Z ** 2).sum())
        if abs(chi - N * r) > 7 * math.sqrt(2 * N * r):
            problems.append('whitened chi-square %.1f vs %d +- %.1f' % (chi, N * r, math.sqrt(2 * N * r)))
        if problems:
            ctx.fail(st, sig, dict(cfg=cfg, seed=seed, n_draws=N), observed=problems, expected='N(coef_, cov) within concentration bounds',
                     oracle='coefficient draws ~ N(coef_, cov): 7-sigma mean, 9-sigma covariance entries, 7-sigma chi-square (false alarm < 1e-9)')
        # responses: same seed => same coefficient draws => the means of the y call are the mu call's output
        nd = 4000
        rM = real_call(gam, seed, p['X'], p['y'], 'mu', nd, p['Xq'])
        rY = real_call(gam, seed, p['X'], p['y'], 'y', nd, p['Xq'])
        MU, Y = rM[1], rY[1]
        if rY[0].startswith('ValueError'):
            # a simulated mean outside the sampler's domain (e.g. negative mean under the inverse link): NumPy refuses
            ctx.count('response-stat-skipped', '%s: %s' % (cfg['label'], rY[0][:52]))
            continue
        if rM[0] != 'ok' or rY[0] != 'ok' or MU is None or Y is None or MU.shape != (nd, len(p['Xq'])) or Y.shape != MU.shape:
            ctx.fail(st, dict(label=cfg['label'], mix=cfg['mix'], seed=seed, what='y'), dict(cfg=cfg, seed=seed, n_draws=nd),
                     observed=dict(mu=rM[0], y=rY[0], mu_shape=shape_of(MU), y_shape=shape_of(Y)), expected=dict(shape=[nd, len(p['Xq'])]),
                     oracle='valid sample() calls return arrays of shape (n_draws, query rows)')
            continue
        fam, phi, lv = info['fam'], info['scale'], info['levels']
        with np.errstate(all='ignore'):
            V_ = {'normal': np.ones_like(MU), 'binomial': MU * (1 - MU / lv), 'poisson': MU, 'gamma': MU ** 2, 'inv_gauss': MU ** 3}[fam]
            R = (Y - MU) / np.sqrt(phi * V_)
        okm = np.isfinite(R) & (V_ > 1e-12) & (np.abs(MU) < 1e8)
        R = R[okm]
        sig = dict(label=cfg['label'], mix=cfg['mix'], seed=seed, what='y')
        ctx.case(st, sig, nontrivial=True)
        if R.size > 1000:
            n_ = R.size
            zm = abs(R.mean()) * math.sqrt(n_)
            # variance of R^2 from the family's THEORETICAL fourth moment at each mean (the empirical one underestimates it
            # badly when the mass sits in rare events: Bernoulli draws at p ~ 1e-6 in 4000 draws)
            with np.errstate(all='ignore'):
                Pm = (MU / lv)[okm] if fam == 'binomial' else None
                kurt = {'normal': lambda: np.full(R.shape, 3.0),
                        'binomial': lambda: 3.0 + (1 - 6 * Pm * (1 - Pm)) / (lv * Pm * (1 - Pm)),
                        'poisson': lambda: 3.0 + 1.0 / MU[okm],
                        'gamma': lambda: np.full(R.shape, 3.0 + 6.0 * phi),
                        'inv_gauss': lambda: 3.0 + 15.0 * phi * MU[okm]}[fam]()
            kurt = np.where(np.isfinite(kurt), kurt, 3.0)
            m4 = float(max(np.mean(R ** 4), np.mean(kurt)))
            zv = abs(float(np.mean(R ** 2)) - 1) / math.sqrt(max(m4 - 1, 1e-3) / n_)
            ctx.count('response-z', 'mean<=%d' % math.ceil(zm))
            if zm > 7 or zv > 9:
                ctx.fail(st, sig, dict(cfg=cfg, seed=seed, n_draws=nd), observed=dict(z_mean=zm, z_var=zv, mean_r2=float(np.mean(R ** 2))),
                         expected='standardised response draws have mean 0 and variance 1',
                         oracle='y draws have mean mu and variance scale V(mu) (7 / 9 sigma)')
        else:
            ctx.count('response-stat-skipped', cfg['label'])


# ------------------------------------------------------------------------------------------------
# generator-agnostic observation: one sample() call under a seeded global generator
# ------------------------------------------------------------------------------------------------
def seeded_call(gam, seed, X, y, quantity, n_draws, at):
    """`gam.sample(..., n_bootstraps=1)` with the NumPy global generator seeded with `seed` and the recording stand-ins
    (seeded with `seed` too) installed: whatever mixture of numpy.random entry points the library uses, two calls with the
    same seed on two models in the same fitted state see the same generator results.  Returns ((status, array|None), rec)."""
    rec = Recorder(seed=seed)
    np.random.seed(seed % (2 ** 32))
    with patched(rec):
        try:
            out = gam.sample(X, y, quantity=quantity, n_draws=n_draws, n_bootstraps=1, sample_at_X=at)
            res = ('ok', to_arr(out))
        except Exception as e:                # noqa: BLE001
            res = (type(e).__name__ + ': ' + str(e)[:120], None)
    return res, rec


def real_call(gam, seed, X, y, quantity, n_draws, at):
    """the same with the *real* NumPy generators (nothing patched)"""
    np.random.seed(seed % (2 ** 32))
    try:
        out = gam.sample(X, y, quantity=quantity, n_draws=n_draws, n_bootstraps=1, sample_at_X=at)
        return ('ok', to_arr(out))
    except Exception as e:                    # noqa: BLE001
        return (type(e).__name__ + ': ' + str(e)[:120], None)


def step_problems(info, twin, gam, seed, X, y, quantity, n_draws, at):
    """One call of `gam.sample` decided exactly, whatever generator entry points are used: the coefficient draws of the
    call are those a *twin* (deep copy of the model taken right after its fit, never used for anything but coefficient
    draws) returns for quantity='coef' under the same seed; the call must return the pipeline applied to them at the
    CURRENT contents of `at` (or `X`).  Returns dict(problems, notes, res, rec, M, D, want, tol)."""
    res, rec = seeded_call(gam, seed, X, y, quantity, n_draws, at)
    out = dict(problems=[], notes=[], res=res, rec=rec, M=None, D=None, want=None, tol=None)
    m = info['m']
    Xc = np.array(X, dtype=float, copy=True)
    yc = np.array(y, dtype=float, copy=True)
    atc = Xc if at is None else np.array(at, dtype=float, copy=True)
    if res[0] != 'ok':
        out['problems'].append('a valid call raised %s' % res[0])
        return out
    resT, recT = seeded_call(twin, seed, Xc, yc, 'coef', n_draws, None)
    D = resT[1]
    if resT[0] != 'ok' or D is None or D.shape != (n_draws, m):
        out['problems'].append("quantity='coef' on the same fitted state: %s, shape %s, expected %s" % (resT[0], shape_of(D), [n_draws, m]))
        return out
    try:
        M = base.dense_rows(twin, atc)
    except Exception as e:                    # noqa: BLE001
        out['notes'].append('model matrix at the requested rows not available: %s' % type(e).__name__)
        return out
    out['M'], out['D'] = M, D
    pp, want, tol = pipeline_expect(info, M, D, quantity, rec.resp_calls, res[1])
    if pp and quantity != 'coef' and res[1] is not None and res[1].shape == (n_draws, M.shape[0]):
        # which stage?  (diagnosis only, after the observation): the model's own coefficient draws for this seed
        resM, _ = seeded_call(gam, seed, Xc, yc, 'coef', n_draws, None)
        if resM[0] == 'ok' and resM[1] is not None and resM[1].shape == D.shape and not close_arr(resM[1], D, 1e-12 * np.abs(D)):
            pp2, want2, tol2 = pipeline_expect(info, M, resM[1], quantity, rec.resp_calls, res[1])
            if not pp2:
                out['notes'].append('coefficient draws depend on the history of the object (differ from those of a copy in the same '
                                    'fitted state under the same seed); the pipeline behind them is as stated')
                pp, want, tol = pp2, want2, tol2
    elif pp and quantity == 'coef' and res[1] is not None and res[1].shape == D.shape:
        out['notes'].append('coefficient draws depend on the history of the object (differ from those of a copy in the same fitted '
                            'state under the same seed)')
        pp = []
    out['problems'] += pp
    out['want'], out['tol'] = want, tol
    return out


# ------------------------------------------------------------------------------------------------
# stress models: badly conditioned coefficient covariances
# ------------------------------------------------------------------------------------------------
STRESS_FAMS = ['linear', 'linear', 'linear', 'poisson', 'logistic', 'gamma']
STRESS_UNITS = [1.0, 1e3, 1e6, 1e6, 1e9, 1e-3, 1e-6, 1e-9]
STRESS_KINDS = ['gap', 'dup', 'n<m', 'plain', 'const', 'badscale']
STRESS_LAMS = [0.6, 1e-3, 1e4, 1e8]
STRESS_FAMINFO = {'linear': ('LinearGAM', 'normal', 'identity'), 'poisson': ('PoissonGAM', 'poisson', 'log'),
                  'logistic': ('LogisticGAM', 'binomial', 'logit'), 'gamma': ('GammaGAM', 'gamma', 'log')}


def stress_cfgs(ctx):
    """(family, response unit, design, lam): the designs leave directions of the coefficient space weakly identified
    (a gap in the data, a duplicated feature, fewer rows than coefficients, a nearly constant feature, a huge / tiny
    penalty), the units scale the covariance by unit^2 — together they reach covariances whose condition number exceeds
    1 / eps, where the rare branches of any factorisation (Cholesky failure, negative eigenvalues, SVD) are taken."""
    rng = ctx.subrng('stress')
    cfgs = []
    # every design at the largest units, for the family whose covariance scales with the units
    for kind in STRESS_KINDS:
        cfgs.append(dict(fam='linear', unit=1e6, kind=kind, lam=rng.choice(STRESS_LAMS)))
        cfgs.append(dict(fam='linear', unit=rng.choice([1e6, 1e9]), kind=kind, lam=rng.choice(STRESS_LAMS)))
    cfgs.append(dict(fam='linear', unit=1e3, kind=rng.choice(STRESS_KINDS), lam=rng.choice(STRESS_LAMS)))
    cfgs.append(dict(fam='linear', unit=1.0, kind=rng.choice(STRESS_KINDS), lam=rng.choice(STRESS_LAMS)))
    # small units: the covariance is tiny in absolute terms (any absolute diagonal load swamps it); badly scaled features:
    # coefficient variances of order 1e-12 next to some of order 1 (a load relative to the largest entry swamps the small ones)
    for unit in (1e-3, 1e-6, 1e-9):
        cfgs.append(dict(fam='linear', unit=unit, kind=rng.choice(STRESS_KINDS), lam=rng.choice(STRESS_LAMS)))
    cfgs.append(dict(fam='linear', unit=1.0, kind='badscale', lam=rng.choice(STRESS_LAMS)))
    cfgs.append(dict(fam='linear', unit=rng.choice([1e-3, 1e-6, 1e3]), kind='badscale', lam=rng.choice(STRESS_LAMS)))
    cfgs.append(dict(fam=rng.choice(['poisson', 'gamma']), unit=1.0, kind='badscale', lam=rng.choice(STRESS_LAMS)))
    for fam in ('poisson', 'logistic', 'gamma'):
        cfgs.append(dict(fam=fam, unit=rng.choice([1.0, 1e3, 1e6]), kind=rng.choice(STRESS_KINDS), lam=rng.choice(STRESS_LAMS)))
    extra = 5 if ctx.tier == 'quick' else 150
    for _ in range(extra):
        cfgs.append(dict(fam=rng.choice(STRESS_FAMS), unit=rng.choice(STRESS_UNITS), kind=rng.choice(STRESS_KINDS),
                         lam=rng.choice(STRESS_LAMS)))
    for i, c in enumerate(cfgs):
        c['idx'] = i
        c['seed'] = ctx.seed
        c['ns'] = rng.choice([8, 12, 20, 40]) if c['kind'] in ('gap', 'plain') else rng.choice([6, 8, 12])
    return cfgs


def stress_data(sc):
    rs = np.random.RandomState(common.random.Random('C17-stress-%d-%d' % (sc['seed'], sc['idx'])).randrange(2 ** 31))
    kind = sc['kind']
    if kind == 'gap':
        n = 200
        x0 = np.r_[rs.uniform(0, 0.2, n // 2), rs.uniform(0.8, 1, n - n // 2)]
        x1 = rs.uniform(-2, 2, n)
    elif kind == 'dup':
        n = 60
        x0 = rs.uniform(0, 1, n)
        x1 = x0.copy()
    elif kind == 'n<m':
        n = 12
        x0 = rs.uniform(0, 1, n)
        x1 = rs.uniform(-2, 2, n)
    elif kind == 'const':
        n = 80
        x0 = rs.uniform(0, 1, n)
        x1 = 1.0 + 2.0 ** -30 * rs.randint(0, 3, n)
    else:
        n = 80
        x0 = rs.uniform(0, 1, n)
        x1 = rs.uniform(-2, 2, n)
    eta = np.sin(6 * x0) + 0.2 * (x1 if kind != 'const' else 0.0)
    if kind == 'badscale':
        x1 = x1 * 2.0 ** 20                   # a feature recorded in units a million times smaller: its coefficient is ~1e-6 times as large
    X = np.c_[x0, x1]
    fam, unit = sc['fam'], sc['unit']
    if fam == 'linear':
        y = unit * (eta + 0.1 * rs.randn(n))
    elif fam == 'poisson':
        y = rs.poisson({1.0: 0.05, 1e3: 5.0}.get(unit, 5000.0) * np.exp(eta)).astype(float)
    elif fam == 'logistic':
        y = (eta * {1.0: 1.0, 1e3: 30.0}.get(unit, 1e6) + rs.logistic(size=n) > 0).astype(float)
    else:
        y = unit * np.exp(eta) * rs.gamma(6.0, 1 / 6.0, n)
    Xq = X[rs.randint(0, n, 6)].copy()
    Xq[:3, 0] = [0.5, 0.25, 1.125]            # inside the gap / between data / beyond the range
    return X, y, Xq


def fit_stress(P, sc):
    X, y, Xq = stress_data(sc)
    lam = sc['lam']
    ns = sc['ns'] if sc['kind'] != 'n<m' else 25
    terms = P.s(0, n_splines=ns, lam=lam) + (P.s(1, n_splines=8, lam=lam) if sc['kind'] == 'dup' else P.l(1, lam=lam))
    ctor, fam, link = STRESS_FAMINFO[sc['fam']]
    gam = getattr(P, ctor)(terms, max_iter=200, tol=1e-6)
    gam.fit(X, y)
    return gam, X, y, Xq


def stress_info(gam, sc):
    ctor, fam, link = STRESS_FAMINFO[sc['fam']]
    return dict(fam=fam, link=link, levels=1.0, coef=np.asarray(gam.coef_, dtype=float).copy(),
                cov=np.asarray(gam.statistics_['cov'], dtype=float).copy(), scale=float(gam.statistics_['scale']), m=len(gam.coef_))


def prepare_stress(P, sc):
    try:
        gam, X, y, Xq = quiet(fit_stress, P, sc)
        info = stress_info(gam, sc)
    except Exception as e:                    # noqa: BLE001
        return dict(stress=sc, error=type(e).__name__)
    if not (np.isfinite(info['coef']).all() and np.isfinite(info['cov']).all() and math.isfinite(info['scale'])):
        return dict(stress=sc, error='non-finite-statistics')
    return dict(stress=sc, gam=gam, info=info, X=X, y=y, Xq=Xq)


# ------------------------------------------------------------------------------------------------
# seeded statistical oracle on the real draws (generator-agnostic)
# ------------------------------------------------------------------------------------------------
P_TAIL = 2e-9            # two-sided tail probability of every single bound: the 6-sigma level


def moment_problems(info, D, M_rows, fseed):
    """First two moments of the coefficient draws `D` (N x m) and of linear functionals b of them, directly against the
    property text: mean b.coef_, variance b' cov b with cov = statistics_['cov'].  Functionals: the coordinates, differences
    of neighbouring coordinates, random directions, rows of the model matrix (fitted / predicted values), extreme
    eigenvectors.  Bounds: the mean of b.D within z(P_TAIL) standard errors of b.coef_; its sample variance between
    lo b'cov b and hi (b'cov b + sqrt(eps) sum_i b_i^2 cov_ii) with lo, hi the exact chi-square(N-1) quantiles (P_TAIL) — the
    second term is the relative diagonal loading (b'Sb for S = cov + sqrt(eps) diag(cov), Props/C17.lean: loaded_cov_psd),
    the only departure from the reported covariance that is allowed: an absolute load, or one relative to the largest
    entry, exceeds it for responses in small units / coefficients on mixed scales.  `statistics_['cov']` itself carries a
    rounding error of order eps ||cov||: a numerical slack of 64 m eps ||S||_2 |b|^2 is added to every variance (so functionals
    along numerically null directions are bounded from above only)."""
    import scipy.stats as st
    coef, m = info['coef'], info['m']
    N = D.shape[0]
    S = loaded(info['cov'])
    S = (S + S.T) / 2.0
    rs = np.random.RandomState(fseed)
    F = [np.eye(m)[j] for j in range(m)]
    F += [np.eye(m)[j] - np.eye(m)[j + 1] for j in range(m - 1)]
    F += [rs.randn(m) for _ in range(8)]
    F += [rs.randint(-1, 2, m).astype(float) for _ in range(4)]
    F += [np.asarray(r, dtype=float) for r in M_rows if np.shape(r) == (m,)]
    try:
        ev, V = np.linalg.eigh(S)
        F += [V[:, -1], V[:, max(m - 2, 0)], V[:, 0], V[:, m // 2]]
        nrm = float(max(abs(ev[0]), abs(ev[-1])))
    except np.linalg.LinAlgError:
        nrm = float(np.abs(S).sum(axis=1).max())
    F = np.array(F, dtype=float)
    with np.errstate(all='ignore'):
        Z = D @ F.T
        mean = F @ coef
        C = (info['cov'] + info['cov'].T) / 2.0
        var = np.einsum('ij,jk,ik->i', F, C, F)                                   # b' cov b: the property text
        loadterm = SQRT_EPS * ((F ** 2) @ np.maximum(np.diag(C), 0.0))              # the relative loading: sqrt(eps) sum b_i^2 cov_ii
        slack = 64 * m * EPS * nrm * (F ** 2).sum(axis=1)
        lo = st.chi2.ppf(P_TAIL / 2, N - 1) / (N - 1)
        hi = st.chi2.isf(P_TAIL / 2, N - 1) / (N - 1)
        zq = st.norm.isf(P_TAIL / 2)
        vpos = np.maximum(var, 0.0)
        vh = Z.var(axis=0, ddof=1)
        mh = Z.mean(axis=0)
        se = np.sqrt((vpos + loadterm + slack) / N)
        bad_m = ~(np.abs(mh - mean) <= zq * se + 1e-9 * np.abs(mean))
        bad_hi = ~(vh <= hi * (vpos + loadterm) + slack)
        bad_lo = ~(vh >= lo * vpos - slack)
    problems = []
    if not np.isfinite(D).all():
        problems.append('non-finite coefficient draws')
        return problems, dict(functionals=len(F))
    for name, bad in (('mean', bad_m), ('variance too large', bad_hi), ('variance too small', bad_lo)):
        if bad.any():
            k = int(np.argmax(bad))
            if name == 'mean':
                problems.append('%d of %d functionals: mean of the draws off by %.1f standard errors (first: functional %d, %.6g vs %.6g)'
                                % (bad.sum(), len(F), float(np.abs(mh[k] - mean[k]) / se[k]), k, mh[k], mean[k]))
            else:
                problems.append('%d of %d functionals: %s (first: functional %d, sample variance %.6g = %.4g x b\'cov b (%.6g), allowed [%.4f, %.4f] b\'cov b + loading %.3g +- %.3g)'
                                % (bad.sum(), len(F), name, k, vh[k], vh[k] / var[k] if var[k] > 0 else float('nan'), var[k], lo, hi, hi * loadterm[k], slack[k]))
    return problems, dict(functionals=len(F), degenerate=int((var <= slack).sum()))


def response_problems(info, MU, Y):
    """standardised response draws (y - mu) / sqrt(scale V(mu)) have mean 0 (7 sigma) and variance 1 (9 sigma, with the
    standard error of the mean of r^2 from the theoretical kurtosis of each family).  Returns (problems, n used)."""
    fam, phi, lv = info['fam'], info['scale'], info['levels']
    with np.errstate(all='ignore'):
        V_ = {'normal': np.ones_like(MU), 'binomial': MU * (1 - MU / lv), 'poisson': MU, 'gamma': MU ** 2, 'inv_gauss': MU ** 3}[fam]
        R = (Y - MU) / np.sqrt(phi * V_)
        # theoretical kurtosis of the standardised draw at each entry; entries whose law is dominated by rare events
        # (Bernoulli p(1-p) < 1/33, Poisson mean < 1/27, …) are left out: a mean of r^2 over them is not concentrated
        pq = (MU / lv) * (1 - MU / lv)
        kurt = {'normal': 3.0 + 0 * MU, 'binomial': 3.0 + (1 - 6 * pq) / (lv * pq), 'poisson': 3.0 + 1.0 / MU,
                'gamma': 3.0 + 6 * phi + 0 * MU, 'inv_gauss': 3.0 + 15 * phi * MU}[fam]
        okm = np.isfinite(R) & (V_ > 1e-12) & (np.abs(MU) < 1e8 * max(1.0, math.sqrt(phi))) & np.isfinite(kurt) & (kurt <= 30.0)
    R = R[okm]
    if R.size <= 1000:
        return [], int(R.size)
    n_ = R.size
    zm = abs(R.mean()) * math.sqrt(n_)
    zv = abs(float(np.mean(R ** 2)) - 1) / math.sqrt(max(float(np.sum(kurt[okm] - 1.0)), 1e-3 * n_) / n_ ** 2)
    if zm > 7 or zv > 9:
        return ['standardised response draws: mean off by %.1f sigma, variance off by %.1f sigma (mean r^2 = %.4g)' % (zm, zv, float(np.mean(R ** 2)))], n_
    return [], n_


def moments_once(p, N, seed):
    """all statistical checks of one model under one seed; returns (problems, stats)"""
    info, gam, X, y, Xq = p['info'], p['gam'], p['X'], p['y'], p['Xq']
    m = info['m']
    res = real_call(gam, seed, X, y, 'coef', N, None)
    D = res[1]
    if res[0] != 'ok' or D is None or D.shape != (N, m):
        return ['quantity=coef, n_draws=%d: %s, shape %s (expected %s)' % (N, res[0], shape_of(D), [N, m])], {}
    try:
        rows = list(base.dense_rows(gam, np.r_[X[::max(1, len(X) // 6)], Xq]))
    except Exception:                         # noqa: BLE001
        rows = []
    problems, stats = moment_problems(info, D, rows, seed + 1)
    # the pipeline on the real draws: the same seed gives the same coefficient draws
    res2 = real_call(gam, seed, X, y, 'coef', N, None)
    if res2[0] == 'ok' and close_arr(res2[1], D, 0.0):
        nd = min(N, 4000)
        Dn = D if nd == N else real_call(gam, seed, X, y, 'coef', nd, None)[1]
        resm = real_call(gam, seed, X, y, 'mu', nd, Xq)
        MU = resm[1]
        try:
            Mq = base.dense_rows(gam, np.array(Xq, copy=True))
        except Exception:                     # noqa: BLE001
            Mq = None
        if resm[0] != 'ok':
            problems.append('quantity=mu raised %s' % resm[0])
        elif Mq is not None and Dn is not None and Dn.shape == (nd, m):
            pp, want, tol = pipeline_expect(info, Mq, Dn, 'mu', [], MU)
            problems += ['real draws, same seed: ' + q for q in pp]
            if not pp:
                resy = real_call(gam, seed, X, y, 'y', nd, Xq)
                if resy[0] == 'ok' and resy[1] is not None and resy[1].shape == MU.shape:
                    rp, used = response_problems(info, MU, resy[1])
                    problems += rp
                    stats['response_entries'] = used
                elif resy[0] == 'ok':
                    problems.append('quantity=y: shape %s, expected %s' % (shape_of(resy[1]), list(MU.shape)))
                else:
                    stats['response_skipped'] = resy[0][:60]       # a simulated mean outside the sampler's domain: NumPy refuses
    else:
        stats['not_reproducible'] = True
    return problems, stats


def check_moments(ctx, P, stress, regular):
    st_ = 'sample.moments'
    ctx.stream(st_, 'real NumPy generators, seeded: first two moments of N coefficient draws and of linear functionals of them '
                    '(coordinates, contrasts, random directions, rows of the model matrix, eigenvectors) vs coef_ and the reported cov — means '
                    'within 6 sigma, variances within [lo b\'cov b, hi (b\'cov b + sqrt(eps) sum b_i^2 cov_ii)] (exact chi-square quantiles at '
                    'the 6-sigma level; the second term is the relative diagonal loading), + 64 m eps ||S|| numerical slack; mu at the same seed = g^-1(B(X) draws^T)^T; standardised response '
                    'draws; on models with badly conditioned covariances (units 1e-9 … 1e9 x data gap / duplicated feature / '
                    'n < m / constant feature / badly scaled feature x lam 1e-3 … 1e8); a failure must repeat under a second seed')
    N = 4000
    targets = [p for p in stress if 'info' in p]
    for p in stress:
        if 'info' not in p:
            ctx.count('stress-fit-skipped', '%s/%s: %s' % (p['stress']['fam'], p['stress']['kind'], p['error']))
    seen = {}
    for p in regular:
        if 'info' in p and seen.get(p['cfg']['label'], 0) < (1 if ctx.tier == 'quick' else 3) and p['info']['m'] <= 40:
            seen[p['cfg']['label']] = seen.get(p['cfg']['label'], 0) + 1
            targets.append(p)
    nfail = 0
    for p in targets:
        info = p['info']
        if 'stress' in p:
            sc = p['stress']
            sig = dict(stress=True, fam=sc['fam'], unit=sc['unit'], kind=sc['kind'], lam=sc['lam'], ns=sc['ns'])
            case = dict(stress=sc, n_draws=N)
            key = 'C17-mom-s-%d-%d' % (sc['seed'], sc['idx'])
        else:
            cfg = p['cfg']
            sig = dict(stress=False, label=cfg['label'], mix=cfg['mix'], lam=cfg['lam'], n=cfg['n'], ns=cfg['ns'])
            case = dict(cfg=cfg, n_draws=N)
            key = 'C17-mom-r-%d-%d' % (cfg['seed'], cfg['idx'])
        seed = common.random.Random(key).randrange(2 ** 31)
        ctx.case(st_, sig, nontrivial=True)
        S = loaded(info['cov'])
        try:
            np.linalg.cholesky(S)
            ctx.count('loaded-covariance', 'cholesky-ok')
        except np.linalg.LinAlgError:
            ctx.count('loaded-covariance', 'not-numerically-positive-definite')
        with np.errstate(all='ignore'):
            ctx.count('cov-norm', '1e%d' % int(math.floor(math.log10(max(np.abs(S).max(), 1e-300)))))
        problems, stats = moments_once(p, N, seed)
        if stats.get('not_reproducible'):
            ctx.disagree(st_, case, 'two calls under the same numpy.random.seed differ', 'identical',
                         'the draws do not come from the seeded global NumPy generator (observation point of C17)')
        if problems:
            # a concentration bound can fail by chance (about 1e-7 per model): it must fail again with fresh draws
            again, _ = moments_once(p, N, seed + 7919)
            if again and nfail < MAX_FAILS:
                nfail += 1
                ctx.fail(st_, sig, dict(case, seed=seed), observed=dict(first_seed=problems[:6], second_seed=again[:6]),
                         expected='coefficient draws ~ N(coef_, cov + sqrt(eps) diag(cov)); mu = g^-1(B(X) draws); y ~ family(mu)',
                         oracle='seeded concentration bounds on the real draws (each bound fails by chance with probability 2e-9; '
                                'confirmed under a second seed)')
            elif not again:
                ctx.count('moments-chance-failure', key)


# ------------------------------------------------------------------------------------------------
# the pipeline on whatever generator entry points are in use (exact, same-seed twin)
# ------------------------------------------------------------------------------------------------
def check_seeded_pipeline(ctx, models):
    st_ = 'oracle.seeded-pipeline'
    ctx.stream(st_, 'generator-agnostic: under one seed, sample(mu | y, sample_at_X) = pipeline applied to what sample(coef) returns '
                    'for a copy of the model under the same seed (mu = g^-1(B(X) draws^T)^T, documented sampler arguments, shapes)')
    import copy
    nfail = 0
    for p in models:
        if 'info' not in p:
            continue
        info, gam = p['info'], p['gam']
        if 'stress' in p:
            sc = p['stress']
            base_sig = dict(stress=True, fam=sc['fam'], unit=sc['unit'], kind=sc['kind'], lam=sc['lam'], ns=sc['ns'])
            base_case = dict(stress=sc)
            rng = common.random.Random('C17-sp-s-%d-%d' % (sc['seed'], sc['idx']))
        else:
            cfg = p['cfg']
            base_sig = dict(stress=False, label=cfg['label'], mix=cfg['mix'], icpt=cfg['fit_intercept'], lam=cfg['lam'], n=cfg['n'], ns=cfg['ns'])
            base_case = dict(cfg=cfg)
            rng = common.random.Random('C17-sp-r-%d-%d' % (cfg['seed'], cfg['idx']))
        try:
            twin = copy.deepcopy(gam)
        except Exception as e:                # noqa: BLE001
            ctx.count('seeded-pipeline-skipped', 'deepcopy: ' + type(e).__name__)
            continue
        for quantity, at in (('mu', rng.random() < 0.5), ('y', rng.random() < 0.5)):
            nd = rng.choice([1, 2, 3, 5])
            seed = rng.randrange(2 ** 31)
            sig = dict(base_sig, quantity=quantity, at=at, n_draws=nd)
            ctx.case(st_, sig, nontrivial=True)
            r = step_problems(info, twin, gam, seed, p['X'], p['y'], quantity, nd, p['Xq'] if at else None)
            for note in r['notes']:
                ctx.disagree(st_, dict(base_case, quantity=quantity, at=at, n_draws=nd, seed=seed), note, 'stateless sample()', 'history dependence')
            if r['problems']:
                r2 = step_problems(info, twin, gam, seed, p['X'], p['y'], quantity, nd, p['Xq'] if at else None)
                if r2['problems'] and nfail < MAX_FAILS:
                    nfail += 1
                    ctx.fail(st_, sig, dict(base_case, quantity=quantity, at=at, n_draws=nd, seed=seed),
                             observed=dict(problems=r['problems'], out=head(r['res'][1])), expected=dict(out=head(r['want'])),
                             oracle='mu = g^-1(B(requested X) draws^T)^T for the coefficient draws of the same seed; y = family sampler '
                                    'at the documented parameters; shapes')


# ------------------------------------------------------------------------------------------------
# histories of calls on one fitted model
# ------------------------------------------------------------------------------------------------
HIST_LABELS = ['LinearGAM', 'PoissonGAM', 'LogisticGAM', 'GammaGAM', 'LinearGAM.known', 'GAM/normal/log', 'InvGaussGAM.known']
HIST_MIXES = ['s0+l1', 's0+f2', 'te01', 's0+s1by3', 'cp0+f2d']
MUTATIONS = ['keep', 'inplace-col', 'inplace-col', 'inplace-rows', 'rebind-equal', 'rebind-new']
COL_LEVELS = {0: [0.125, 0.5, 0.875, 1.25, -0.25, 0.0, 1.0], 1: [-1.5, 0.0, 1.75, 3.0, -2.0], 2: [0.0, 1.0, 2.0, 3.0], 3: [-1.0, 0.5, 2.0, 0.0]}


def gen_history(ctx, h):
    """one history: a fitted model, three array objects (the training-shaped `X` that is also the query when
    sample_at_X is None, and two scenario buffers `A`, `B`) and 10-16 steps: sample(quantity, buffer) after a mutation of
    that buffer (none / a column or the rows overwritten in place / a new object with equal contents / a new object with new
    contents), predict(buffer), refit (same data / rescaled feature 0, which moves the knots / new responses), and
    sample(..., n_bootstraps in {2, 3}) framed by two identical requests for responses (boot_triple)"""
    rng = ctx.subrng('history', h)
    forced = h >= BOOT_H0
    if forced:
        label = BOOT_LABELS[(h - BOOT_H0) % len(BOOT_LABELS)]
    else:
        label = HIST_LABELS[h % len(HIST_LABELS)] if h < len(HIST_LABELS) else rng.choice(HIST_LABELS)
    # (the index also selects the response units of the identity-link normal models: drawn for the forced histories)
    cfg = base.make_cfg(ctx.seed, 200000 + h if not forced else 210000 + 4 * (h - BOOT_H0) + rng.randrange(4), label, rng.choice(HIST_MIXES), ctx.tier)
    cfg['n'] = rng.choice([30, 45, 80])
    cfg['nq'] = rng.choice([4, 6, 9])
    steps = []
    for k in range(rng.choice([10, 12, 16])):
        u = rng.random()
        if u < 0.72:
            steps.append(dict(op='sample', quantity=rng.choice(['mu', 'mu', 'y', 'y', 'coef']), buf=rng.choice(['X', 'A', 'A', 'B']),
                              mut=rng.choice(MUTATIONS), col=rng.choice([0, 1, 2, 3]), lvl=rng.randrange(16), n_draws=rng.choice([1, 2, 3, 5]),
                              seed=rng.randrange(2 ** 31)))
        elif u < 0.87:
            steps.append(dict(op='predict', buf=rng.choice(['X', 'A', 'B'])))
        else:
            steps.append(dict(op='refit', kind=rng.choice(['same', 'rescale0', 'new-y', 'gridsearch', 'gridsearch'])))
    if not any(s_['op'] == 'refit' and s_['kind'] != 'same' for s_ in steps):
        # every history sees the fitted state change at least once, somewhere in the middle
        steps.insert(rng.randrange(len(steps) // 4, 3 * len(steps) // 4 + 1), dict(op='refit', kind=rng.choice(['rescale0', 'new-y'])))
    # sample() calls with several bootstraps as history steps: every history has one (the forced histories of the generic
    # GAM models two, the first before any refit), framed by two identical single-bootstrap requests for responses
    # (same seed, same buffer, contents untouched in between)
    for j in range(2 if forced else 1):
        pos = rng.randrange(0, 2) if (forced and j == 0) else rng.randrange(0, len(steps) + 1)
        steps[pos:pos] = boot_triple(rng)
    return dict(h=h, cfg=cfg, steps=steps)


# forced histories (numbered from BOOT_H0): the generic GAM(distribution=..., link=...) models whose scale is estimated —
# the classes for which `distribution` (an object that carries the scale) is a user-facing parameter of the estimator
BOOT_H0 = 1000
BOOT_LABELS = ['GAM/normal/identity', 'GAM/gamma/inverse', 'GAM/normal/log', 'GAM/inv_gauss/log']


def boot_triple(rng):
    """[sample(y, seed s), sample(any quantity, n_bootstraps in {2, 3}), sample(y, seed s) again]: the bootstrap call refits
    copies of the model (grid search over lam on simulated responses, then a fit on the data); whatever those copies do,
    the model itself is still the fitted model it was — the third call must return what the first returned"""
    buf = rng.choice(['X', 'A', 'A', 'B'])
    probe = dict(op='sample', quantity='y', buf=buf, mut=rng.choice(MUTATIONS), col=rng.choice([0, 1, 2, 3]), lvl=rng.randrange(16),
                 n_draws=rng.choice([2, 3, 5]), seed=rng.randrange(2 ** 31), tag='probe')
    boot = dict(op='sample-boot', quantity=rng.choice(['coef', 'mu', 'y']), buf=rng.choice(['X', 'A', 'B']), n_draws=rng.choice([2, 4, 7]),
                n_bootstraps=rng.choice([2, 2, 2, 2, 3]), seed=rng.randrange(2 ** 31))
    return [probe, boot, dict(probe, mut='keep', tag='echo')]


def mutate(buf, step, src, rs):
    """returns the array object to use for this step (the same object, modified in place, or a new one)"""
    mut = step['mut']
    if mut == 'keep':
        return buf
    if mut == 'inplace-col':
        c = step['col']
        lv = COL_LEVELS[c]
        buf[:, c] = lv[step['lvl'] % len(lv)]
        return buf
    if mut == 'inplace-rows':
        buf[:] = src[rs.randint(0, len(src), len(buf))]
        return buf
    if mut == 'rebind-equal':
        return np.array(buf, copy=True)
    return src[rs.randint(0, len(src), len(buf))].copy()


def run_history(P, hc):
    """execute one history on a freshly fitted model; returns a list of per-step records (no verdicts here)"""
    import copy
    cfg = hc['cfg']
    try:
        gam, X, y, Xq = quiet(fit_any, P, cfg)
        info = fit_info(gam, cfg)
        twin = copy.deepcopy(gam)
    except Exception as e:                    # noqa: BLE001
        return dict(error=type(e).__name__, records=[])
    epoch = 0             # number of (re)fits so far
    asked = {}            # (quantity, buffer, n_draws, seed) -> the last single-bootstrap request with these arguments
    between = []          # what was called since (for the report)
    rs = np.random.RandomState(common.random.Random('C17-hist-%d-%d' % (cfg['seed'], hc['h'])).randrange(2 ** 31))
    fitX, fity = X, y
    curX = np.array(X, copy=True)      # the data of the latest fit (what the bootstrap refits of sample() are given)
    bufs = dict(X=np.array(X, copy=True), A=np.array(Xq, copy=True), B=np.array(Xq[::-1], copy=True))
    ycur = np.array(y, copy=True)
    records = []
    sampled = {}          # buffer name -> id of the object at its last use by sample()
    for k, stp in enumerate(hc['steps']):
        if not (np.isfinite(info['coef']).all() and np.isfinite(info['cov']).all() and math.isfinite(info['scale'])):
            break
        if stp['op'] == 'predict':
            try:
                gam.predict(bufs[stp['buf']])
            except Exception:                 # noqa: BLE001
                pass
            between.append('k=%d predict' % k)
            continue
        if stp['op'] == 'refit':
            Xn, yn = np.array(fitX, copy=True), np.array(fity, copy=True)
            if stp['kind'] == 'rescale0':
                Xn[:, 0] = 0.5 * Xn[:, 0] + 0.25
            elif stp['kind'] == 'new-y':
                yn = yn[rs.permutation(len(yn))] if cfg['label'] != 'LogisticGAM' else 1.0 - yn
            try:
                if stp['kind'] == 'gridsearch':
                    # the fit is replaced by the winner of a grid search over lam (keep_best): candidates are warm-started
                    # copies whose state is copied back into the model
                    quiet(gam.gridsearch, Xn, yn, lam=np.array([0.05, 7.0, 400.0]), progress=False)
                else:
                    quiet(gam.fit, Xn, yn)
                info = fit_info(gam, cfg)
                twin = copy.deepcopy(gam)
                ycur = np.array(yn, copy=True)
                curX = np.array(Xn, copy=True)
                epoch += 1
            except Exception as e:            # noqa: BLE001
                records.append(dict(k=k, step=stp, skipped='refit raised ' + type(e).__name__))
                break
            continue
        if stp['op'] == 'sample-boot':
            # an ordinary call with several bootstraps, real generators, seeded; buffers untouched.  (X, y) are the data of
            # the latest fit here — the bootstrap refits are fits to them — and never the (overwritten) buffer `X`
            at = None if stp['buf'] == 'X' else bufs[stp['buf']]
            rows = len(curX) if at is None else len(at)
            want_shape = [stp['n_draws'], info['m'] if stp['quantity'] == 'coef' else rows]
            np.random.seed(stp['seed'] % (2 ** 32))
            try:
                out = to_arr(quiet(gam.sample, np.array(curX, copy=True), ycur, quantity=stp['quantity'], n_draws=stp['n_draws'],
                                   n_bootstraps=stp['n_bootstraps'], sample_at_X=at))
                status = 'ok'
            except Exception as e:            # noqa: BLE001
                out, status = None, type(e).__name__
            problems = []
            if status == 'ok' and shape_of(out) != want_shape:
                problems.append('n_bootstraps=%d: shape %s, expected %s' % (stp['n_bootstraps'], shape_of(out), want_shape))
            records.append(dict(k=k, step=stp, boot=True, status=status, problems=problems, notes=[], out=out, want=None))
            between.append('k=%d sample(%s, n_bootstraps=%d) -> %s' % (k, stp['quantity'], stp['n_bootstraps'], status))
            continue
        name = stp['buf']
        old = bufs[name]
        new = mutate(old, stp, fitX, rs)
        pattern = ('first-use' if name not in sampled else
                   'same-object-' + ('same-contents' if stp['mut'] == 'keep' else 'changed-contents') if new is old and sampled[name] == id(old)
                   else 'new-object-' + ('equal-contents' if stp['mut'] == 'rebind-equal' else 'new-contents'))
        bufs[name] = new
        sampled[name] = id(new)
        at = None if name == 'X' else new
        # the scale of the response oracle is the one the model reports at the time of the call
        notes0 = []
        try:
            now = float(gam.statistics_['scale'])
        except Exception:                     # noqa: BLE001
            now = info['scale']
        if now != info['scale']:
            notes0.append("statistics_['scale'] is %r, after the fit it was %r" % (now, info['scale']))
            info = dict(info, scale=now)
        r = step_problems(info, twin, gam, stp['seed'], bufs['X'], ycur, stp['quantity'], stp['n_draws'], at)
        r['notes'] = notes0 + r['notes']
        # the same request as an earlier one, on the same fit and the same contents: the same generator results must give
        # the same draws, whatever was called in between (exact: patched generators; real generators for the framed requests)
        key = (stp['quantity'], name, stp['n_draws'], stp['seed'])
        state = (epoch, np.array(bufs['X'], dtype=float).tobytes(), None if at is None else np.array(at, dtype=float).tobytes(), ycur.tobytes())
        realy = real_call(gam, stp['seed'], bufs['X'], ycur, stp['quantity'], stp['n_draws'], at) if stp.get('tag') else None
        prev = asked.get(key)
        if prev is not None and prev['state'] == state and r['res'][0] == 'ok' and prev['out'] is not None and r['res'][1] is not None:
            out_ = r['res'][1]
            tol_ = 10 * np.asarray(r['tol']) if r['tol'] is not None and np.shape(r['tol']) in ((), np.shape(out_)) else 1e-12 * np.abs(out_)
            calls = '; '.join(between[prev['pos']:]) or 'nothing'
            if not close_arr(prev['out'], out_, tol_):
                with np.errstate(all='ignore'):
                    dmax = float(np.nanmax(np.abs(prev['out'] - out_))) if np.shape(prev['out']) == np.shape(out_) else float('nan')
                r['problems'].append('the same request (quantity, contents, n_draws, seed) on the same fit returned other draws at step %d '
                                     '(max abs difference %.3g); calls in between: %s' % (prev['k'], dmax, calls))
            elif realy is not None and prev['real'] is not None and realy[0] == 'ok' and prev['real'][0] == 'ok' and \
                    not close_arr(prev['real'][1], realy[1], 1e-9 * np.abs(realy[1])):
                r['problems'].append('real generators, same seed: the same request on the same fit returned other draws at step %d; '
                                     'calls in between: %s' % (prev['k'], calls))
        asked[key] = dict(state=state, out=r['res'][1] if r['res'][0] == 'ok' else None, real=realy, k=k, pos=len(between))
        between.append('k=%d sample(%s)' % (k, stp['quantity']))
        line = None
        rec = r['rec']
        if r['res'][0] == 'ok' and r['M'] is not None and len(rec.mvn_calls) == 1 and rec.mvn_calls[0]['u'].shape == (stp['n_draws'], info['m']):
            try:
                MX = base.dense_rows(twin, np.array(bufs['X'], copy=True))
                line = sample_line(info, stp['quantity'], True, 1, stp['n_draws'], True, MX, None if at is None else r['M'],
                                   [0] * stp['n_draws'], [], rec)
            except Exception:                 # noqa: BLE001
                line = None
        records.append(dict(k=k, step=stp, pattern=pattern, problems=r['problems'], notes=r['notes'], out=r['res'][1], status=r['res'][0],
                            want=r['want'], tol=r['tol'], line=line, m=info['m'], captured=len(rec.mvn_calls)))
    return dict(error=None, records=records, gam=gam, info=info, X=bufs['X'], y=ycur, Xq=bufs['A'], cfg=cfg)


def check_history(ctx, P, only=None):
    st_ = 'sample.history'
    ctx.stream(st_, 'histories of sample() calls on one model (same array object with contents changed in place, new objects with equal / '
                    'new contents, X itself as the query, quantities coef / mu / y alternating, interleaved with predict and refits): every '
                    'call returns the pipeline applied to the CURRENT contents and the CURRENT fit — NumPy oracle on the draws of a same-seed '
                    'twin, and the per-call Lean model `sample` fed the record of the latest fit and the rows at the current contents; '
                    'calls with 2-3 bootstraps are steps too (every history; forced histories on the generic GAM models with estimated '
                    'scale): the response sampler of later calls gets the scale the model reports, and a repeated request (same seed, '
                    'contents, fit) returns the same draws')
    nh = 8 if ctx.tier == 'quick' else 120
    nb_ = len(BOOT_LABELS) * (1 if ctx.tier == 'quick' else 6)
    specs = [gen_history(ctx, h) for h in list(range(nh)) + list(range(BOOT_H0, BOOT_H0 + nb_))] if only is None else [only]
    runs = [(hc, run_history(P, hc)) for hc in specs]
    lines, where = [], []
    for hc, run_ in runs:
        for r in run_['records']:
            if r.get('line'):
                lines.append(r['line'])
                where.append(r)
    outs = ctx.driver.run(lines) if lines else []
    for r, out in zip(where, outs):
        r['model'] = parse_sample(out, r['m'])
    nfail = 0
    for hc, run_ in runs:
        cfg = hc['cfg']
        if run_['error']:
            ctx.count('history-skipped', '%s: %s' % (cfg['label'], run_['error']))
            continue
        confirmed = None
        for r in run_['records']:
            if 'skipped' in r:
                ctx.count('history-skipped', r['skipped'])
                continue
            stp = r['step']
            if r.get('boot'):
                sig = dict(label=cfg['label'], mix=cfg['mix'], h=hc['h'], k=r['k'], quantity=stp['quantity'], buf=stp['buf'],
                           n_bootstraps=stp['n_bootstraps'], n_draws=stp['n_draws'])
                ctx.case(st_, sig, nontrivial=True)
                ctx.count('history-bootstraps', '%s: %s' % (cfg['label'], r['status']))
                if r['problems']:
                    if confirmed is None:
                        again = run_history(P, hc)
                        confirmed = {q['k'] for q in again['records'] if q.get('problems')}
                    if r['k'] in confirmed and nfail < MAX_FAILS:
                        nfail += 1
                        ctx.fail(st_, sig, dict(history=hc, step=r['k']), observed=dict(problems=r['problems']),
                                 expected=dict(shape='(n_draws, number of coefficients | query rows)'),
                                 oracle='outputs have shape (n_draws, number of coefficients) or (n_draws, number of query rows), '
                                        'whatever the number of bootstraps')
                continue
            sig = dict(label=cfg['label'], mix=cfg['mix'], h=hc['h'], k=r['k'], quantity=stp['quantity'], buf=stp['buf'], mut=stp['mut'],
                       pattern=r['pattern'], n_draws=stp['n_draws'])
            if stp.get('tag'):
                ctx.count('history-framed-request', '%s: %s' % (cfg['label'], stp['tag']))
            ctx.case(st_, sig, nontrivial=r['pattern'] != 'first-use', sample=dict(sig=sig) if r['k'] < 2 else None)
            ctx.count('history-pattern', r['pattern'])
            ctx.count('history-quantity', stp['quantity'] + ('@' + stp['buf']))
            case = dict(history=hc, step=r['k'])
            for note in r['notes']:
                ctx.disagree(st_, case, note, 'sample() does not depend on earlier calls', 'history dependence')
            if r['problems']:
                if confirmed is None:
                    # re-execute the whole history on a freshly fitted model
                    again = run_history(P, hc)
                    confirmed = {q['k'] for q in again['records'] if q.get('problems')}
                if r['k'] in confirmed and nfail < MAX_FAILS:
                    nfail += 1
                    ctx.fail(st_, sig, case, observed=dict(problems=r['problems'], out=head(r['out'])), expected=dict(out=head(r['want'])),
                             oracle='every sample() call returns g^-1(B(current contents of the requested X) draws^T)^T (resp. the family '
                                    'sampler at those means, resp. the draws) for the current fit, whatever calls came before')
                continue
            mo = r.get('model')
            if mo is not None and (mo['err'] or not close_arr(r['out'], mo['out'], np.asarray(r['tol']) if r['tol'] is not None else 0.0)):
                ctx.disagree(st_, case, head(r['out']), mo['err'] or head(mo['out']), 'returned draws vs the per-call model at the current state')
            elif mo is None:
                ctx.count('history-model', 'not-fed (generator protocol not captured)')
        # the distribution of the coefficient draws at the end of the history (stale state in the coefficient stage)
        if True:
            p = dict(info=run_['info'], gam=run_['gam'], X=run_['X'], y=run_['y'], Xq=run_['Xq'])
            if np.isfinite(p['info']['coef']).all() and np.isfinite(p['info']['cov']).all() and p['info']['m'] <= 60:
                seed = common.random.Random('C17-hist-mom-%d-%d' % (cfg['seed'], hc['h'])).randrange(2 ** 31)
                sig = dict(label=cfg['label'], mix=cfg['mix'], h=hc['h'], k='end', what='moments')
                ctx.case(st_, sig, nontrivial=True)
                problems, stats = moments_once(p, 2000, seed)
                if problems:
                    again, _ = moments_once(p, 2000, seed + 7919)
                    if again and nfail < MAX_FAILS:
                        nfail += 1
                        ctx.fail(st_, sig, dict(history=hc, step='end', seed=seed), observed=dict(first_seed=problems[:6], second_seed=again[:6]),
                                 expected='after any history the coefficient draws are N(coef_, cov + sqrt(eps) diag(cov)) of the latest fit',
                                 oracle='seeded concentration bounds on 2000 real draws after the history (confirmed under a second seed)')


# ------------------------------------------------------------------------------------------------
# large requests: sizes at which an implementation might switch to block-wise evaluation
# ------------------------------------------------------------------------------------------------
LARGE_FIXED = [(2000, 1000), (3000, 700), (1500, 699)]
LARGE_DRAWS = [1000, 699, 1237]               # not multiples of any natural block size
LARGE_MAX = {'quick': 2 ** 22, 'thorough': 2 ** 23 + 2 ** 21}


def _const_int(node):
    """value of an integer constant expression (2**20, 8 * 1024, 1 << 20, ...) or None"""
    import ast
    if isinstance(node, ast.Constant):
        return node.value if isinstance(node.value, int) and not isinstance(node.value, bool) else None
    if isinstance(node, ast.BinOp):
        a, b = _const_int(node.left), _const_int(node.right)
        if a is None or b is None:
            return None
        try:
            if isinstance(node.op, ast.Pow) and 0 <= b <= 64 and abs(a) <= 1024:
                return a ** b
            if isinstance(node.op, ast.Mult):
                return a * b
            if isinstance(node.op, ast.LShift) and 0 <= b <= 64:
                return a << b
            if isinstance(node.op, ast.Add):
                return a + b
            if isinstance(node.op, ast.Sub):
                return a - b
            if isinstance(node.op, ast.FloorDiv) and b:
                return a // b
        except Exception:                     # noqa: BLE001
            return None
    return None


def harvest_sizes(P):
    """integer literals and constant-folded integer expressions >= 1024 in the source of the sampling functions
    (pygam.py: sample, _sample_coef, _bootstrap_samples_of_smoothing, _simulate_coef_from_bootstraps and whatever private
    helper of GAM has 'sample' / 'simulate' / 'draw' in its name; distributions.py: *.sample): candidate element counts at
    which the code switches strategy"""
    import ast
    import inspect
    import textwrap
    funcs = []
    for name, f in vars(P.GAM).items():
        if callable(f) and any(k in name for k in ('sample', 'simulate', 'draw', 'bootstrap', 'cov_factor')):
            funcs.append(f)
    import pygam.distributions as Dm
    for name, cls in vars(Dm).items():
        if inspect.isclass(cls) and hasattr(cls, 'sample'):
            funcs.append(cls.sample)
    out = set()
    for f in funcs:
        try:
            tree = ast.parse(textwrap.dedent(inspect.getsource(f)))
        except Exception:                     # noqa: BLE001
            continue
        for node in ast.walk(tree):
            v = _const_int(node)
            if v is not None and 1024 <= v <= 2 ** 40:
                out.add(int(v))
    return sorted(out)


def large_requests(ctx, thresholds):
    """(n_rows, n_draws, origin): the fixed large sizes, and for every harvested threshold T two requests whose element count
    n_rows * n_draws is just above T — n_draws prime-ish, once about one block (T // n_rows a little below n_draws) and once
    about two and a half blocks"""
    rng = ctx.subrng('large')
    cap = LARGE_MAX[ctx.tier]
    reqs = [(r, d, 'fixed') for (r, d) in (LARGE_FIXED if ctx.tier != 'quick' else LARGE_FIXED[:2] + [LARGE_FIXED[2]])]
    for T in thresholds:
        for shape in ('one-block', 'blocks'):
            nd = rng.choice(LARGE_DRAWS)
            if shape == 'one-block':
                nr = T // nd + rng.choice([1, 2, 3, 7, 13])
            else:
                nr = (5 * T) // (2 * nd) + rng.choice([1, 3, 7])
            while nr < 8:                     # small thresholds: keep a few rows, more draws
                nd, nr = max(nd // 2, 3) | 1, nr * 2 + 1
            if nr * nd <= T or nr * nd > cap:
                ctx.count('large-threshold-skipped', '%d (%d x %d)' % (T, nr, nd))
                continue
            reqs.append((nr, nd, 'literal %d' % T))
    return reqs


def large_query(cfg, n_rows, seed):
    rs = np.random.RandomState(seed)
    Xq = np.c_[rs.randint(-26, 283, n_rows) / 256.0, -2.5 + 5 * rs.randint(0, 257, n_rows) / 256.0,
               rs.randint(0, 4, n_rows).astype(float), rs.choice([-1.0, 0.5, 1.0, 2.0, 0.0], n_rows)]
    return Xq


def check_large(ctx, P, only=None):
    st_ = 'oracle.large-requests'
    ctx.stream(st_, 'requests with n_rows x n_draws of 1e6 … 4e6 elements (2000 x 1000, 3000 x 700, 1500 x 699 and sizes just above every '
                    'integer literal / constant power >= 1024 in the source of the sampling functions, n_draws prime-ish): every entry of '
                    'sample(mu | y) = pipeline applied to the same-seed coefficient draws of a copy of the model (exact; NumPy oracle only, '
                    'the rows are too many to send to the Lean driver)')
    import copy
    thresholds = harvest_sizes(P)
    for T in thresholds:
        ctx.count('large-literal', T)
    if only is not None:
        jobs = [only]
    else:
        jobs = []
        reqs = large_requests(ctx, thresholds)
        rng = ctx.subrng('large-jobs')
        for li, label in enumerate(['LinearGAM', 'PoissonGAM'] if ctx.tier == 'quick' else ['LinearGAM', 'PoissonGAM', 'LogisticGAM', 'GammaGAM']):
            cfg = base.make_cfg(ctx.seed, 300000 + li, label, rng.choice(['s0+l1', 's0', 'l0+l1']), ctx.tier)
            cfg['ns'], cfg['n'] = 5, 45
            for ri, (nr, nd, origin) in enumerate(reqs):
                if ctx.tier == 'quick' and origin == 'fixed' and (ri + li) % 2 == 1 and len(reqs) > 3:
                    continue
                jobs.append(dict(cfg=cfg, n_rows=nr, n_draws=nd, origin=origin, quantity=['mu', 'y'][(ri + li) % 2],
                                 at=(ri + 2 * li) % 3 != 0, seed=rng.randrange(2 ** 31)))
    fitted = {}
    nfail = 0
    for job in jobs:
        cfg = job['cfg']
        key = json_key(cfg)
        if key not in fitted:
            try:
                gam, X, y, Xq = quiet(base.fit_model, P, cfg)
                fitted[key] = (gam, copy.deepcopy(gam), fit_info(gam, cfg), X, y)
            except Exception as e:            # noqa: BLE001
                fitted[key] = None
                ctx.count('large-fit-skipped', type(e).__name__)
        if fitted[key] is None:
            continue
        gam, twin, info, X, y = fitted[key]
        if not (np.isfinite(info['coef']).all() and np.isfinite(info['cov']).all()):
            continue
        nr, nd = job['n_rows'], job['n_draws']
        Xbig = large_query(cfg, nr, job['seed'])
        sig = dict(label=cfg['label'], mix=cfg['mix'], n_rows=nr, n_draws=nd, origin=job['origin'], quantity=job['quantity'], at=job['at'])
        ctx.case(st_, sig, nontrivial=True, sample=dict(sig=sig))
        ctx.count('large-elements', '2^%d' % int(math.log2(nr * nd)))
        if job['at']:
            args = (X, y, job['quantity'], nd, Xbig)
        else:
            # X itself is the large array (sample_at_X=None); y only has to be a valid response of the same length
            args = (Xbig, np.resize(y, nr), job['quantity'], nd, None)
        r = step_problems(info, twin, gam, job['seed'], *args)
        for note in r['notes']:
            ctx.disagree(st_, dict(large=job), note, 'stateless sample()', 'history dependence')
        if r['problems']:
            r2 = step_problems(info, twin, gam, job['seed'], *args)
            if r2['problems'] and nfail < MAX_FAILS:
                nfail += 1
                detail = {}
                out, want = r['res'][1], r['want']
                if out is not None and want is not None and np.shape(out) == np.shape(want):
                    with np.errstate(all='ignore'):
                        bad = ~((out == want) | (np.abs(out - want) <= 10 * np.broadcast_to(np.asarray(r['tol'], dtype=float), out.shape)))
                    rows_bad = np.where(bad.any(axis=1))[0]
                    detail = dict(wrong_entries=int(bad.sum()), wrong_draws=int(len(rows_bad)),
                                  first_wrong_draw=int(rows_bad[0]) if len(rows_bad) else None,
                                  last_wrong_draw=int(rows_bad[-1]) if len(rows_bad) else None,
                                  got=head(out[rows_bad[0]][:4]) if len(rows_bad) else None,
                                  expected=head(np.asarray(want)[rows_bad[0]][:4]) if len(rows_bad) else None)
                ctx.fail(st_, sig, dict(large=job), observed=dict(problems=r['problems'], **detail), expected='every entry (draw d, row i) = '
                         'g^-1(B(X)_i . draw_d) resp. the family sampler at that mean',
                         oracle='mu = g^-1(B(requested X) draws^T)^T for the coefficient draws of the same seed, every draw and every row; '
                                'y = family sampler at the documented parameters')


def json_key(d):
    import json
    return json.dumps(d, sort_keys=True, default=str)


# ------------------------------------------------------------------------------------------------
def make_cfgs(ctx):
    cfgs, idx = [], 0
    rng = ctx.subrng('cfgs')
    reps = 1 if ctx.tier == 'quick' else 10
    for rep in range(reps):
        for lab in LABELS:
            for mix in MIXES:
                cfg = base.make_cfg(ctx.seed, 100000 + idx, lab, mix, ctx.tier)
                cfg['nq'] = rng.choice([3, 5, 7])
                cfgs.append(cfg)
                idx += 1
    return cfgs


def run(ctx, cfgs=None, force=(), stress=None, history=None, large=None):
    P = common.import_pygam()
    ctx.extra['rule'] = ('one case = (model class, term mix, intercept, lam, n, n_splines, quantity, sample_at_X given?, n_draws); '
                         'generators are replaced by recorded closed-form draws, so every case is an exact comparison of the whole pipeline; '
                         'sample.moments: one case = one (family, unit, design, lam, n_splines) model, 4000 real draws; '
                         'sample.history: one case = one sample() step of a generated history (first uses of a buffer are trivial)')
    ctx.assumptions.append('numpy.random.multivariate_normal(mean, cov, size) returns draws from N(mean, cov); numpy.random.{normal, '
                           'binomial, poisson, gamma, wald} have the documented laws (first two moments tabulated in Model/Dists.lean: moments); '
                           'numpy.random.choice(arange(k), size=n) returns n values < k — trusted library contracts; the distributional '
                           'claim of C17 rests on them (sample.moments adds seeded concentration checks on the real draws in both tiers)')
    ctx.partial.append('distributional statement: proved for the pipeline around the generators (arguments handed over, placement of the '
                       'results); the law of the NumPy generators themselves is assumed.  When the library reaches its generator through '
                       'another entry point than numpy.random.multivariate_normal the capture streams report the broken correspondence '
                       '(no failing input) and only the generator-agnostic oracles (oracle.seeded-pipeline: exact, sample.moments: '
                       'statistical) speak about the draws')
    ctx.partial.append('call histories: Model/Sampling.lean is a per-call model — `sample` is a function of the fitted record, the model-matrix '
                       'rows at the contents of X / sample_at_X and the generator results, with no state carried from one call to the next '
                       '(Props/C17.lean: sample_stateless); sample.history drives it at every step with the record of the latest fit and the '
                       'rows at the current contents of the array objects.  Not modelled: the refit itself (C01), predict (only interleaved), '
                       'object identity of the arrays (the model has no notion of it: any dependence on it is a disagreement)')
    full = cfgs is None and stress is None and history is None and large is None
    if large is not None:
        check_large(ctx, P, only=large)
        return
    if stress is not None:
        sp = [prepare_stress(P, sc) for sc in stress]
        check_moments(ctx, P, sp, [])
        check_seeded_pipeline(ctx, sp)
        return
    if history is not None:
        check_history(ctx, P, only=history)
        return
    if cfgs is None:
        cfgs = make_cfgs(ctx)
    prepared = [prepare(P, cfg, ctx.tier) for cfg in cfgs]
    check_values(ctx, prepared)
    check_load(ctx, prepared)
    check_reject(ctx, P, prepared)
    if full or 'oracle.seeded-pipeline' in force or 'sample.moments' in force:
        sp = [prepare_stress(P, sc) for sc in stress_cfgs(ctx)] if full else []
        check_seeded_pipeline(ctx, prepared + sp)
        check_moments(ctx, P, sp, prepared)
    if full:
        check_history(ctx, P)
        check_large(ctx, P)
    if (ctx.tier == 'thorough' and full) or 'sample.bootstraps' in force:
        check_bootstraps(ctx, P, prepared)
    if (ctx.tier == 'thorough' and full) or 'sample.statistics' in force:
        check_statistics(ctx, P, prepared)


def replay(ctx, rp):
    case = rp.get('case') or {}
    if case.get('stress'):
        return run(ctx, stress=[case['stress']])
    if case.get('history'):
        return run(ctx, history=case['history'])
    if case.get('large'):
        return run(ctx, large=case['large'])
    cfg = case.get('cfg')
    if not cfg:
        return run(ctx)
    return run(ctx, cfgs=[cfg], force=(rp.get('stream'),))
