"""
C02 — predictions decompose additively into intercept plus per-term partial effects.

Theorems: lean/PyGam/Props/C02.lean (linear predictor = sum over all terms of the term's partial dependence, the
intercept's being its coefficient; partial dependence depends only on the term's own feature(s) and by-variable;
default grids: n (n^k) rows, feature on the uniform grid between the edge knots, by-variable one, others zero).
Correspondence: exact rational `linPred` / `partialDep` / `gridRow` of the model, evaluated on the fitted model's
exported coef_ and compiled terms, vs link(predict_mu(X)), partial_dependence(i, X), generate_X_grid(i, n, meshgrid).
Oracle (real code): link(predict_mu(X)) - sum_i partial_dependence(i, X) - intercept = 0; predicted mean = inverse link
of that sum; locality of partial dependence; default-grid partial dependence = partial dependence on the documented grid.
"""
import io
import contextlib

import numpy as np

from harness import common
from harness.gen import termgen

# named classes, and the generic GAM with explicit distribution / link (binomial with several trials per row,
# non-canonical and power links): the decomposition is stated for every model class and link
CLASSES = ['LinearGAM', 'LogisticGAM', 'PoissonGAM', 'GammaGAM', 'InvGaussGAM', 'ExpectileGAM', 'GAM',
           'GAM/binomial/logit/3', 'GAM/gamma/inverse', 'GAM/normal/log', 'GAM/inv_gauss/inv_squared', 'GAM/binomial/logit/6']


def make_response(rng, cls_name, X):
    n = X.shape[0]
    z = np.array([rng.gauss(0, 1) for _ in range(n)])
    sig = np.tanh(X[:, 0] / (1 + np.abs(X[:, 0]).max()))
    if cls_name in ('LinearGAM', 'ExpectileGAM', 'GAM'):
        return sig * 2 + 0.3 * z
    if cls_name.startswith('GAM/binomial'):
        L = int(cls_name.split('/')[-1])
        y = np.array([float(sum(rng.random() < 1 / (1 + np.exp(-(1.5 * s_ + 0.3 * zz))) for _ in range(L))) for s_, zz in zip(sig, z)])
        y[0], y[1] = 0.0, float(L)
        return y
    if cls_name == 'GAM/gamma/inverse':
        return (1.0 / (1.5 + 0.5 * sig)) * np.exp(0.1 * z) + 0.05
    if cls_name == 'GAM/inv_gauss/inv_squared':
        return (1.0 / np.sqrt(1.5 + 0.5 * sig)) * np.exp(0.1 * z) + 0.05
    if cls_name == 'LogisticGAM':
        y = (z + sig > 0).astype(float)
        y[0], y[1] = 0.0, 1.0
        return y
    if cls_name == 'PoissonGAM':
        return np.array([float(rng.randint(0, 6)) for _ in range(n)])
    return np.exp(0.3 * z + 0.5 * sig) + 0.1


def fit_model(rng, pygam, cls_name, pr):
    cls = getattr(pygam, cls_name.split('/')[0])
    kw = {}
    if '/' in cls_name:
        parts = cls_name.split('/')
        if parts[1] == 'binomial':
            from pygam.distributions import BinomialDist
            kw.update(distribution=BinomialDist(levels=int(parts[3])), link=parts[2])
        else:
            kw.update(distribution=parts[1], link=parts[2])
    if cls_name == 'ExpectileGAM':
        kw['expectile'] = rng.choice([0.2, 0.5, 0.9])
    if cls_name == 'GAM':
        kw.update(distribution='normal', link='identity')
    fit_intercept = any(t.isintercept for t in pr.terms)
    # the model gets terms that have never seen data (the generator compiled pr.terms on pr.X to place query points):
    # whatever a term knows about the data must come from the fits below
    from pygam.terms import TermList
    fresh_terms = TermList.build_from_info(pr.terms.info)
    gam = cls(fresh_terms, max_iter=25, fit_intercept=fit_intercept, **kw)
    y = make_response(rng, cls_name, pr.X)
    buf = io.StringIO()
    gam._c02_history = 'fresh'
    if rng.random() < 0.35:
        # history: the same object was fitted before on data with other ranges (every column that is not a factor
        # feature mapped x -> 2.5 x + 3); the fitted domain of every term is that of the LAST fit
        fac = set()
        for t in pr.terms:
            for s_ in (t._terms if t.istensor else [t]):
                if getattr(s_, '_name', '') == 'factor_term':
                    fac.add(int(s_.feature))
        X0 = pr.X.copy()
        for j in range(X0.shape[1]):
            if j not in fac:
                X0[:, j] = 2.5 * X0[:, j] + 3.0
        try:
            with contextlib.redirect_stdout(buf):
                gam.fit(X0, make_response(rng, cls_name, X0))
            gam._c02_history = 'refit after a fit on other ranges'
        except Exception:  # noqa  (a failed earlier fit is part of the history too)
            gam._c02_history = 'refit after a failed fit on other ranges'
    with contextlib.redirect_stdout(buf):
        gam.fit(pr.X, y)
    return gam


def fitted_domain(s_, X):
    """the documented domain of a (marginal) term fitted on X: user edge knots if given, else the range of its feature
    (widened by half a category for a factor term) — recomputed from the data, not read from the compiled term"""
    if getattr(s_, 'edge_knots', None) is not None and s_._name == 'spline_term':
        return [float(v) for v in s_.edge_knots_]
    col = X[:, int(s_.feature)]
    if s_._name == 'factor_term' or (s_._name == 'spline_term' and getattr(s_, 'dtype', 'numerical') == 'categorical'):
        # categorical features (factor terms; spline terms declared dtype='categorical'): half a category either side
        return [float(col.min()) - 0.5, float(col.max()) + 0.5]
    return [float(col.min()), float(col.max())]


def run(ctx):
    pygam = common.import_pygam()
    st = 'decomp.model'
    st_or = 'decomp.oracle'
    st_g = 'grid.model'
    st_go = 'grid.oracle'
    ctx.stream(st, 'link(predict_mu(X)) and partial_dependence(i, X) vs exact model linPred / partialDep on exported coef_ and compiled terms')
    ctx.stream(st_or, 'link(predict_mu) = sum_i partial_dependence(i) (intercept = its coefficient); mean = inverse link; locality (real code)')
    ctx.stream(st_g, 'generate_X_grid(i, n, meshgrid in {F,T}) vs model gridRow')
    ctx.stream(st_go, 'partial_dependence(i) on the default grid = partial_dependence(i, documented grid) (by-variable one, n^k mesh) (real code)')
    ctx.extra['rule'] = ('random term programs (every term kind, tensor 2..4, by, custom knots, intercept on/off) x 7 model classes, fitted on random data; '
                         'query matrices incl. extrapolation; distinct = (class, term tokens); non-trivial = more than one non-intercept term or a tensor / by term')
    nmod = 28 if ctx.tier == 'quick' else 280
    models = []
    k = 0
    while len(models) < nmod and k < 8 * nmod:
        rng = ctx.subrng('m', k)
        k += 1
        cls_name = CLASSES[k % len(CLASSES)]
        try:
            pr = termgen.gen_program(rng, pygam, n_rows=40, n_query=10, allow_constraints=(k % 3 == 0), max_terms=3)
        except ValueError as e:
            ctx.count('generator-rejected', str(e)[:40])
            continue
        if not termgen.knot_safe(pr) or int(pr.terms.n_coefs) > 150:
            ctx.count('skipped', 'unsafe-or-large')
            continue
        try:
            gam = fit_model(rng, pygam, cls_name, pr)
        except ValueError as e:
            ctx.count('fit ValueError', str(e)[:40])
            continue
        except Exception as e:  # noqa
            ctx.count('fit other exception', type(e).__name__)
            continue
        if not np.isfinite(gam.coef_).all():
            continue
        models.append((cls_name, pr, gam, rng))

    ops, meta = [], []
    for (cls_name, pr, gam, rng) in models:
        toks = ' '.join(termgen.encode_terms(gam.terms))
        coef = ' '.join(termgen.q(v) for v in gam.coef_)
        for r in range(pr.Xq.shape[0]):
            ops.append('C02 lp %s | %s | %s' % (toks, coef, ' '.join(termgen.q(v) for v in pr.Xq[r])))
        grids = []
        for ti, t in enumerate(gam.terms):
            if t.isintercept:
                continue
            n = rng.choice([2, 3, 5, 7]) if t.istensor else rng.choice([1, 2, 5, 17, 100])
            if t.istensor and n ** len(t._terms) > 700:
                n = 2
            grids.append((ti, n))
            ops.append('C02 grid %d %d %d %s' % (ti, n, pr.X.shape[1], toks))
        meta.append((cls_name, pr, gam, toks, grids))
    outs = ctx.driver.run(ops)
    pos = 0
    for (cls_name, pr, gam, toks, grids) in meta:
        nops = pr.Xq.shape[0] + len(grids)
        try:
            _check_model(ctx, cls_name, pr, gam, toks, grids, outs[pos:pos + nops], st, st_or, st_g, st_go)
        except Exception as e:  # noqa  -- an exception of the implementation on valid input is a finding, not an infrastructure error
            import traceback
            tb = traceback.format_exc()
            if '/repo/' in tb.replace(common.REPO, '/repo') or common.REPO in tb:
                ctx.case(st_or, dict(cls=cls_name, tokens=toks, exc=type(e).__name__), nontrivial=True)
                ctx.fail(st_or, dict(kind='exception', exc=type(e).__name__), dict(cls=cls_name, tokens=toks, Xq=pr.Xq.tolist()),
                         observed='%s: %s' % (type(e).__name__, str(e)[:300]), expected='predictions / partial dependence / grids on valid input',
                         oracle='public API must not raise on valid input', detail=tb[-1500:])
            else:
                raise
        pos += nops
    _default_grid_cases(ctx, meta, st_go)
    run_large(ctx, meta)
    run_after_search(ctx, pygam)
    run_forced_grids(ctx, pygam)


def _check_model(ctx, cls_name, pr, gam, toks, grids, outs, st, st_or, st_g, st_go):
    import numpy as np
    pos = 0
    if True:
        Xq = pr.Xq
        tl = gam.terms
        sig = dict(cls=cls_name, tokens=toks)
        ctx.count('model class', cls_name)
        ctx.count('history of the model object', getattr(gam, '_c02_history', 'fresh'))
        nontriv = sum(1 for t in tl if not t.isintercept) > 1 or any(t.istensor or getattr(t, 'by', None) is not None for t in tl if not t.isintercept)
        # ---------------- oracle on the real code
        mu = gam.predict_mu(Xq)
        # the link and its inverse are recomputed with NumPy formulas that do not go through pygam.links
        from harness.gen import fitgen
        lname = gam.link._name
        levels = float(getattr(gam.distribution, 'levels', 1) or 1)
        with np.errstate(all='ignore'):
            lp_impl = np.asarray(fitgen.np_link(lname, levels, np.asarray(mu, dtype=float)), dtype=float)
            lp_own = np.asarray(gam.link.link(mu, gam.distribution), dtype=float)
        pds = []
        icpt = 0.0
        for ti, t in enumerate(tl):
            if t.isintercept:
                icpt += float(gam.coef_[gam.terms.get_coef_indices(ti)][0])
                pds.append(None)
            else:
                pds.append(np.asarray(gam.partial_dependence(ti, X=Xq)))
        total = icpt + sum(p for p in pds if p is not None) if any(p is not None for p in pds) else np.full(len(Xq), icpt)
        total = np.asarray(total, dtype=float) * np.ones(len(Xq))
        scale = 1.0 + np.abs(total) + sum(np.abs(p) for p in pds if p is not None)
        # cancellation inside a term (huge by-variable x raw-feature columns with coefficients of both signs): the
        # rounding error of any evaluation order is eps * sum_j |B_rj| |beta_j|, which enters the tolerance scale
        with np.errstate(all='ignore'):
            colmag = np.asarray(np.abs(np.asarray(gam.terms.build_columns(Xq).todense(), dtype=float)) @ np.abs(np.asarray(gam.coef_, dtype=float))).ravel()
        scale = scale + np.where(np.isfinite(colmag), colmag, 0.0) * 1e-6      # 1e-7 * 1e-6 * colmag ~ 450 eps colmag
        usable = np.isfinite(lp_impl) & (np.abs(total) < 30)      # link(mu(lp)) loses accuracy / saturates for huge |lp|
        ctx.case(st_or, sig, nontrivial=nontriv)
        bad = None
        # link(mu) amplifies the rounding of mu by |g'(mu)| |mu| (logit at lp = 28: eps e^28 ~ 3e-4): part of the tolerance
        with np.errstate(all='ignore'):
            amp = np.abs(np.asarray(fitgen.np_grad(lname, levels, np.asarray(mu, dtype=float)), dtype=float)) * np.abs(mu)
        tol_lp = 1e-7 * scale + 16 * np.finfo(float).eps * np.where(np.isfinite(amp), amp, np.inf)
        if usable.any() and (np.abs(lp_impl - total)[usable] > tol_lp[usable]).any():
            i = int(np.argmax(np.where(usable, np.abs(lp_impl - total) / tol_lp, 0)))
            bad = dict(reason='link(predict_mu) != intercept + sum of partial dependences', row=Xq[i].tolist(), link_mu=float(lp_impl[i]), total=float(total[i]))
        else:
            with np.errstate(all='ignore'):
                mu2 = np.asarray(fitgen.np_mu(lname, levels, total), dtype=float)
            with np.errstate(all='ignore'):
                gp = np.abs(np.asarray(fitgen.np_grad(lname, levels, np.asarray(mu, dtype=float)), dtype=float))
                tol_mu = 1e-9 * (1 + np.abs(mu)) + np.where(np.isfinite(1.0 / gp), 1e-13 * colmag / gp, 0.0)   # rounding of the sum, carried through the inverse link
            if (np.abs(mu2 - mu)[usable] > tol_mu[usable]).any():
                bad = dict(reason='predicted mean != inverse link of the sum')
        if bad is None:
            # locality: change every column that the term does not use
            for ti, t in enumerate(tl):
                if t.isintercept:
                    continue
                used = set(np.atleast_1d(termgen_flatten(t.feature)).tolist())
                if getattr(t, 'by', None) is not None:
                    used.add(int(t.by))
                if t.istensor:
                    for s_ in t._terms:
                        if getattr(s_, 'by', None) is not None:
                            used.add(int(s_.by))
                X2 = Xq.copy()
                for j in range(X2.shape[1]):
                    if j not in used:
                        # stay inside the fitted range of categorical columns: permute existing values
                        X2[:, j] = X2[::-1, j]
                p2 = np.asarray(gam.partial_dependence(ti, X=X2))
                if np.abs(p2 - pds[ti]).max() > 0:
                    bad = dict(reason='partial dependence of term %d changed when unrelated columns changed' % ti)
                    break
        if bad:
            ctx.fail(st_or, dict(kind='decomposition', cls=cls_name, why=bad['reason'].split(' ')[0]), dict(cls=cls_name, tokens=toks, coef=gam.coef_.tolist(), Xq=Xq.tolist()),
                     observed=bad, expected='link(mu) = intercept + sum of per-term partial dependences; each depends only on its own columns', oracle='public API identity')
        # ---------------- model comparison
        ctx.case(st, sig, nontrivial=nontriv, sample=dict(cls=cls_name, tokens=toks[:200]))
        mismatch = None
        for r in range(Xq.shape[0]):
            o = outs[pos]; pos += 1
            if o == 'bad-op':
                mismatch = 'model rejected row %d' % r
                continue
            vals = [float(v) for v in common.parse_vec(o)]
            lp_m, pd_m = vals[0], vals[1:]
            sc = 1.0 + abs(lp_m) + sum(abs(v) for v in pd_m)
            if usable[r] and abs(lp_m - lp_impl[r]) > 1e-7 * sc + 1e-13 * colmag[r] + (tol_lp[r] - 1e-7 * scale[r]):
                mismatch = 'row %d: model lp %.12g vs link(predict_mu) %.12g' % (r, lp_m, lp_impl[r])
            for ti, t in enumerate(tl):
                if pds[ti] is None:
                    continue
                if abs(pd_m[ti] - pds[ti][r]) > 1e-8 * sc + 1e-13 * colmag[r]:
                    mismatch = 'row %d term %d: model pdep %.12g vs %.12g' % (r, ti, pd_m[ti], pds[ti][r])
        if mismatch and not bad:
            ctx.disagree(st, sig, 'see detail', 'see detail', mismatch)
        # ---------------- user-supplied meshes (meshgrid=True), in several memory layouts: the value at mesh position
        # [i, j, ...] must be the term's partial dependence at the point (X0[i, j, ...], X1[i, j, ...], ...)
        for ti, t in enumerate(tl):
            if t.isintercept:
                continue
            subs = list(t._terms) if t.istensor else [t]
            feats = [int(s_.feature) for s_ in subs]
            if len(set(feats)) != len(feats) or any(s_._name == 'factor_term' for s_ in subs) or len(subs) > 3:
                continue
            if any(s_._name == 'spline_term' and (int(s_.spline_order) == 0 or s_.basis == 'cp') for s_ in subs):
                continue
            sizes = [3, 4, 2][:len(subs)]
            axes = [np.linspace(float(min(s_.edge_knots_)) - 0.3 * (k_ == 0 and getattr(s_, 'spline_order', 1) >= 1 and getattr(s_, 'dtype', 'numerical') == 'numerical'), float(max(s_.edge_knots_)), sz)
                    for k_, (s_, sz) in enumerate(zip(subs, sizes))]
            # variants: memory layouts of one float64 mesh, and meshes whose FIRST array has another dtype than the others
            # (an integer-valued axis such as a year next to a continuous one; a float32 axis): values, not dtypes, count
            lo0 = float(np.floor(min(subs[0].edge_knots_)))
            if getattr(subs[0], 'dtype', 'numerical') == 'categorical':
                lo0 = float(np.ceil(min(subs[0].edge_knots_)))          # a categorical axis is domain-checked: stay inside its knots
            ax_int = [np.array([lo0, lo0 + 1, lo0 + 2]).astype(np.int64)] + axes[1:]
            ax_f32 = [axes[0].astype(np.float32)] + axes[1:]
            variants = []
            mesh_ij = np.meshgrid(*axes, indexing='ij')
            variants.append(('C', axes, [np.ascontiguousarray(a) for a in mesh_ij]))
            variants.append(('F', axes, [np.asfortranarray(a) for a in mesh_ij]))
            variants.append(('T-view', axes, [np.ascontiguousarray(a.T).T for a in mesh_ij]))
            if getattr(subs[0], 'spline_order', 1) >= 1 and len(subs) >= 2 and getattr(subs[0], 'dtype', 'numerical') == 'numerical':
                variants.append(('int64-first-axis', ax_int, list(np.meshgrid(*ax_int, indexing='ij'))))
            variants.append(('float32-first-axis', ax_f32, list(np.meshgrid(*ax_f32, indexing='ij'))))
            for lname, axv, mesh in variants:
                pts = np.zeros((mesh[0].size, pr.X.shape[1]))
                for s_, a in zip(subs, mesh):
                    pts[:, s_.feature] = np.asarray(a, dtype=float).ravel()
                if getattr(t, 'by', None) is not None:
                    pts[:, t.by] = 1.0
                ref = np.asarray(gam.partial_dependence(ti, X=pts)).reshape(mesh[0].shape)
                msig = dict(cls=cls_name, tokens=toks, term=ti, layout=lname)
                ctx.case(st_go, msig, nontrivial=True)
                ctx.count('user mesh variant', lname)
                got = np.asarray(gam.partial_dependence(ti, X=tuple(mesh), meshgrid=True))
                if got.shape != ref.shape or np.abs(got - ref).max() > 1e-9 * (1 + np.abs(ref).max()):
                    ctx.fail(st_go, dict(kind='mesh', layout=lname, tensor=bool(t.istensor)), dict(cls=cls_name, tokens=toks, term=ti, layout=lname, axes=[np.asarray(a, dtype=float).tolist() for a in axv]),
                             observed=dict(shape=list(got.shape), maxdiff=float(np.abs(got - ref).max()) if got.shape == ref.shape else None),
                             expected='partial_dependence(term, X=mesh, meshgrid=True)[i, j, ..] = partial dependence at the mesh point (i, j, ..)',
                             oracle='same points passed as a flat float64 matrix')
                    break
        # ---------------- grids
        for (ti, n) in grids:
            o = outs[pos]; pos += 1
            t = tl[ti]
            gsig = dict(cls=cls_name, tokens=toks, term=ti, n=n)
            ctx.case(st_g, gsig, nontrivial=t.istensor or getattr(t, 'by', None) is not None)
            G = np.asarray(gam.generate_X_grid(term=ti, n=n))
            Gm = gam.generate_X_grid(term=ti, n=n, meshgrid=True)
            k_ = len(t._terms) if t.istensor else 1
            gbad = None
            if G.shape != (n ** k_, pr.X.shape[1]):
                gbad = 'grid shape %s != (%d, %d)' % (G.shape, n ** k_, pr.X.shape[1])
            else:
                # documented grid, recomputed independently
                ref = np.zeros_like(G)
                if t.istensor:
                    axes = [np.linspace(*fitted_domain(s_, pr.X), n) for s_ in t._terms]
                    mesh = np.meshgrid(*axes, indexing='ij')
                    for s_, mm in zip(t._terms, mesh):
                        ref[:, s_.feature] = mm.ravel()
                    if not (isinstance(Gm, tuple) and len(Gm) == k_ and all(np.array_equal(a, b) for a, b in zip(Gm, mesh))):
                        gbad = 'meshgrid=True output is not the ij mesh of the marginal grids'
                else:
                    ref[:, t.feature] = np.linspace(*fitted_domain(t, pr.X), n)
                    if not (isinstance(Gm, tuple) and len(Gm) == 1 and np.array_equal(Gm[0], ref[:, t.feature])):
                        gbad = 'meshgrid=True output is not the 1-d grid'
                if getattr(t, 'by', None) is not None:
                    ref[:, t.by] = 1.0
                if gbad is None and np.abs(G - ref).max() > 1e-12 * max(1.0, np.abs(ref).max()):
                    gbad = 'default grid differs from the documented grid by %.3g' % np.abs(G - ref).max()
                if gbad is None and n <= 17:
                    p_def = np.asarray(gam.partial_dependence(ti)) if n == 100 else None
                    p_ref = np.asarray(gam.partial_dependence(ti, X=ref))
                    p_g = np.asarray(gam.partial_dependence(ti, X=G))
                    if np.abs(p_ref - p_g).max() > 1e-9 * (1 + np.abs(p_ref).max()):
                        gbad = 'partial dependence on the default grid differs from the documented grid'
            ctx.case(st_go, gsig, nontrivial=t.istensor or getattr(t, 'by', None) is not None)
            if gbad:
                ctx.fail(st_go, dict(kind='grid', tensor=bool(t.istensor), why=gbad.split(' ')[0]), dict(cls=cls_name, tokens=toks, term=ti, n=n), observed=gbad,
                         expected='n^k rows; feature_j = linspace(edge knots, n); by-variable 1; other columns 0', oracle='NumPy recomputation of the documented grid')
                continue
            if o == 'bad-op':
                ctx.disagree(st_g, gsig, 'n/a', 'bad-op', 'model rejected grid op')
                continue
            M = np.array([[float(v) for v in row] for row in common.parse_mat(o)]).reshape(G.shape[0], -1) if G.size else np.zeros_like(G)
            if M.shape != G.shape or np.abs(M - G).max() > 1e-12 * max(1.0, np.abs(G).max()):
                ctx.disagree(st_g, gsig, G[:3].tolist(), M[:3].tolist(), 'model grid differs from generate_X_grid')


def _default_grid_cases(ctx, meta, st_go):
    # default n = 100 behaviour of partial_dependence without X (a few cases per run, cheap)
    for (cls_name, pr, gam, toks, grids) in meta[:6]:
        for ti, t in enumerate(gam.terms):
            if t.isintercept or t.istensor:
                continue
            p0 = np.asarray(gam.partial_dependence(ti))
            G = gam.generate_X_grid(term=ti)
            ctx.case(st_go, dict(cls=cls_name, tokens=toks, term=ti, default=True), nontrivial=True)
            if p0.shape != (100,) or np.abs(p0 - np.asarray(gam.partial_dependence(ti, X=G))).max() > 0:
                ctx.fail(st_go, dict(kind='grid', why='default'), dict(cls=cls_name, tokens=toks, term=ti), observed='partial_dependence(term) without X is not evaluated on generate_X_grid(term)',
                         expected='100-point default grid', oracle='public API identity')
            break


def run_large(ctx, meta):
    """large queries: every row of predict_mu / partial_dependence on a big X equals the same row queried alone
    (catches block-wise evaluation that drops or misplaces a partial block); sizes seeded by integer literals of the source"""
    import pygam.pygam as PG
    from harness.props.c16 import harvest_int_literals
    st = 'decomp.large'
    ctx.stream(st, 'large query matrices: rows of predict_mu / partial_dependence equal the rows queried alone and the additive decomposition (first, last, random rows)')
    sizes = sorted(set([25001] + [L + 2345 for L in harvest_int_literals([PG], lo=1000, hi=200000)]))[:4]
    ctx.count('large query sizes', str(sizes))
    rng = np.random.default_rng(ctx.seed + 7)
    done = 0
    for (cls_name, pr, gam, toks, grids) in meta:
        if done >= 2 or int(gam.terms.n_coefs) > 40:
            continue
        done += 1
        for n in sizes:
            X = pr.Xq[rng.integers(0, pr.Xq.shape[0], n)]
            sig = dict(cls=cls_name, tokens=toks, n=n)
            ctx.case(st, sig, nontrivial=True, sample=dict(cls=cls_name, n=n))
            rows = sorted(set([0, 1, 2, n - 3, n - 2, n - 1] + [int(v) for v in rng.integers(0, n, 40)] + [n - 1 - int(v) for v in rng.integers(0, min(n, 3000), 20)]))
            mu_big = np.asarray(gam.predict_mu(X))[rows]
            mu_small = np.asarray(gam.predict_mu(X[rows]))
            bad = None
            if np.abs(mu_big - mu_small).max() > 1e-12 * (1 + np.abs(mu_small).max()):
                bad = 'predict_mu rows of a large X differ from the rows queried alone (max %.3g)' % np.abs(mu_big - mu_small).max()
            else:
                for ti, t in enumerate(gam.terms):
                    if t.isintercept:
                        continue
                    pb = np.asarray(gam.partial_dependence(ti, X=X))[rows]
                    ps = np.asarray(gam.partial_dependence(ti, X=X[rows]))
                    if np.abs(pb - ps).max() > 1e-12 * (1 + np.abs(ps).max()):
                        bad = 'partial_dependence(term %d) rows of a large X differ from the rows queried alone (max %.3g)' % (ti, np.abs(pb - ps).max())
                        break
            if bad:
                ctx.fail(st, dict(kind='large-rows', cls=cls_name), dict(cls=cls_name, tokens=toks, n=n), observed=bad,
                         expected='row-wise evaluation independent of the batch', oracle='same rows queried alone')


def run_after_search(ctx, pygam):
    """histories that end in a grid search which changes the coefficient layout: the model that comes out is a fitted
    model like any other — the decomposition must hold for it, each partial dependence must be the term's own columns
    times the term's own coefficient block, and the interval of a term must use that block of the covariance"""
    st = 'decomp.after-search'
    ctx.stream(st, 'history fit -> queries (predict, partial_dependence with intervals, confidence_intervals) -> gridsearch over n_splines (2-D grid rows, keep_best) -> '
                   'decomposition, per-term blocks (columns x coefficient block via the public term list) and partial-dependence intervals of the resulting model')
    from pygam import LinearGAM, PoissonGAM, GammaGAM, s, te
    from scipy import stats as sps
    ncase = 8 if ctx.tier == 'quick' else 60
    for k in range(ncase):
        rng = ctx.subrng('after-search', k)
        rs = np.random.RandomState(rng.getrandbits(32))
        n = rng.choice([60, 120])
        X = rs.uniform(-1, 1, size=(n, 4))
        f = np.sin(2 * X[:, 0]) + 0.5 * X[:, 1] ** 2 + 0.3 * X[:, 2] * X[:, 3]
        cls = [LinearGAM, PoissonGAM, GammaGAM][k % 3]
        if cls is LinearGAM:
            y = f + 0.2 * rs.randn(n)
        elif cls is PoissonGAM:
            y = rs.poisson(np.exp(0.5 * f)).astype(float)
        else:
            y = np.exp(0.3 * f) * rs.gamma(8, 1 / 8.0, size=n)
        shape = k % 4
        a, b = rng.choice([6, 8, 10]), rng.choice([5, 7, 9])
        if shape == 0:
            terms, grid = s(0, n_splines=a) + s(1, n_splines=b), [[a + 4, b], [a + 7, b + 3]]
        elif shape == 1:
            terms, grid = s(0, n_splines=a) + s(1, n_splines=b) + s(2, n_splines=6), [[a + 5, b + 2, 6], [a, b + 6, 9]]
        elif shape == 2:
            terms, grid = s(0, n_splines=a) + te(2, 3, n_splines=[4, 5]) + s(1, n_splines=b), [[a + 3, 5, 4, b + 4], [a + 6, 4, 6, b]]
        else:
            terms, grid = s(1, n_splines=b, by=0) + s(0, n_splines=a), [[b + 5, a], [b + 8, a + 2]]
        sig = dict(cls=cls.__name__, shape=shape, a=a, b=b, n=n)
        ctx.case(st, sig, nontrivial=True)
        ctx.count('after-search model class', cls.__name__)
        buf = io.StringIO()
        try:
            with contextlib.redirect_stdout(buf), contextlib.redirect_stderr(buf):
                gam = cls(terms, max_iter=50)
                gam.lam = 1e5          # the start is badly over-smoothed: every candidate of the search below beats it
                gam.fit(X, y)
                # queries that a caching layer would serve from
                gam.predict(X[:5])
                gam.confidence_intervals(X[:5], width=0.9)
                for ti, t in enumerate(gam.terms):
                    if not t.isintercept:
                        gam.partial_dependence(ti, X=X[:5], width=0.9)
                        gam.partial_dependence(ti)
                gam.gridsearch(X, y, n_splines=np.array(grid), lam=[0.05, 1.0], progress=False)
            layout_changed = True
            Xq = rs.uniform(-1, 1, size=(12, 4))
            coef = np.asarray(gam.coef_, dtype=float)
            cov = np.asarray(gam.statistics_['cov'], dtype=float)
            B = np.asarray(gam.terms.build_columns(Xq).todense(), dtype=float)
            if B.shape[1] != len(coef):
                ctx.fail(st, dict(kind='layout'), dict(sig, grid=grid), observed=dict(columns=B.shape[1], coefs=len(coef)), expected='one column per coefficient',
                         oracle='terms.build_columns vs coef_ of the model after the search')
                continue
            lp = B @ coef
            total = np.zeros(len(Xq))
            bad = None
            known = bool(gam.distribution._known_scale)
            df = n - float(gam.statistics_['edof'])
            crit = sps.norm.ppf(0.95) if known else sps.t.ppf(0.95, df=df)
            for ti, t in enumerate(gam.terms):
                idx = np.asarray(gam.terms.get_coef_indices(ti))
                block = B[:, idx] @ coef[idx]
                if t.isintercept:
                    total += block
                    continue
                pd, iv = gam.partial_dependence(ti, X=Xq, width=0.9)
                pd = np.asarray(pd, dtype=float)
                total += pd
                tol = 1e-8 * (1 + np.abs(block).max())
                if pd.shape != block.shape or np.abs(pd - block).max() > tol:
                    bad = dict(reason='partial dependence of term %d is not its columns times its coefficient block' % ti,
                               maxdiff=float(np.abs(pd - block).max()) if pd.shape == block.shape else None)
                    break
                se = np.sqrt(np.maximum(np.einsum('ij,jk,ik->i', B[:, idx], cov[np.ix_(idx, idx)], B[:, idx]), 0))
                want = np.c_[block - crit * se, block + crit * se]
                iv = np.asarray(iv, dtype=float)
                if iv.shape != want.shape or np.abs(iv - want).max() > 1e-6 * (1 + np.abs(want).max()):
                    bad = dict(reason='partial-dependence interval of term %d does not use the term block of the covariance' % ti)
                    break
            if bad is None:
                lname = gam.link._name
                from harness.gen import fitgen
                mu = np.asarray(gam.predict_mu(Xq), dtype=float)
                with np.errstate(all='ignore'):
                    lpi = np.asarray(fitgen.np_link(lname, 1.0, mu), dtype=float)
                if np.abs(lpi - total).max() > 1e-7 * (1 + np.abs(total).max()) or np.abs(lp - total).max() > 1e-8 * (1 + np.abs(total).max()):
                    bad = dict(reason='link(predict_mu) != intercept + sum of partial dependences', maxdiff=float(np.abs(lpi - total).max()))
            if bad:
                ctx.fail(st, dict(kind='after-search', why=bad['reason'].split(' ')[0]), dict(sig, grid=grid, seed_key=k), observed=bad,
                         expected='the model left by gridsearch decomposes like any fitted model', oracle='public API identity on the model after the search')
        except Exception as e:  # noqa
            import traceback
            tb = traceback.format_exc()
            if common.REPO in tb:
                ctx.fail(st, dict(kind='exception', exc=type(e).__name__), dict(sig, grid=grid), observed='%s: %s' % (type(e).__name__, str(e)[:300]),
                         expected='queries on the model after the search', oracle='public API must not raise on valid input', detail=tb[-1500:])
            else:
                raise


def run_forced_grids(ctx, pygam):
    """in every run, whatever the draw: a by-variable in column 0 (a falsy index) and user meshes in every memory layout"""
    st = 'grid.forced'
    ctx.stream(st, 'fixed models in every run: terms whose by-variable is column 0 (default grid: by column = 1, partial_dependence() = partial_dependence(X = documented grid)); '
                   'tensor term with user meshes in C / Fortran / transposed-view layouts and integer / float32 first axes (values at the mesh points)')
    from pygam import LinearGAM, PoissonGAM, s, te
    for k in range(4 if ctx.tier == 'quick' else 16):
        rng = ctx.subrng('forced-grid', k)
        rs = np.random.RandomState(rng.getrandbits(32))
        n = 80
        X = np.c_[rs.choice([-1.0, 0.5, 1.0, 2.0], n), rs.uniform(0, 1, n), rs.uniform(-2, 2, n), rs.uniform(10, 20, n)]
        f = X[:, 0] * np.sin(3 * X[:, 1]) + 0.3 * X[:, 2] + 0.05 * (X[:, 3] - 15) * X[:, 2]
        cls = [LinearGAM, PoissonGAM][k % 2]
        y = f + 0.2 * rs.randn(n) if cls is LinearGAM else rs.poisson(np.exp(0.4 * f)).astype(float)
        terms = (s(1, by=0, n_splines=6) + te(2, 3, n_splines=[5, 4]) + s(2, n_splines=5)) if k % 4 < 2 else (te(1, 2, by=0, n_splines=[4, 4]) + te(2, 3, n_splines=[4, 5]))
        sig = dict(cls=cls.__name__, variant=k % 4)
        ctx.case(st, sig, nontrivial=True)
        buf = io.StringIO()
        try:
            with contextlib.redirect_stdout(buf):
                gam = cls(terms, max_iter=50).fit(X, y)
            bad = None
            # (i) by-variable in column 0
            G = np.asarray(gam.generate_X_grid(term=0, n=7))
            if not np.all(G[:, 0] == 1.0):
                bad = 'default grid of a term whose by-variable is column 0 leaves the by column at %r' % sorted(set(G[:, 0].tolist()))[:3]
            else:
                p_def = np.asarray(gam.partial_dependence(0))
                p_ref = np.asarray(gam.partial_dependence(0, X=np.asarray(gam.generate_X_grid(term=0))))
                t0 = gam.terms[0]
                # the documented grid rebuilt from the training data (by = 1)
                if not t0.istensor:
                    Gd = np.zeros((100, X.shape[1])); Gd[:, 1] = np.linspace(X[:, 1].min(), X[:, 1].max(), 100); Gd[:, 0] = 1.0
                    p_doc = np.asarray(gam.partial_dependence(0, X=Gd))
                    if p_def.shape != p_doc.shape or np.abs(p_def - p_doc).max() > 1e-9 * (1 + np.abs(p_doc).max()):
                        bad = 'partial_dependence(term) without X is not the term on its documented grid with the by-variable at one'
                if bad is None and (p_def.shape != p_ref.shape or np.abs(p_def - p_ref).max() > 1e-9 * (1 + np.abs(p_ref).max())):
                    bad = 'partial_dependence(term) != partial_dependence(term, X=generate_X_grid(term))'
            # (ii) user meshes of the tensor term te(2, 3): every layout gives the values at the mesh points
            if bad is None:
                ti = 1
                a, b = np.linspace(-2, 2, 4), np.linspace(10, 20, 3)
                A, B = np.meshgrid(a, b, indexing='ij')
                pts = np.zeros((A.size, X.shape[1])); pts[:, 2] = A.ravel(); pts[:, 3] = B.ravel()
                ref = np.asarray(gam.partial_dependence(ti, X=pts)).reshape(A.shape)
                layouts = {'C': (np.ascontiguousarray(A), np.ascontiguousarray(B)), 'F': (np.asfortranarray(A), np.asfortranarray(B)),
                           'T-view': (np.ascontiguousarray(A.T).T, np.ascontiguousarray(B.T).T),
                           'float32-first': (A.astype(np.float32), B), 'xy-transposed': tuple(m.T for m in np.meshgrid(a, b))}
                for lname, mesh in layouts.items():
                    got = np.asarray(gam.partial_dependence(ti, X=tuple(mesh), meshgrid=True))
                    tol = (1e-5 if lname == 'float32-first' else 1e-9) * (1 + np.abs(ref).max())
                    if got.shape != ref.shape or np.abs(got - ref).max() > tol:
                        bad = 'user mesh in layout %s: values are not those at the mesh points (max diff %.3g)' % (lname, float(np.abs(got - ref).max()) if got.shape == ref.shape else float('nan'))
                        break
            if bad:
                ctx.fail(st, dict(kind='forced-grid', why=bad.split(':')[0][:40]), dict(sig, seed_key=k), observed=bad,
                         expected='documented default grid (by-variable one) / values at the user mesh points', oracle='public API identities on a fixed model')
        except Exception as e:  # noqa
            import traceback
            tb = traceback.format_exc()
            if common.REPO in tb:
                ctx.fail(st, dict(kind='exception', exc=type(e).__name__), dict(sig, seed_key=k), observed='%s: %s' % (type(e).__name__, str(e)[:300]),
                         expected='grids and partial dependence on valid input', oracle='public API must not raise on valid input', detail=tb[-1500:])
            else:
                raise


def termgen_flatten(v):
    out = []
    for a in np.atleast_1d(v):
        out += list(np.atleast_1d(a))
    return out


def replay(ctx, rp):
    run(ctx)
