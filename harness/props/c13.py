"""
C13 — lam trades fidelity for smoothness monotonically and with the right limits.

Theorems: lean/PyGam/Props/C13.lean — for the solutions beta_lam of the penalised normal equations with penalty R + lam P
(R = sqrt(eps) ridge + every penalty held fixed, P = the penalty whose lam grows; all from C01 normal_eq_is_minimiser /
crit_excess): J = beta'P beta never increases and F = RSS + beta'R beta never decreases (exchange argument); the weighted RSS
itself never decreases up to the change of the fixed penalty terms (exactly when nothing else is penalised; a 2 x 2
counter-example shows that the restriction is necessary: known finding C13-rss-decreases-with-other-penalties-fixed); squeeze J <= F(beta0)/lam, F(beta_lam) <= F(beta0) and
sum w (B(beta0 - beta_lam))^2 <= F(beta0) - F(beta_lam) for every beta0 in the null space of P (straight lines for the
default penalty, only 0 for a ridge penalty); lam = 0 is WLS with R alone; edof = sum a_j / (1 + lam gamma_j) is
non-increasing (partial: under a simultaneous diagonalisation).
The smoothing parameters reach the model by every public route in turn (on the term, model keyword next to explicit terms,
gam.lam = …, set_params, gridsearch candidates, one scalar keyword with explicit terms and with terms='auto'; always incl. exactly 0).
Correspondence / oracle: sequences of REAL fits (LinearGAM and GAM normal/identity, tol 1e-10, random term mixes without
constraints, weights incl. zeros) along lam = 0, 1e-6 … 1e6 (12 decades) — each penalty separately (others fixed) and all
lams jointly: edof non-increasing, F non-decreasing, J non-increasing, RSS non-decreasing up to the fixed-penalty slack,
build_penalties linear in lam, fitted values == NumPy closed form (lstsq on the augmented system) at every lam incl. lam = 0,
and at a large lam (chosen from the spectrum so that theory puts the fit within 1e-4 of its limit) fitted values == NumPy
weighted least squares restricted to the null space of the varied penalty, with the squeeze inequalities.
Judged against the REQUEST (streams route.te-keyword, limit.small-basis; `run_requested`): in every run tensor terms whose lam
comes through the te(...) keyword (scalar, per-marginal lists, exact zeros) and the smallest bases (n_splines = 2, 3, 4,
spline_order 0 … 3) are fitted along L = 0, 1e-3 … 1e6 and compared with the NumPy closed form for the penalty built
independently from the requested lam (second differences — empty on 2 coefficients — and Kronecker sums; only the model
matrix is the model's own), with the monotonicity clauses along the real fits and with the null-space limit of that penalty.
Model side (Lean driver, exact rationals): J via the Penalty / Terms model (`quad`), weighted RSS, penalty value and the
residual of the model normal equations at the real coefficients on the exported matrices (`neq`).
"""
import copy
import multiprocessing as mp
import random
from fractions import Fraction

import numpy as np

from harness import common
from harness.gen import termgen

EPS = np.finfo(float).eps
SQRT_EPS = np.sqrt(EPS)


# ---------------------------------------------------------------------------------------------------------
# generation
# ---------------------------------------------------------------------------------------------------------
ROUTES = ('term',            # on the term itself (constructor / attribute of the term), model built from the terms
          'kw',              # model keyword lam=[…] next to explicit terms
          'attr',            # gam.lam = […] on an existing model
          'set_params',      # gam.set_params(lam=[…])
          'gridsearch',      # the whole path as gridsearch candidates (return_scores=True gives every fitted candidate)
          'kw-scalar',       # model keyword with one scalar for all penalties (joint path, explicit terms); includes exactly 0
          'kw-scalar-auto')  # the same with terms='auto' (one default spline per feature)


def gen_paths(rng, tier):
    npath = 400 if tier == 'quick' else 3000
    paths = []
    for i in range(npath):
        paths.append(dict(
            seed=rng.randrange(10 ** 9), cls=('LinearGAM', 'GAM')[i % 2], kind=('single', 'single', 'joint')[i % 3],
            n_mode=rng.choice(['m+1', 'small', 'mid', 'mid', 'large']),
            weights_mode=rng.choice(['none', 'pos', 'int', 'zeros']),
            max_terms=rng.choice([1, 1, 2, 3]),
            npts=(7 if tier == 'quick' else rng.choice([7, 13, 25])),
            jitter=rng.random() < 0.5,
            default_spline=(i % 5 == 0),
            # one penalty of a model with several penalised terms swept to 1e8 / 1e9 while the others stay at ordinary values
            multi_sweep=(i % 5 == 1),
            # the public route by which the smoothing parameters reach the model (the property is about any smoothing
            # parameter however it is supplied)
            route=ROUTES[i % len(ROUTES)],
        ))
    for c in paths:
        if c['route'].startswith('kw-scalar'):
            c['kind'], c['multi_sweep'] = 'joint', False
        if c['route'] == 'kw-scalar-auto':
            c['default_spline'] = False
            if c['n_mode'] in ('m+1', 'small'):
                c['n_mode'] = 'mid'
    return paths


def _leaves(tl):
    out = []
    for ti, t in enumerate(tl):
        if t.isintercept:
            continue
        if t.istensor:
            for si, s in enumerate(t._terms):
                out.append(((ti, si), s))
        else:
            out.append(((ti, None), t))
    return out


def _leaf(tl, path):
    ti, si = path
    t = tl[ti]
    return t if si is None else t._terms[si]


def _info_sans_lam(info):
    if isinstance(info, dict):
        return '{' + ','.join('%s:%s' % (k, _info_sans_lam(v)) for k, v in sorted(info.items()) if k != 'lam') + '}'
    if isinstance(info, (list, tuple)):
        return '[' + ','.join(_info_sans_lam(v) for v in info) + ']'
    return repr(info)


def _grid(case, rs):
    k = case['npts']
    e = np.linspace(-6, 6, k)
    if case['jitter']:
        e = np.sort(np.clip(e + rs.uniform(-0.4, 0.4, size=k), -6, 6))
        e[0], e[-1] = -6.0, 6.0
    # 0, the 12 decades 1e-6 … 1e6, and two points far beyond (1e8, 1e9): judged like any other point, the accuracy model
    # of the solve decides what is too ill-conditioned to judge
    return [0.0] + [float(10 ** v) for v in e] + [1e8, 1e9]


def _problem(case, pygam):
    """deterministic from the case: compiled term list, data, slots, base lams, the varied part"""
    from pygam.terms import SplineTerm, Intercept, TermList
    rng = random.Random(case['seed'])
    rs = np.random.default_rng(case['seed'])
    if case.get('route') == 'kw-scalar-auto':
        # terms='auto': one default spline term per feature (n_splines = 20, lam = 0.6) + intercept
        pr = termgen.gen_program(rng, pygam, n_rows=260, n_query=8, allow_constraints=False, allow_periodic_penalty=False,
                                 max_terms=1, tensor_prob=0.0)
        tl = TermList(*[SplineTerm(j) for j in range(pr.X.shape[1])], Intercept())
        tl.compile(pr.X)
    elif case['default_spline']:
        # the documented default: s(0) with the 'auto' second-difference penalty (+ intercept)
        pr = termgen.gen_program(rng, pygam, n_rows=260, n_query=8, allow_constraints=False, allow_periodic_penalty=False,
                                 max_terms=1, tensor_prob=0.0)
        # (n_splines, spline_order): the default cubic basis in several sizes, and the smallest bases on which a second
        # difference exists (3 coefficients) — the limit is a straight line in x for every order (Greville)
        nsp, order = rng.choice([(6, 3), (10, 3), (20, 3), (4, 3), (3, 2), (3, 1), (5, 2)])
        tl = TermList(SplineTerm(0, n_splines=nsp, spline_order=order, lam=0.6), Intercept())
        tl.compile(pr.X)
    elif case.get('multi_sweep'):
        from pygam.terms import FactorTerm
        pr = termgen.gen_program(rng, pygam, n_rows=260, n_query=8, allow_constraints=False, allow_periodic_penalty=False,
                                 max_terms=1, tensor_prob=0.0)
        ordinary = [0.6, 1.0, 0.015625, 2.5, 10.0]
        # columns of the generated data: 0 is numeric, 1 categorical; a second numeric column when there is one
        nums = [j for j in range(pr.X.shape[1]) if j != 1 and len(np.unique(pr.X[:, j])) > 20]
        terms = [SplineTerm(0, n_splines=rng.choice([8, 12, 20]), lam=rng.choice(ordinary))]
        if len(nums) > 1:
            terms.append(SplineTerm(nums[1], n_splines=rng.choice([6, 10, 20]), lam=rng.choice(ordinary)))
        if len(terms) < 2 or rng.random() < 0.5:
            terms.append(FactorTerm(1, lam=rng.choice(ordinary)))
        tl = TermList(*terms, Intercept())
        tl.compile(pr.X)
    else:
        pr = termgen.gen_program(rng, pygam, n_rows=260, n_query=8, allow_constraints=False, allow_periodic_penalty=False,
                                 max_terms=case['max_terms'], tensor_prob=0.25)
        tl = pr.terms
    # TermList drops a term equal to an earlier one: terms that differ only in lam would merge somewhere on the path
    sigs = [_info_sans_lam(t.info) for t in tl]
    if len(set(sigs)) != len(sigs):
        raise ValueError('two terms differ at most in lam')
    m = int(tl.n_coefs)
    n = {'m+1': m + 1, 'small': 12, 'mid': 60, 'large': 200}[case['n_mode'] if not case.get('multi_sweep') else ('large' if case['n_mode'] != 'mid' else 'mid')]
    n = max(min(n, 260), 6)
    X = pr.X[:n].copy()
    eta = np.zeros(n)
    for j in range(X.shape[1]):
        col = X[:, j]
        span = (col.max() - col.min()) or 1.0
        eta += np.sin(3 * (col - col.min()) / span + j) * (1.0 if j == 0 else 0.4)
    y = eta * float(10 ** rs.uniform(-1, 1)) + 0.3 * rs.normal(size=n)
    wm = case['weights_mode']
    if wm == 'none':
        w = None
    elif wm == 'pos':
        w = rs.choice([0.25, 0.5, 1.0, 1.5, 2.0, 3.0], size=n)
    elif wm == 'int':
        w = rs.integers(1, 4, size=n).astype(float)
    else:
        w = rs.choice([0.0, 1.0, 2.0], size=n, p=[0.2, 0.5, 0.3])
        if w.sum() == 0:
            w[0] = 1.0
    leaves = _leaves(tl)
    slots = []
    for path, s in leaves:
        lam = [float(v) for v in np.atleast_1d(s.lam)]
        pens = list(s.penalties)
        for k_ in range(len(lam)):
            slots.append((path, k_, lam[k_], pens[k_]))
    # base lams and the varied part
    base = {}
    for path, k_, lam, pen in slots:
        base[(path, k_)] = lam
    if case['kind'] == 'single' or case.get('multi_sweep'):
        real = [sl for sl in slots if sl[3] not in (None, 'none')]
        pick = rng.choice(real) if (real and rng.random() < 0.85) else rng.choice(slots)
        unit = {key: 0.0 for key in base}
        unit[(pick[0], pick[1])] = 1.0
        fixed = dict(base)
        fixed[(pick[0], pick[1])] = 0.0
        varied = '%s[%d]:%s' % (pick[0], pick[1], pick[3])
    else:
        unit = {}
        for key, v in base.items():
            unit[key] = v if (v > 0 and rng.random() < 0.7) else rng.choice([0.6, 1.0, 0.015625, 2.5])
        if str(case.get('route', '')).startswith('kw-scalar'):
            unit = {key: 1.0 for key in base}           # one scalar for every penalty
        fixed = {key: 0.0 for key in base}
        varied = 'joint'
    return dict(tl=tl, X=X, y=y, w=w, Xq=pr.Xq, slots=slots, unit=unit, fixed=fixed, varied=varied, m=m, n=n,
                grid=_grid(case, rs), has_intercept=any(t.isintercept for t in tl), desc=dict(pr.desc, n=n, m=m))


def _terms_with(tl, lams):
    """deep copy of the term list with lam set per (leaf, slot)"""
    t2 = copy.deepcopy(tl)
    per_leaf = {}
    for (path, k_), v in lams.items():
        per_leaf.setdefault(path, {})[k_] = v
    for path, d in per_leaf.items():
        s = _leaf(t2, path)
        s.lam = [float(d[k_]) for k_ in range(len(d))]
    return t2


def _dense(M):
    return np.asarray(M.todense(), dtype=float) if hasattr(M, 'todense') else np.asarray(M, dtype=float)


def _flat(prob, lams):
    """the lams in the order in which pyGAM flattens them: term order, marginals of a tensor term in order, penalties in order"""
    return [float(lams[(path, k_)]) for path, k_, _lam, _pen in prob['slots']]


def _make_model(prob, case, pygam, lams, route):
    """an unfitted model carrying the requested lams, supplied by `route`"""
    kw = dict(tol=1e-10, max_iter=300, fit_intercept=prob['has_intercept'])
    if case['cls'] == 'GAM':
        kw.update(distribution='normal', link='identity')
    cls = getattr(pygam, case['cls'])
    flat = _flat(prob, lams)
    if route == 'term':
        return cls(_terms_with(prob['tl'], lams), **kw)
    if route == 'kw':
        return cls(copy.deepcopy(prob['tl']), lam=flat, **kw)
    if route == 'kw-scalar':
        assert len(set(flat)) == 1
        return cls(copy.deepcopy(prob['tl']), lam=flat[0], **kw)
    if route == 'kw-scalar-auto':
        assert len(set(flat)) == 1
        kw['fit_intercept'] = True
        return cls(lam=flat[0], **kw)           # terms='auto'
    gam = cls(copy.deepcopy(prob['tl']), **kw)
    if route == 'attr':
        gam.lam = flat
    elif route == 'set_params':
        gam.set_params(lam=flat)
    else:
        raise ValueError(route)
    return gam


def _gridsearch_models(prob, case, pygam, grid):
    """route 'gridsearch': the whole path as candidates of one gridsearch on an existing model; -> {lam: fitted candidate}"""
    import contextlib
    import io
    import warnings
    from pygam.utils import flatten
    base = _make_model(prob, case, pygam, {key: prob['fixed'][key] + prob['unit'][key] for key in prob['unit']}, 'term')
    flats = [_flat(prob, {key: prob['fixed'][key] + lam * prob['unit'][key] for key in prob['unit']}) for lam in grid]
    with warnings.catch_warnings():
        warnings.simplefilter('ignore')
        with contextlib.redirect_stdout(io.StringIO()):
            kwf = {} if prob['w'] is None else dict(weights=prob['w'])
            scores = base.gridsearch(prob['X'], prob['y'], lam=np.array(flats, dtype=float), return_scores=True, keep_best=False, progress=False, **kwf)
    out = {}
    if not hasattr(scores, 'items'):
        # gridsearch swallows the ValueError of a candidate fit and, when no candidate at all could be fitted ("No models
        # were fitted"), returns the model itself instead of the scores (e.g. data outside the user-given edge knots of a
        # term: every fit is refused).  Nothing is cached then: `_fit_at` fits each lam through set_params, where a
        # refusal is recorded as the path status 'ValueError' exactly as on the other routes.
        return out, getattr(base, '_constraint_l2', None)
    for model in scores:
        got = [float(v) for v in flatten(model.lam)]
        for lam, fl in zip(grid, flats):
            if lam not in out and len(got) == len(fl) and all(abs(g_ - f_) <= 1e-12 * max(1.0, abs(f_)) for g_, f_ in zip(got, fl)):
                out[lam] = model
                break
    return out, getattr(base, '_constraint_l2', None)


def _fit_at(prob, case, pygam, lam):
    from harness.gen import fitgen
    lams = {key: prob['fixed'][key] + lam * prob['unit'][key] for key in prob['unit']}
    route = case.get('route', 'term')
    cache = prob.get('gs_models')
    if route == 'gridsearch' and cache is not None and lam in cache:
        gam, l2_before = cache[lam], prob['gs_l2']
        status, out = 'ok', ('' if (gam.logs_['diffs'] and gam.logs_['diffs'][-1] < gam.tol) else 'did not converge')
    else:
        if route == 'gridsearch':
            route = 'set_params'            # fits outside the candidate grid (the limit)
        try:
            gam = _make_model(prob, case, pygam, lams, route)
        except ValueError as e:
            return dict(status='ValueError', msg=str(e)[:200])
        l2_before = getattr(gam, '_constraint_l2', None)
        status, out = fitgen.fit_quiet(gam, prob['X'], prob['y'], prob['w'])
    if status != 'ok':
        return dict(status=status, msg=out)
    coef = np.asarray(gam.coef_, dtype=float).ravel()
    if not np.isfinite(coef).all():
        return dict(status='nonfinite-coef', msg='')
    if len(coef) != prob['m']:
        return dict(status='coef-count', msg='model has %d coefficients, the requested terms have %d' % (len(coef), prob['m']))
    return dict(status='ok', conv=('did not converge' not in out), coef=coef, edof=float(gam.statistics_['edof']),
                P=_dense(gam.terms.build_penalties()), B=_dense(gam.terms.build_columns(prob['X'])),
                mu=np.asarray(gam.predict_mu(prob['X']), dtype=float), muq=np.asarray(gam.predict_mu(prob['Xq']), dtype=float),
                Bq=_dense(gam.terms.build_columns(prob['Xq'])), gam=gam,
                # an unconstrained fit must not touch the conditioning ridge: `_cholesky` escalating `_constraint_l2`
                # means the penalty S + P was replaced by a more heavily ridged one (the fit is then not a fit of the
                # specified model) — reported as a failing input wherever it happens
                fallback=(getattr(gam, '_constraint_l2', None) != l2_before),
                l2=(l2_before, getattr(gam, '_constraint_l2', None)))


def _oracle(B, R, Pv, lam, wv, y):
    """penalised WLS with penalty R + lam Pv by a thin QR of the stacked system M = [sqrt(W)B; E_R; sqrt(lam) E_P]
    (R + lam Pv, whose small eigenvalues drown in the rounding of the large ones, is never formed; no rank truncation).
    Returns the coefficients, cond(M), the trace of the hat matrix and K = |sqrt(W) B N^-1|_2 = |Q1 R^-T|_2, the
    sensitivity of the weighted fitted values to a perturbation of the penalty matrix: |d(sqrt(W) mu)| <= K |dA| |beta|"""
    import scipy.linalg as sla
    n, m = B.shape
    lr, Vr = np.linalg.eigh((R + R.T) / 2)
    Er = np.sqrt(np.clip(lr, 0, None))[:, None] * Vr.T
    lp, Vp = np.linalg.eigh((Pv + Pv.T) / 2)
    lp = np.where(lp > 1e-12 * max(lp.max(), 1e-300), lp, 0.0)
    Ep = np.sqrt(lam * lp)[:, None] * Vp.T
    M = np.vstack([np.sqrt(wv)[:, None] * B, Er, Ep])
    rhs = np.concatenate([np.sqrt(wv) * y, np.zeros(2 * m)])
    Q, Rr = np.linalg.qr(M)
    sv = np.linalg.svd(Rr, compute_uv=False)
    condM = float(sv.max() / max(sv.min(), 1e-300))
    if not np.isfinite(condM) or sv.min() == 0:
        raise np.linalg.LinAlgError('stacked system numerically singular')
    beta = sla.solve_triangular(Rr, Q.T @ rhs)
    Y = sla.solve_triangular(Rr, Q[:n].T)
    return dict(beta=beta, condM=condM, edof=float(np.sum(Q[:n] ** 2)), K=float(np.linalg.norm(Y, 2)))


def _split_fit(B, R, Pv, lam, wv, y):
    """penalised WLS with the penalty R + lam Pv entered as two stacked factors [E_R; sqrt(lam) E_P] — accurate at any lam
    because R + lam Pv (whose small eigenvalues drown in the rounding of the large ones) is never formed"""
    lr, Vr = np.linalg.eigh((R + R.T) / 2)
    Er = np.sqrt(np.clip(lr, 0, None))[:, None] * Vr.T
    lp, Vp = np.linalg.eigh((Pv + Pv.T) / 2)
    lp = np.where(lp > 1e-12 * max(lp.max(), 1e-300), lp, 0.0)
    Ep = np.sqrt(lam * lp)[:, None] * Vp.T
    M = np.vstack([np.sqrt(wv)[:, None] * B, Er, Ep])
    rhs = np.concatenate([np.sqrt(wv) * y, np.zeros(2 * B.shape[1])])
    return np.linalg.lstsq(M, rhs, rcond=None)[0]


def _null_fit(B, R, Pv, wv, y):
    """argmin of RSS + b'Rb over the null space of Pv (NumPy only); also the smallest non-zero eigenvalue of Pv"""
    lamP, V = np.linalg.eigh((Pv + Pv.T) / 2)
    top = max(lamP.max(), 0.0)
    null = lamP <= 1e-10 * max(top, 1e-300)
    Z = V[:, null]
    gmin = float(lamP[~null].min()) if (~null).any() else None
    if Z.shape[1] == 0:
        return np.zeros(B.shape[1]), gmin, 0, float(np.linalg.norm(R, 2))
    G = B.T @ (wv[:, None] * B)
    NZ = Z.T @ (G + R) @ Z
    a = np.linalg.lstsq(NZ, Z.T @ (B.T @ (wv * y)), rcond=None)[0]
    return Z @ a, gmin, int(Z.shape[1]), float(np.linalg.eigvalsh((NZ + NZ.T) / 2).min())


def _q(x):
    return termgen.q(x)


def _lb(x):
    """histogram bucket: floor(log10 x), or a label for 0 / non-finite"""
    with np.errstate(all='ignore'):
        if not np.isfinite(x):
            return 'non-finite'
        if x <= 0:
            return 'zero'
        v = np.floor(np.log10(x))
        return int(v) if np.isfinite(v) else 'zero'


def _qs(a):
    return ' '.join(termgen.q(v) for v in np.asarray(a, dtype=float).ravel())


def _worker(case):
    try:
        return _worker_(case)
    except np.linalg.LinAlgError as e:       # of the NumPy oracle formulas, not of pyGAM (fit_quiet catches those)
        return dict(case=case, status='oracle-linalg-error', msg=str(e)[:100])


def _worker_(case):
    import warnings
    warnings.filterwarnings('ignore')
    pygam = common.import_pygam()
    try:
        prob = _problem(case, pygam)
    except ValueError as e:
        return dict(case=case, status='generator-rejected', msg=str(e)[:100])
    n, m = prob['n'], prob['m']
    wv = np.ones(n) if prob['w'] is None else np.asarray(prob['w'], dtype=np.float32).astype(float)
    y = prob['y']
    # the varied penalty with unit lam, and the fixed part, from the real build_penalties
    Pv = _dense(_terms_with(prob['tl'], prob['unit']).build_penalties())
    Pfix = _dense(_terms_with(prob['tl'], prob['fixed']).build_penalties())
    R = Pfix + SQRT_EPS * np.eye(m)
    G = None
    if case.get('route') == 'gridsearch':
        try:
            prob['gs_models'], prob['gs_l2'] = _gridsearch_models(prob, case, pygam, prob['grid'])
        except ValueError as e:
            return dict(case=case, status='ValueError', msg='gridsearch: ' + str(e)[:150], desc=prob['desc'])
    pts = []
    far_status = 'ok'
    for lam in prob['grid']:
        f = _fit_at(prob, case, pygam, lam)
        if f['status'] in ('ValueError', 'OptimizationError') and lam >= 1e8 and pts:
            far_status = f['status']          # the far point may legitimately be refused; the 12 decades may not
            continue
        if f['status'] != 'ok':
            return dict(case=case, status=f['status'], msg=f.get('msg', '')[:200], lam=lam, desc=prob['desc'])
        B = f['B']
        if G is None:
            G = B.T @ (wv[:, None] * B)
            B0 = B
        A = f['P'] + SQRT_EPS * np.eye(m)
        beta = f['coef']
        mu = f['mu']
        rss = float(np.sum(wv * (y - mu) ** 2))
        J = float(beta @ Pv @ beta)
        Rq = float(beta @ R @ beta)
        N = G + A
        ev = np.linalg.eigvalsh((N + N.T) / 2)
        cond = float(ev.max() / max(ev.min(), 1e-300))
        pos = wv > 0          # rows with zero weight are extrapolations: not protected by the stability of the LS fit
        sc = 1.0 + np.abs(mu[pos]).max()
        try:
            orc = _oracle(B, R, Pv, lam, wv, y)
            mucf, condM, edof_np = B @ orc['beta'], orc['condM'], orc['edof']
            acc = _acc(condM, float(np.linalg.norm(A, 2)), float(np.linalg.norm(beta)), float(np.abs(mu[pos]).max()), orc['K'], float(wv[pos].min()))
        except np.linalg.LinAlgError:
            mucf, condM, edof_np, acc = mu, float('inf'), f['edof'], float('inf')        # NumPy oracle unusable: point not judged
        grad = B.T @ (wv * (y - mu)) - A @ beta
        rhs = B.T @ (wv * y)
        pts.append(dict(lam=lam, conv=f['conv'], fallback=f['fallback'], l2=f['l2'], acc=acc, edof=f['edof'], edof_np=edof_np, rss=rss, J=J, Rq=Rq, cond=cond, condM=condM,
                        d_cf=float(np.abs(mu - mucf)[pos].max() / sc), d_lin=float(np.abs(f['P'] - (Pfix + lam * Pv)).max() / (1e-300 + np.abs(f['P']).max() + np.abs(Pfix).max())),
                        d_B=float(np.abs(B - B0).max()), d_mu=float(np.abs(B @ beta - mu).max() / sc),
                        be=float(np.linalg.norm(grad) / (np.linalg.norm(N, 2) * np.linalg.norm(beta) + np.linalg.norm(rhs) + 1e-300)),
                        bnorm2=float(beta @ beta), coef=beta, mu=mu, muq=f['muq'], A=A,
                        nscale=float(np.linalg.norm(N, 2) * np.linalg.norm(beta) + np.linalg.norm(rhs))))
    res = dict(case=case, status='ok', desc=prob['desc'], varied=prob['varied'], n=n, m=m, pts=pts, far_status=far_status,
               other_pen=float(np.abs(Pfix).max()), pv_zero=bool(np.abs(Pv).max() == 0), pv_norm=float(np.linalg.norm(Pv, 2)), ynorm=float(np.sqrt(np.sum(wv * y * y))))
    # ---- the limit.  lam_big = the largest of 1e10 … 1e3 at which the problem is still well enough conditioned for a
    # double-precision solve to mean something (accuracy model <= 1e-4).  Whether that lam is "in the limit" is decided by mathematics alone: the NumPy
    # closed form at lam_big must be within 1e-3 of the NumPy null-space fit, otherwise only the squeeze inequalities
    # are judged.
    beta0, gmin, dim0, mu0min = _null_fit(B0, R, Pv, wv, y)
    res['null_dim'] = dim0
    if gmin is not None:
        mu0 = B0 @ beta0
        F0 = float(np.sum(wv * (y - mu0) ** 2) + beta0 @ R @ beta0)
        lim = None
        for lam_big in (1e10, 1e9, 1e8, 1e7, 1e6, 1e5, 1e4, 1e3):
            Al = R + lam_big * Pv
            try:
                orc = _oracle(B0, R, Pv, lam_big, wv, y)
            except np.linalg.LinAlgError:
                continue
            bcf = orc['beta']
            acc = _acc(orc['condM'], float(np.linalg.norm(Al, 2)), float(np.linalg.norm(bcf)), float(np.abs((B0 @ bcf)[wv > 0]).max()), orc['K'], float(wv[wv > 0].min()))
            if acc > 1e-4:
                continue
            f = _fit_at(prob, case, pygam, lam_big)
            if f['status'] != 'ok':
                lim = dict(status=f['status'])
                break
            beta = f['coef']
            pos = wv > 0
            sc = 1 + np.abs(mu0[pos]).max()
            lim = dict(lam=lam_big, conv=f['conv'], fallback=f['fallback'], l2=f['l2'], F0=F0, acc=acc, judge_query=bool(n >= 2 * m),
                       Fl=float(np.sum(wv * (y - f['mu']) ** 2) + beta @ R @ beta), Jl=float(beta @ Pv @ beta),
                       dist2=float(np.sum(wv * (f['mu'] - mu0) ** 2)),
                       d_theory=float(np.abs(B0 @ bcf - mu0)[pos].max() / sc),
                       d_train=float(np.abs(f['mu'] - mu0)[pos].max() / sc),
                       d_query=float(np.abs(f['muq'] - f['Bq'] @ beta0).max() / (1 + np.abs(f['Bq'] @ beta0).max())),
                       d_theory_q=float(np.abs(f['Bq'] @ bcf - f['Bq'] @ beta0).max() / (1 + np.abs(f['Bq'] @ beta0).max())),
                       edof=f['edof'])
            if case['default_spline']:
                # independent statement for the documented default: the weighted straight-line fit in x (np.polyfit)
                x = prob['X'][:, 0]
                keep = wv > 0
                pc = np.polyfit(x[keep], y[keep], 1, w=np.sqrt(wv[keep]))
                line = np.polyval(pc, x)
                lq = np.polyval(pc, prob['Xq'][:, 0])
                lim['d_line'] = float(np.abs(f['mu'] - line)[keep].max() / (1 + np.abs(line[keep]).max()))
                lim['d_line_q'] = float(np.abs(f['muq'] - lq).max() / (1 + np.abs(lq).max()))
            break
        res['limit'] = lim
    if case['default_spline'] and n >= 2 * m:
        # the documented default, enough data: far beyond the grid (lam = 1e11) the fit must still be the straight line
        f = _fit_at(prob, case, pygam, 1e11)
        if f['status'] == 'ok' and f['conv']:
            x = prob['X'][:, 0]
            keep = wv > 0
            pc = np.polyfit(x[keep], y[keep], 1, w=np.sqrt(wv[keep]))
            line = np.polyval(pc, x)
            sc = 1 + np.abs(line[keep]).max()
            # the second-difference penalty written down independently (NumPy), scaled like the varied part
            k_ = m - 1
            D = np.diff(np.eye(k_), 2, axis=0)
            Pind = np.zeros((m, m))
            Pind[:k_, :k_] = D.T @ D * float(max(prob['unit'].values()))
            res['far_line'] = dict(lam=1e11, fallback=f['fallback'], l2=f['l2'], d_line=float(np.abs(f['mu'] - line)[keep].max() / sc),
                                   d_theory=float(np.abs(B0 @ _split_fit(B0, R, Pind, 1e11, wv, y) - line)[keep].max() / sc))
    # ---- driver operations: two points of the path
    if n * m <= 4000 and m <= 40:
        ops = []
        toksJ = ' '.join(termgen.encode_terms(_terms_with(prob['tl'], prob['unit'])))
        for pi in (0, len(pts) - 1, len(pts) // 2):
            p = pts[pi]
            ops.append(('quad', pi, 'C13 quad %s | %s' % (toksJ, _qs(p['coef']))))
        for pi in sorted({0, len(pts) - 1, max(len(pts) - 2, 0)}):
            p = pts[pi]
            ops.append(('neq', pi, 'C13 neq %d %d | %s | %s | %s | %s | %s' % (n, m, _qs(B0), _qs(p['A']), _qs(wv), _qs(y), _qs(p['coef']))))
        res['ops'] = ops
    for p in pts:
        p.pop('A')
    return res


# ---------------------------------------------------------------------------------------------------------
# judging
# ---------------------------------------------------------------------------------------------------------
def _acc(condM, normA, normb, mumax, K, wmin):
    """relative accuracy to which the fitted values (and what is computed from them) of one fit can be trusted:
    (i) the least-squares solve on M = [sqrt(W)B; E]: eps cond(M);
    (ii) the factor E of A = S + P (Cholesky, or the eigen-factor used when Cholesky breaks down) carries an error
        |dA| ~ eps |A|, a perturbation of the penalty that moves the weighted fitted values by at most K |dA| |beta| with
        K = |sqrt(W) B N^-1|_2 (computed by the NumPy oracle; K <= 1 / (2 eps^(1/4)) because v'Av >= sqrt(eps)).
    Clean tree (1200 paths, lam = 1 … 1e10): every judged distance from the oracle <= 0.21 x max(1e-7, this).
    Floor 1e-9 as in DESIGN 3.4."""
    ii = 10 * EPS * normA * normb / (1 + mumax) * min(K / np.sqrt(wmin), 1 / (2 * EPS ** 0.25))
    return max(1e-9, 10 * EPS * condM, ii)


def _tol(p, q):
    return max(p['acc'], q['acc'])


def _judge_path(r):
    """-> (violations of the theorems' statements, decreases of the RSS alone (the literal sentence))"""
    fails, literal = [], []
    pts = r['pts']
    pn = r['pv_norm']
    r['judged_pairs'] = 0
    for a, b in zip(pts[:-1], pts[1:]):
        tau = _tol(a, b)
        if tau > 1e-3:
            continue
        r['judged_pairs'] += 1
        t = 10 * tau                    # x10 safety margin
        Fa, Fb = a['rss'] + a['Rq'], b['rss'] + b['Rq']
        sF = max(abs(Fa), abs(Fb), r['ynorm'] ** 2) + 1e-300
        if b['edof'] > a['edof'] + t * (1 + abs(a['edof'])):
            fails.append('edof increases from %.12g (lam %.3g) to %.12g (lam %.3g)' % (a['edof'], a['lam'], b['edof'], b['lam']))
        if Fb < Fa - t * sF:
            if r['other_pen'] == 0:
                fails.append('weighted RSS decreases from %.12g (lam %.3g) to %.12g (lam %.3g) by more than the sqrt(eps)-ridge term gains (nothing else is penalised)' % (a['rss'], a['lam'], b['rss'], b['lam']))
            else:
                fails.append('RSS + fixed penalties decreases from %.12g (lam %.3g) to %.12g (lam %.3g)' % (Fa, a['lam'], Fb, b['lam']))
        # J = beta'P beta with coefficients accurate to tau (relative, in norm): |dJ| <= 2 tau sqrt(J |P|) |beta| + tau² |P| |beta|²
        noise = sum(2 * tau * np.sqrt(max(q['J'], 0.0) * pn * q['bnorm2']) + tau * tau * pn * q['bnorm2'] for q in (a, b))
        if b['J'] - a['J'] > 10 * noise + 1e-300:
            fails.append('penalty value increases from %.12g (lam %.3g) to %.12g (lam %.3g)' % (a['J'], a['lam'], b['J'], b['lam']))
        if b['rss'] < a['rss'] - t * sF:
            # the sentence as stated (RSS alone); the theorem allows a decrease of at most the gain of the fixed penalties,
            # which the check of F above enforces
            literal.append(dict(lam=(a['lam'], b['lam']), rss=(a['rss'], b['rss']), rel=(a['rss'] - b['rss']) / sF))
    return fails, literal


KNOWN_RSS = 'C13-rss-decreases-with-other-penalties-fixed'
KNOWN_REPRO = ("LinearGAM(l(0, lam=L) + l(1, lam=1), fit_intercept=False, tol=1e-10).fit([[1, 1], [1, 0]], [1, 0]): "
               "L = 0 -> coef (1/3, 1/3), RSS 2/9 = 0.2222; L = 1 -> coef (1/5, 2/5), RSS 1/5 = 0.2000 "
               "(RSS + fixed penalty 1 * coef[1]^2: 0.3333 -> 0.3600, non-decreasing as the theorem says)")


def _known(ctx, stream, descr, case, observed, expected, oracle, limit=3):
    """the recorded known finding (known_findings.json, selector {'known': KNOWN_RSS}): the sentence 'increasing any
    smoothing parameter never decreases the weighted RSS' is false of every exact solver when another penalty is held
    fixed; the first occurrences are reported as failing inputs, the others are counted"""
    seen = ctx.extra.setdefault('known_reported', {})
    ctx.count('known finding', KNOWN_RSS)
    if seen.get(KNOWN_RSS, 0) >= limit:
        return
    seen[KNOWN_RSS] = seen.get(KNOWN_RSS, 0) + 1
    ctx.fail(stream, dict(known=KNOWN_RSS, **descr), dict(case, minimal_reproduction=KNOWN_REPRO), observed=observed, expected=expected, oracle=oracle)


def _witness(ctx, stream, st_neq):
    """the deterministic 2 x 2 witness of the known finding, on the real code and on the model (theorem
    PyGam.C13.rss_not_monotone_in_general: the same numbers, exact)"""
    import warnings
    pygam = common.import_pygam()
    from pygam import LinearGAM, l
    X = np.array([[1.0, 1.0], [1.0, 0.0]])
    y = np.array([1.0, 0.0])
    exact = {0.0: (np.array([1 / 3, 1 / 3]), Fraction(2, 9)), 1.0: (np.array([1 / 5, 2 / 5]), Fraction(1, 5))}
    real = {}
    for lam1 in (0.0, 1.0):
        with warnings.catch_warnings():
            warnings.simplefilter('ignore')
            gam = LinearGAM(l(0, lam=lam1) + l(1, lam=1.0), fit_intercept=False, tol=1e-10).fit(X, y)
        coef = np.asarray(gam.coef_, dtype=float).ravel()
        mu = np.asarray(gam.predict(X), dtype=float)
        real[lam1] = dict(coef=coef, rss=float(np.sum((y - mu) ** 2)), F=float(np.sum((y - mu) ** 2) + coef[1] ** 2 + SQRT_EPS * coef @ coef))
    ops = ['C13 neq 2 2 | 1 1 1 0 | 0 0 0 1 | 1 1 | 1 0 | 1/3 1/3', 'C13 neq 2 2 | 1 1 1 0 | 1 0 0 1 | 1 1 | 1 0 | 1/5 2/5']
    outs = ctx.driver.run(ops)
    sig = dict(witness='2x2')
    ctx.case(st_neq, dict(witness='2x2'), nontrivial=True)
    model_ok = True
    for o, lam1 in zip(outs, (0.0, 1.0)):
        parts = [] if o == 'bad-op' else [Fraction(t.strip()) for t in o.split('|')]
        if len(parts) != 4 or parts[0] != exact[lam1][1] or parts[2] != 0:
            model_ok = False
            ctx.disagree(st_neq, sig, 'n/a', o, 'the model does not reproduce the witness of rss_not_monotone_in_general (RSS %s, residual 0 expected)' % exact[lam1][1])
    ctx.case(stream, sig, nontrivial=True, sample=dict(witness=KNOWN_REPRO))
    mism = max(float(np.abs(real[k]['coef'] - exact[k][0]).max()) for k in real)
    if mism > 1e-6:
        ctx.fail(stream, dict(kind='witness-mismatch'), dict(witness=KNOWN_REPRO), observed={str(k): dict(coef=v['coef'].tolist(), rss=v['rss']) for k, v in real.items()},
                 expected='coefficients (1/3, 1/3) and (1/5, 2/5): the penalised least-squares solutions', oracle='exact solution of the 2 x 2 normal equations')
    elif real[1.0]['rss'] < real[0.0]['rss'] - 1e-9 and real[1.0]['F'] >= real[0.0]['F'] - 1e-9 and model_ok:
        _known(ctx, stream, dict(kind='witness'), dict(witness='2x2'),
               observed='weighted RSS %.10f at lam = 0 -> %.10f at lam = 1 (decreases); RSS + fixed penalties %.10f -> %.10f (does not)' % (real[0.0]['rss'], real[1.0]['rss'], real[0.0]['F'], real[1.0]['F']),
               expected='the sentence as written: increasing any smoothing parameter never decreases the weighted RSS', oracle='real LinearGAM fits; exact model values 2/9 -> 1/5')


# ---------------------------------------------------------------------------------------------------------
# judged against the REQUESTED penalty: smoothing parameters given through the te(...) keyword, and the smallest bases
# ---------------------------------------------------------------------------------------------------------
# The random paths above take the varied / fixed penalty matrices from the library's own build_penalties (what is judged
# there is the fit GIVEN the penalty).  Here the penalty is written down in NumPy from the request alone: a term asked for
# `lam` and the default ('auto') penalty of a numerical spline term — the second-difference penalty D2'D2, which is the
# EMPTY penalty on fewer than 3 coefficients — must be fitted with exactly lam * D2'D2 (tensor term: sum over the
# marginals of lam_j * I x … x D2'D2 x … x I).  Whatever is lost, replaced or reinterpreted between the public
# constructor and the solve (a falsy value taken for "not given", an entry of a per-marginal list dropped, a different
# difference order on a small basis) shows up as a fit that is not the penalised WLS fit that was requested.
REQ_GRID = (0.0, 1e-3, 0.1, 10.0, 1e3, 1e6)


def _req_value(v, L, int_zero):
    if isinstance(v, (list, tuple)):
        return [_req_value(u, L, int_zero) for u in v]
    if v == 'L':
        return 0 if (L == 0 and int_zero) else float(L)       # the integer 0 and 0.0 are the same request
    return v


def _req_terms(spec, L, pygam):
    """the model terms of `spec` at path parameter L, built through the public constructors s(...) / te(...)"""
    out = None
    for d in spec['terms']:
        kw = {k: _req_value(v, L, spec['int_zero']) for k, v in d['kw'].items()}
        t = pygam.te(*d['features'], **kw) if d['t'] == 'te' else pygam.s(d['features'][0], **kw)
        out = t if out is None else out + t
    return out


def _d2(k):
    D = np.diff(np.eye(int(k)), 2, axis=0)          # (k - 2) x k; no rows when k < 3: nothing is penalised
    return D.T @ D


def _req_penalty(spec, L):
    """NumPy, from the request alone: block diagonal of the term penalties (+ one unpenalised intercept column)"""
    blocks = []
    for d in spec['terms']:
        nm = len(d['features'])
        def per(key, default):
            v = d['kw'].get(key, default)
            v = list(v) if isinstance(v, (list, tuple)) else [v] * nm
            return v
        ks = per('n_splines', 10 if d['t'] == 'te' else 20)
        lams = [float(L) if v == 'L' else float(v) for v in per('lam', 0.6)]
        pens = per('penalties', 'auto')
        m = int(np.prod(ks))
        P = np.zeros((m, m))
        for j in range(nm):
            Pj = _d2(ks[j]) if pens[j] == 'auto' else np.zeros((ks[j], ks[j]))       # None / 'none': no penalty
            T = np.eye(1)
            for i in range(nm):
                T = np.kron(T, Pj if i == j else np.eye(ks[i]))
            P += lams[j] * T
        blocks.append(P)
    m = sum(b.shape[0] for b in blocks) + 1
    out = np.zeros((m, m))
    o = 0
    for b in blocks:
        out[o:o + b.shape[0], o:o + b.shape[0]] = b
        o += b.shape[0]
    return out


def gen_requested(rng, tier):
    """every template in every run (the zeros, the lists and the small bases do not depend on the draw); sizes, fixed
    values, data and weights are drawn"""
    ordinary = [0.6, 1.0, 2.0, 0.015625, 2.5, 10.0]
    specs = []

    def add(kind, name, terms, **kw):
        d = dict(kind=kind, name=name, terms=terms, seed=rng.randrange(10 ** 9), cls=('LinearGAM', 'GAM')[len(specs) % 2],
                 n=rng.choice([150, 400]), weights_mode=rng.choice(['none', 'pos', 'zeros']), int_zero=(len(specs) % 3 != 1),
                 unit=rng.choice([0.01, 1.0, 100.0]), grid=list(REQ_GRID))
        d.update(kw)
        specs.append(d)

    reps = 1 if tier == 'quick' else 6
    for _ in range(reps):
        k2 = lambda: [rng.choice([4, 5, 6, 7]), rng.choice([4, 5, 6])]
        c = lambda: rng.choice(ordinary)
        te = lambda feats, **kw: [dict(t='te', features=feats, kw=kw)]
        # ---- smoothing parameters through the te(...) keyword: scalar, per-marginal lists, exact zeros
        add('te-kw', 'te(lam=L)', te([0, 1], n_splines=k2(), lam='L'))
        add('te-kw', 'te(lam=L), default n_splines', te([0, 1], lam='L'), n=400)
        add('te-kw', 'te(lam=[L, c])', te([0, 1], n_splines=k2(), lam=['L', c()]))
        add('te-kw', 'te(lam=[c, L])', te([0, 1], n_splines=k2(), lam=[c(), 'L']))
        add('te-kw', 'te(lam=[L, 0])', te([0, 1], n_splines=k2(), lam=['L', 0]))
        add('te-kw', 'te(lam=[0, L])', te([0, 1], n_splines=k2(), lam=[0.0, 'L']))
        add('te-kw', 'te(lam=[L, L])', te([0, 1], n_splines=k2(), lam=['L', 'L']))
        add('te-kw', 'te(0, 1, 2, lam=[L, 0, c])', te([0, 1, 2], n_splines=[4, 4, rng.choice([4, 5])], lam=['L', 0, c()]))
        add('te-kw', 'te(lam=L, penalties=[None, auto])', te([0, 1], n_splines=k2(), lam='L', penalties=[None, 'auto']))
        add('te-kw', 'te(lam=[0, L], spline_order=[0, 2])', te([0, 1], n_splines=k2(), lam=[0, 'L'], spline_order=[0, 2]))
        add('te-kw', 'te(lam=[0, L]) + s(2, lam=c)', te([0, 1], n_splines=k2(), lam=[0, 'L']) + [dict(t='s', features=[2], kw=dict(n_splines=6, lam=c()))])
        add('te-kw', 's(2, lam=c) + te(lam=[L, 0])', [dict(t='s', features=[2], kw=dict(n_splines=6, lam=c()))] + te([0, 1], n_splines=k2(), lam=['L', 0]))
        # ---- the smallest bases: n_splines = 2 (second differences do not exist: lam has no effect, edof stays 2),
        # n_splines = 3 (one second difference: the limit is the straight line in the coefficient index), order 0 / 1 / 2
        for nsp, order in [(2, 1), (2, 0), (3, 0), (3, 1), (3, 2), (4, 1), (4, 3)]:
            add('small-basis', 's(n_splines=%d, spline_order=%d, lam=L)' % (nsp, order), [dict(t='s', features=[0], kw=dict(n_splines=nsp, spline_order=order, lam='L'))])
        for nsp, order in [(2, 1), (2, 0), (3, 1)]:
            add('small-basis', 's(n_splines=%d, spline_order=%d, lam=L) + s(1, lam=c)' % (nsp, order),
                [dict(t='s', features=[0], kw=dict(n_splines=nsp, spline_order=order, lam='L')), dict(t='s', features=[1], kw=dict(n_splines=rng.choice([5, 8]), lam=c()))])
        add('small-basis', 'te(n_splines=[2, k], spline_order=[1, 3], lam=[L, c])', te([0, 1], n_splines=[2, rng.choice([5, 6])], spline_order=[1, 3], lam=['L', c()]))
        add('small-basis', 'te(n_splines=[3, 2], spline_order=[1, 0], lam=[L, L])', te([0, 1], n_splines=[3, 2], spline_order=[1, 0], lam=['L', 'L']))
    return specs


def _req_worker(spec):
    import warnings
    warnings.filterwarnings('ignore')
    from harness.gen import fitgen
    pygam = common.import_pygam()
    rs = np.random.default_rng(spec['seed'])
    n = spec['n']
    X = np.c_[rs.uniform(0, 1, n), rs.uniform(-2, 3, n), rs.uniform(10, 20, n)]
    y = spec['unit'] * (np.sin(5 * X[:, 0]) * (1 + 0.5 * X[:, 1]) + 0.3 * np.cos(X[:, 2]) + 0.5 * X[:, 0] + 0.4 * rs.normal(size=n))
    wm = spec['weights_mode']
    w = None if wm == 'none' else (rs.choice([0.25, 0.5, 1.0, 2.0, 4.0], size=n) if wm == 'pos' else rs.choice([0.0, 1.0, 2.0], size=n, p=[0.15, 0.55, 0.3]))
    wv = np.ones(n) if w is None else w.astype(float)
    pos = wv > 0
    ysc = float(np.abs(y[pos]).max())
    P0 = _req_penalty(spec, 0.0)
    Pvar = _req_penalty(spec, 1.0) - P0
    m = P0.shape[0]
    R = P0 + SQRT_EPS * np.eye(m)
    kw = dict(tol=1e-10, max_iter=300)
    if spec['cls'] == 'GAM':
        kw.update(distribution='normal', link='identity')

    def fit(L):
        try:
            gam = getattr(pygam, spec['cls'])(_req_terms(spec, L, pygam), **kw)
        except ValueError as e:
            return dict(status='ValueError', msg=str(e)[:200])
        status, out = fitgen.fit_quiet(gam, X, y, w)
        if status != 'ok':
            return dict(status=status, msg=out)
        coef = np.asarray(gam.coef_, dtype=float).ravel()
        B = _dense(gam.terms.build_columns(X))          # the model's own model matrix
        if len(coef) != m or B.shape[1] != m or not np.isfinite(coef).all():
            return dict(status='coef-count', msg='model has %d coefficients, the request has %d' % (len(coef), m))
        return dict(status='ok', conv=('did not converge' not in out), coef=coef, B=B, mu=np.asarray(gam.predict_mu(X), dtype=float),
                    edof=float(gam.statistics_['edof']), P=_dense(gam.terms.build_penalties()))

    pts = []
    B0 = None
    for L in spec['grid']:
        f = fit(L)
        if f['status'] != 'ok':
            return dict(spec=spec, status=f['status'], msg=f.get('msg', ''), lam=L)
        B, beta, mu = f['B'], f['coef'], f['mu']
        B0 = B if B0 is None else B0
        orc = _oracle(B, R, Pvar, L, wv, y)
        A = R + L * Pvar
        acc = _acc(orc['condM'], float(np.linalg.norm(A, 2)), float(np.linalg.norm(beta)), float(np.abs(mu[pos]).max()), orc['K'], float(wv[pos].min()))
        pts.append(dict(lam=L, conv=f['conv'], acc=acc, edof=f['edof'], edof_np=orc['edof'], rss=float(np.sum(wv * (y - mu) ** 2)),
                        Rq=float(beta @ R @ beta), J=float(beta @ Pvar @ beta), bnorm2=float(beta @ beta),
                        d_cf=float(np.abs(mu - B @ orc['beta'])[pos].max() / ysc), d_B=float(np.abs(B - B0).max()),
                        d_pen=float(np.abs(f['P'] - (P0 + L * Pvar)).max() / (1e-300 + np.abs(P0 + L * Pvar).max() + np.abs(f['P']).max()))))
    res = dict(spec=spec, status='ok', pts=pts, m=m, other_pen=float(np.abs(P0).max()), pv_zero=bool(np.abs(Pvar).max() == 0),
               pv_norm=float(np.linalg.norm(Pvar, 2)), ynorm=float(np.sqrt(np.sum(wv * y * y))))
    # ---- the limit: the weighted least-squares fit within the unpenalised space of the REQUESTED varied penalty (all of
    # the coefficient space when that penalty is empty), at the largest lam at which a double-precision solve means something
    beta0, gmin, dim0, _ = _null_fit(B0, R, Pvar, wv, y)
    mu0 = B0 @ beta0
    res['null_dim'] = dim0
    for lam_big in (1e9, 1e8, 1e7, 1e6, 1e5, 1e4, 1e3):
        orc = _oracle(B0, R, Pvar, lam_big, wv, y)
        acc = _acc(orc['condM'], float(np.linalg.norm(R + lam_big * Pvar, 2)), float(np.linalg.norm(orc['beta'])), float(np.abs((B0 @ orc['beta'])[pos]).max()), orc['K'], float(wv[pos].min()))
        if acc > 1e-4:
            continue
        f = fit(lam_big)
        if f['status'] != 'ok':
            res['limit'] = dict(status=f['status'], lam=lam_big)
            break
        # edof of the limit: trace of the hat matrix of the fit restricted to the unpenalised space (NumPy)
        lamP, V = np.linalg.eigh((Pvar + Pvar.T) / 2)
        Z = V[:, lamP <= 1e-10 * max(lamP.max(), 1e-300)]
        Gz = Z.T @ (B0.T @ (wv[:, None] * B0)) @ Z
        edof0 = float(np.trace(np.linalg.solve(Gz + Z.T @ R @ Z, Gz)))
        res['limit'] = dict(status='ok', lam=lam_big, conv=f['conv'], acc=acc, edof=f['edof'], edof0=edof0, edof_np=orc['edof'],
                            d_theory=float(np.abs(B0 @ orc['beta'] - mu0)[pos].max() / ysc), d_train=float(np.abs(f['mu'] - mu0)[pos].max() / ysc))
        break
    return res


def _judge_requested(r):
    """-> list of (clause, text) on which the real fits contradict the property for the requested smoothing parameters"""
    bad = []
    pts = r['pts']
    if not all(p['conv'] for p in pts):
        return None
    # lam = 0 (and every other lam): the penalised WLS fit for the penalty that was asked for
    for p in pts:
        if p['acc'] > 1e-3:
            continue
        t = 10 * max(1e-7, p['acc'])
        if p['d_cf'] > t:
            bad.append(('lam-zero' if p['lam'] == 0 else 'closed-form',
                        'path parameter L = %.3g: fitted values differ by %.3g x max|y| from the penalised weighted least-squares fit for the requested smoothing parameters%s (penalty matrix of the model differs from the requested one by %.3g relative)'
                        % (p['lam'], p['d_cf'], ' — at 0: unpenalised WLS on the basis' if p['lam'] == 0 else '', p['d_pen'])))
        elif abs(p['edof'] - p['edof_np']) > t * (1 + abs(p['edof_np'])):
            bad.append(('edof', 'path parameter L = %.3g: statistics_[edof] = %.10g, trace of the hat matrix for the requested smoothing parameters = %.10g' % (p['lam'], p['edof'], p['edof_np'])))
    # monotone along the path of REAL fits (nothing but the fits themselves and the requested fixed part enter)
    fails, _lit = _judge_path(r)
    bad += [('monotone', f_) for f_ in fails]
    lim = r.get('limit')
    if lim and lim.get('status') == 'ok' and lim['conv'] and lim['d_theory'] <= 1e-3:
        tl_ = 10 * max(1e-7, 10 * lim['acc'])
        if lim['d_train'] > 10 * (lim['d_theory'] + tl_):
            bad.append(('limit', 'L = %.3g: fitted values differ by %.3g x max|y| from the weighted least-squares fit within the unpenalised space (dimension %d of %d) of the requested penalty; the penalised WLS solution itself is within %.3g'
                        % (lim['lam'], lim['d_train'], r['null_dim'], r['m'], lim['d_theory'])))
        # edof of the limit (e.g. 2 for two coefficients under a second-difference penalty, whatever lam)
        elif abs(lim['edof'] - lim['edof0']) > 10 * (abs(lim['edof_np'] - lim['edof0']) + tl_ * (1 + lim['edof0'])):
            bad.append(('limit-edof', 'L = %.3g: edof = %.10g, but the fit within the unpenalised space of the requested penalty has %.10g (hat matrix for the requested penalty at this lam: %.10g)' % (lim['lam'], lim['edof'], lim['edof0'], lim['edof_np'])))
    return bad


def run_requested(ctx, pool_size=16):
    st_te, st_sb = 'route.te-keyword', 'limit.small-basis'
    ctx.stream(st_te, 'tensor terms with lam given through the te(...) keyword (scalar, per-marginal lists, exact zeros, next to other keywords / terms), in every run: '
                      'along L = 0, 1e-3 … 1e6 fitted values and edof == NumPy closed form for the penalty built independently from the REQUESTED lam (model\'s own model matrix), '
                      'edof / RSS + fixed penalties monotone along the real fits starting at exactly 0, large-lam fit == WLS within the unpenalised space of the requested penalty')
    ctx.stream(st_sb, 'the smallest bases in every run (n_splines = 2, 3, 4 with spline_order 0 … 3, alone, next to another term and as a tensor marginal): the default penalty is the second-difference '
                      'penalty written down in NumPy (empty on 2 coefficients); the same judgments — in particular as lam grows the fit tends to the WLS fit within that penalty\'s unpenalised space and edof to its dimension')
    specs = gen_requested(ctx.subrng('requested'), ctx.tier)
    with mp.get_context('fork').Pool(min(pool_size, len(specs))) as pool:
        results = pool.map(_req_worker_safe, specs, chunksize=1)
    for r in results:
        spec = r['spec']
        st = st_te if spec['kind'] == 'te-kw' else st_sb
        sig = dict(spec=spec)
        ctx.count('requested-penalty cases', spec['name'])
        if r['status'] != 'ok':
            ctx.count('requested-penalty status', r['status'])
            ctx.case(st, sig, nontrivial=False)
            if r['status'] != 'oracle-linalg-error':
                # every request here is a valid one (the unchanged library fits them all): a refusal is a failing input too
                ctx.fail(st, dict(kind='not-fitted', exc=r['status'], name=spec['name']), dict(spec=spec, lam=r.get('lam')), observed='%s: %s' % (r['status'], r.get('msg', '')),
                         expected='a fit for a valid request', oracle='the request is a documented use of s(...) / te(...)')
            continue
        bad = _judge_requested(r)
        if bad is None:
            ctx.count('requested-penalty status', 'a fit did not converge')
            ctx.case(st, sig, nontrivial=False)
            continue
        ctx.case(st, sig, nontrivial=True, sample=dict(name=spec['name'], cls=spec['cls'], n=spec['n'], edof=[round(p['edof'], 6) for p in r['pts']]))
        ctx.count('requested-penalty: null space dimension of the varied part / coefficients', '%d / %d' % (r['null_dim'], r['m']))
        ctx.count('requested-penalty: log10(closed-form distance / tolerance)', _lb(max(p['d_cf'] / (10 * max(1e-7, p['acc'])) for p in r['pts'])))
        if r.get('limit', {}).get('status') == 'ok':
            ctx.count('requested-penalty: limit lam decade', _lb(r['limit']['lam']))
        if bad:
            r2 = _req_worker_safe(spec)          # re-executed on the real code
            bad2 = _judge_requested(r2) if r2['status'] == 'ok' else None
            if not bad2:
                ctx.count('not reproduced on re-execution', 'requested-penalty')
                continue
            ctx.fail(st, dict(kind=bad2[0][0], name=spec['name'], cls=spec['cls']), dict(spec=spec, m=r['m'], how='terms built by s(...) / te(...) with kw of spec.terms, "L" replaced by the path parameter; data from spec.seed (see _req_worker)'),
                     observed=[b[1] for b in bad2[:4]],
                     expected='for the smoothing parameters as requested: lam = 0 is unpenalised weighted least squares on the basis; edof non-increasing and RSS (+ fixed penalties) non-decreasing in lam; '
                              'as lam grows the fit tends to the WLS fit within the penalty\'s unpenalised space',
                     oracle='NumPy: thin QR of [sqrt(W)B; E] with B the model\'s own model matrix and E\'E = sqrt(eps) I + the penalty built from the request (second differences, Kronecker sums for tensor terms); null-space WLS')


def _req_worker_safe(spec):
    try:
        return _req_worker(spec)
    except np.linalg.LinAlgError as e:       # of the NumPy oracle formulas
        return dict(spec=spec, status='oracle-linalg-error', msg=str(e)[:100])


KNOWN_BLOCK = 'C13-edof-rises-within-one-tensor-block'


def _block_witness(ctx, st):
    """the deterministic witness of the recorded known finding KNOWN_BLOCK: marginal smoothing parameters of ONE tensor term
    1e15 apart; reported as the known finding when it reproduces, silent otherwise"""
    import contextlib
    import io
    from pygam import LinearGAM, te
    rs = np.random.RandomState(20260930)
    n = 200
    X = np.c_[rs.uniform(0, 1, n), rs.uniform(-1, 1, n)]
    y = np.sin(5 * X[:, 0]) * np.cos(3 * X[:, 1]) + 0.3 * rs.randn(n)
    ed = {}
    try:
        for L in (1e8, 1e12):
            with contextlib.redirect_stdout(io.StringIO()):
                g = LinearGAM(te(0, 1, n_splines=[6, 5], lam=[L, 1e-3]), tol=1e-10).fit(X, y)
            ed[L] = float(g.statistics_['edof'])
    except ValueError:
        ctx.count('within-block witness', 'ValueError')
        return
    ctx.case(st, dict(witness=KNOWN_BLOCK), nontrivial=True, sample=dict(edof=ed))
    if ed[1e12] > ed[1e8] + 1e-3 * (1 + ed[1e8]):
        ctx.count('known finding', KNOWN_BLOCK)
        ctx.fail(st, dict(known=KNOWN_BLOCK, kind='within-block'), dict(minimal_reproduction='LinearGAM(te(0, 1, n_splines=[6, 5], lam=[L, 1e-3])), L = 1e8 vs 1e12, RandomState(20260930) data'),
                 observed='edof %.6f at L = 1e8 -> %.6f at L = 1e12' % (ed[1e8], ed[1e12]), expected='edof non-increasing in lam (exact arithmetic: C13.edof_antitone)',
                 oracle='two real LinearGAM fits; the marginal lams are 1e15 apart inside one penalty block')
    else:
        ctx.count('within-block witness', 'not reproduced')


def run_extreme(ctx):
    """one smoothing parameter far beyond the others (1e12 … 1e16 next to ordinary values): in exact arithmetic edof is
    non-increasing along the path (theorem C13.edof_antitone) and the heavily penalised term has reached its limit long
    before; the other terms must keep the penalty they were given — a factorization that treats small eigenvalues of the
    WHOLE penalty as rounding noise lets them lose it"""
    import contextlib
    import io
    from pygam import LinearGAM, s, f, l
    st = 'path.extreme-ratio'
    ctx.stream(st, 'multi-term LinearGAM, one lam swept over 1e6, 1e9, 1e12, 1e14, 1e16 with the other terms at ordinary lam: edof never rises above its value at 1e9 '
                   '(1e-3 relative), fitted values stay at their 1e9 limit (1e-4 of the range of y)')
    ncase = 4 if ctx.tier == 'quick' else 24
    for k in range(ncase):
        rng = ctx.subrng('extreme', k)
        rs = np.random.RandomState(rng.getrandbits(32))
        n = rng.choice([120, 200])
        X = np.c_[rs.uniform(0, 1, n), rs.uniform(-1, 1, n), rs.randint(0, 3, n).astype(float)]
        X[:3, 2] = [0, 1, 2]
        y = np.sin(6 * X[:, 0]) + np.cos(4 * X[:, 1]) + 0.2 * X[:, 2] + 0.3 * rs.randn(n)
        lam_other = rng.choice([1.0, 0.6, 0.05])
        shape = k % 4
        def terms(L):
            if shape == 0:
                return s(0, lam=L) + s(1, lam=lam_other)
            if shape == 1:
                return s(1, lam=lam_other, n_splines=12) + s(0, lam=L, n_splines=15) + f(2, lam=lam_other)
            if shape == 2:
                return s(0, lam=lam_other) + s(1, lam=L, spline_order=2, n_splines=10) + l(2, lam=lam_other)
            return s(0, lam=L, basis='ps', penalties='l2') + s(1, lam=lam_other)
        sig = dict(shape=shape, n=n, lam_other=lam_other)
        ctx.case(st, sig, nontrivial=True)
        pts = []
        try:
            for L in (1e6, 1e9, 1e12, 1e14, 1e16):
                with contextlib.redirect_stdout(io.StringIO()):
                    g = LinearGAM(terms(L), tol=1e-10).fit(X, y)
                pts.append((L, float(g.statistics_['edof']), np.asarray(g.predict(X), dtype=float)))
        except ValueError as e:
            ctx.count('extreme-ratio path', 'ValueError: ' + str(e)[:40])
            continue
        ctx.count('extreme-ratio path', 'fitted')
        ref = [p_ for p_ in pts if p_[0] == 1e9][0]
        yr = float(y.max() - y.min())
        for (L, ed, pred) in pts:
            if L <= 1e9:
                continue
            bad = None
            if ed > ref[1] + 1e-3 * (1 + ref[1]):
                bad = 'edof rises from %.6f at lam = 1e9 to %.6f at lam = %.0e' % (ref[1], ed, L)
            elif np.abs(pred - ref[2]).max() > 1e-4 * yr:
                bad = 'fitted values move by %.3g (range of y %.3g) between lam = 1e9 and lam = %.0e' % (float(np.abs(pred - ref[2]).max()), yr, L)
            if bad:
                ctx.fail(st, dict(kind='extreme-ratio', shape=shape), dict(sig, lam=L, seed_key=k, X_seed='subrng(extreme, %d)' % k),
                         observed=bad, expected='edof non-increasing in lam; the other terms keep their own penalty',
                         oracle='real LinearGAM fits along the path (theorem C13.edof_antitone holds in exact arithmetic)')
                break


def run(ctx):
    common.import_pygam()
    st_mono, st_lit, st_cf, st_lim, st_lin = 'path.monotone', 'path.rss-literal', 'path.closed-form', 'limit.null-space', 'penalty.linear-in-lam'
    st_quad, st_neq = 'model.quad', 'model.neq'
    ctx.stream(st_mono, 'real fits along increasing lam (0, 1e-6…1e6; each penalty separately and jointly): edof non-increasing, RSS + fixed penalties non-decreasing, penalty value non-increasing (tolerance from the accuracy model of the solve; pairs above 1e-3 not judged)')
    ctx.stream(st_lit, 'the sentence as written: weighted RSS non-decreasing.  Nothing else penalised (all lams jointly / single penalty): enforced up to the gain of the sqrt(eps)-ridge term (theorem rss_monotone_up_to_fixed_penalties); another penalty fixed at a non-zero value: the sentence is false of every exact solver (theorem rss_not_monotone_in_general) — known finding %s, 2 x 2 witness executed on the real code and on the model in every run' % KNOWN_RSS)
    ctx.stream(st_cf, 'fitted values at every lam (incl. lam = 0) == NumPy lstsq on the augmented system [sqrt(W)B; E]; edof == trace of the hat matrix (thin QR)')
    ctx.stream(st_lim, 'at the largest well-conditioned lam (1e3…1e10): squeeze inequalities against the NumPy null-space WLS fit; where that lam is in the limit regime fitted values == null-space fit (np.polyfit straight line for the default spline term)')
    ctx.stream(st_lin, 'build_penalties() is fixed part + lam x varied part along the path; model matrix independent of lam')
    ctx.stream(st_quad, 'Lean Penalty/Terms model: beta\'P beta of the varied penalty at the real coefficients == NumPy on the real build_penalties (1e-9)')
    ctx.stream(st_neq, 'Lean model (exact): weighted RSS, penalty value and residual of the model normal equations at the real coefficients on the exported matrices')
    ctx.extra['rule'] = ('paths = random term program (no constraints, no periodic penalty; every 5th the documented default s(0) + intercept) x LinearGAM / GAM(normal, identity) x n (m+1, 12, 60, 200) x weights '
                         '(none, positive, integer, with zeros) x varied part (one penalty slot with the others fixed at their values | all lams jointly) x grid (0 and 7..25 points over 1e-6…1e6, jittered); '
                         'distinct = distinct path dicts; non-trivial = all fits converged and the varied penalty is not the zero matrix')
    _witness(ctx, st_lit, st_neq)
    paths = gen_paths(ctx.subrng('paths'), ctx.tier)
    with mp.get_context('fork').Pool(min(16, len(paths))) as pool:
        results = pool.map(_worker, paths, chunksize=1)
    ops, owner = [], []
    for ri, r in enumerate(results):
        for kind, pi, op in r.get('ops', []):
            ops.append(op)
            owner.append((ri, kind, pi))
    outs = ctx.driver.run(ops, parallel=min(16, max(1, len(ops)))) if ops else []
    mouts = {}
    for (ri, kind, pi), o in zip(owner, outs):
        mouts.setdefault(ri, []).append((kind, pi, o))

    for ri, r in enumerate(results):
        case = r['case']
        sig = dict(path=case)
        ctx.count('class', case['cls'])
        ctx.count('route of the smoothing parameters', case.get('route', 'term'))
        ctx.count('varied', 'single (multi-term sweep)' if case.get('multi_sweep') else case['kind'])
        if r['status'] != 'ok':
            ctx.count('path status', r['status'])
            if r['status'] not in ('ValueError', 'generator-rejected', 'nonfinite-coef', 'OptimizationError', 'oracle-linalg-error'):
                ctx.case(st_mono, sig, nontrivial=True)
                ctx.fail(st_mono, dict(kind='exception', exc=r['status']), dict(path=case, lam=r.get('lam')), observed='%s: %s' % (r['status'], r.get('msg', '')),
                         expected='a fit or a ValueError', oracle='fit must not raise an unrelated exception')
            continue
        pts = r['pts']
        ctx.count('far points lam = 1e8, 1e9', r['far_status'] if r['far_status'] != 'ok' else 'fitted')
        while len(pts) > 2 and pts[-1]['lam'] >= 1e8 and not pts[-1]['conv'] and all(p['conv'] for p in pts if p['lam'] < 1e8):
            pts = r['pts'] = pts[:-1]
            ctx.count('far points lam = 1e8, 1e9', 'one not converged (dropped)')
        if not all(p['conv'] for p in pts):
            ctx.count('path status', 'a fit did not converge')
            continue
        nontriv = not r['pv_zero']
        ctx.count('varied penalty', r['varied'].split(':')[-1])
        ctx.count('other penalties fixed at non-zero', str(r['other_pen'] > 0))
        ctx.count('null space dimension of the varied penalty', r['null_dim'])
        small = dict(path=case, n=r['n'], m=r['m'], varied=r['varied'], edof=[round(p['edof'], 6) for p in pts][:6], rss=[round(p['rss'], 6) for p in pts][:6])
        # ---- monotonicity (theorems) and the literal sentence
        fails, literal = _judge_path(r)
        ctx.case(st_mono, sig, nontrivial=nontriv, sample=small)
        ctx.case(st_lit, sig, nontrivial=nontriv and r['other_pen'] == 0)
        with np.errstate(all='ignore'):
            ctx.count('log10 max condition of [sqrt(W)B; E] on the path', _lb(max(p['condM'] for p in pts)))
        if literal:
            worst = max(literal, key=lambda d: d['rel'])
            if r['other_pen'] > 0 and case['kind'] == 'single' and not fails:
                # exactly the pattern of the known finding: RSS alone decreases along a single-penalty path while another
                # penalty is held fixed at a non-zero value, and RSS + fixed penalties does not decrease
                ctx.count('literal RSS decrease with other penalties fixed: log10 relative size', _lb(worst['rel']))
                _known(ctx, st_lit, dict(kind='random-path', cls=case['cls']), dict(path=case, n=r['n'], m=r['m'], varied=r['varied'], lam=list(worst['lam'])),
                       observed='weighted RSS %.12g at lam = %.3g -> %.12g at lam = %.3g (relative decrease %.3g) with other penalties fixed at non-zero values; RSS + fixed penalties is non-decreasing' % (worst['rss'][0], worst['lam'][0], worst['rss'][1], worst['lam'][1], worst['rel']),
                       expected='the sentence as written: increasing any smoothing parameter never decreases the weighted RSS', oracle='sequence of real fits; theorem fidelity_monotone for RSS + fixed penalties')
            elif r['other_pen'] == 0:
                # nothing else is penalised but the sqrt(eps) ridge: the decrease is within the gain of the ridge term
                # (a larger one makes RSS + fixed penalties decrease and is an ordinary failing input, see `fails`)
                ctx.count('literal RSS decrease within the sqrt(eps)-ridge slack', 'n')
        if fails:
            r2 = _worker(case)
            f2 = _judge_path(r2)[0] if r2.get('status') == 'ok' else []
            if f2:
                ctx.fail(st_mono, dict(kind='monotone', cls=case['cls'], varied=case['kind']), dict(path=case, n=r['n'], m=r['m'], varied=r['varied'], desc=r['desc']),
                         observed=f2[:4], expected='edof non-increasing, RSS + fixed penalties non-decreasing, penalty value non-increasing along increasing lam',
                         oracle='sequence of real fits (tol 1e-10), tolerance 10 x accuracy model (eps cond[sqrt(W)B; E], eps |A||beta| |sqrt(W)B N^-1|)')
            else:
                ctx.count('not reproduced on re-execution', 'monotone')
        # ---- closed form and linearity of the penalty
        ctx.case(st_cf, sig, nontrivial=nontriv)
        ctx.case(st_lin, sig, nontrivial=nontriv)
        fb = [p for p in pts if p['fallback']] + [q for q in (r.get('limit'), r.get('far_line')) if (q or {}).get('fallback')]
        if fb:
            ctx.fail(st_cf, dict(kind='cholesky-fallback', cls=case['cls']), dict(path=case, lam=[p['lam'] for p in fb][:5], n=r['n'], m=r['m'], varied=r['varied']),
                     observed='the unconstrained fit at lam = %.3g changed the conditioning ridge _constraint_l2 from %r to %r: the factorisation of S + P was replaced by that of a more heavily ridged matrix (%d fit(s) of this path)' % (fb[0]['lam'], fb[0]['l2'][0], fb[0]['l2'][1], len(fb)),
                     expected='the fit of the specified model (penalty S + P) at every lam', oracle='_constraint_l2 before / after an unconstrained fit')
        jp = [p for p in pts if p['acc'] <= 1e-3]
        ctx.count('path points judged (accuracy model <= 1e-3)', 'judged', len(jp))
        ctx.count('path points judged (accuracy model <= 1e-3)', 'too ill-conditioned', len(pts) - len(jp))
        worst_cf = max(jp, key=lambda p: p['d_cf'] / max(1e-7, p['acc'])) if jp else None
        tcf = 10 * max(1e-7, worst_cf['acc']) if jp else 1.0
        if jp:
            ctx.count('closed form: log10(diff / tol)', _lb(worst_cf['d_cf'] / tcf))
        if jp and worst_cf['d_cf'] > tcf:
            ctx.fail(st_cf, dict(kind='closed-form', cls=case['cls'], lam0=(worst_cf['lam'] == 0)), dict(path=case, lam=worst_cf['lam'], n=r['n'], m=r['m'], varied=r['varied']),
                     observed='fitted values differ from the penalised weighted least-squares solution by %.3g (relative) at lam = %.3g' % (worst_cf['d_cf'], worst_cf['lam']),
                     expected='fitted values of the penalised WLS problem (lam = 0: unpenalised WLS on the basis plus the sqrt(eps) ridge)', oracle='np.linalg.lstsq on [sqrt(W)B; E], E\'E = S + P')
        if jp:
            worst_e = max(jp, key=lambda p: abs(p['edof'] - p['edof_np']) / (1 + abs(p['edof_np'])) / max(1e-7, p['acc']))
            de = abs(worst_e['edof'] - worst_e['edof_np']) / (1 + abs(worst_e['edof_np']))
            te = 10 * max(1e-7, worst_e['acc'])
            ctx.count('edof vs trace of the hat matrix: log10(diff / tol)', _lb(de / te))
            if de > te:
                ctx.fail(st_cf, dict(kind='edof-formula', cls=case['cls']), dict(path=case, lam=worst_e['lam'], n=r['n'], m=r['m'], varied=r['varied']),
                         observed='statistics_[edof] = %.12g but the trace of the hat matrix is %.12g at lam = %.3g' % (worst_e['edof'], worst_e['edof_np'], worst_e['lam']),
                         expected='edof = tr((B\'WB + S + P)^-1 B\'WB)', oracle='thin QR of [sqrt(W)B; E] in NumPy')
        dlin = max(p['d_lin'] for p in pts)
        dB = max(p['d_B'] for p in pts)
        if dlin > 1e-12 or dB > 0:
            ctx.fail(st_lin, dict(kind='penalty-linear-in-lam'), dict(path=case, varied=r['varied']), observed=dict(max_rel_dev_penalty=dlin, max_dev_model_matrix=dB),
                     expected='build_penalties() = fixed + lam * varied; build_columns independent of lam', oracle='public build_penalties / build_columns at each lam')
        # ---- limit
        lim = r.get('limit')
        if lim and 'F0' in lim and lim['conv']:
            ctx.case(st_lim, sig, nontrivial=nontriv, sample=dict(path=case, lam_big=lim['lam'], d_train=lim['d_train'], d_theory=lim['d_theory']))
            ctx.count('limit: lam_big decade', _lb(lim['lam']))
            tl_ = 10 * max(1e-7, 10 * lim['acc'])
            sF = max(abs(lim['F0']), r['ynorm'] ** 2) + 1e-300
            lbad = []
            if lim['Fl'] > lim['F0'] + tl_ * sF:
                lbad.append('F(beta_lam) = %.12g exceeds F(beta0) = %.12g of the null-space fit' % (lim['Fl'], lim['F0']))
            if lim['lam'] * lim['Jl'] > lim['F0'] + tl_ * sF:
                lbad.append('lam J = %.6g exceeds F(beta0) = %.6g' % (lim['lam'] * lim['Jl'], lim['F0']))
            if lim['dist2'] > (lim['F0'] - lim['Fl']) + tl_ * sF:
                lbad.append('weighted distance² %.6g exceeds F(beta0) - F(beta_lam) = %.6g' % (lim['dist2'], lim['F0'] - lim['Fl']))
            if lim['d_theory'] <= 1e-3 and lim['d_theory_q'] <= 1e-3:
                ctx.count('limit', 'lam_big is in the limit regime (closed form within 1e-3 of the null-space fit): distance judged')
                tdist = 10 * (lim['d_theory'] + tl_)
                tdq = 10 * (lim['d_theory_q'] + tl_)
                if not lim['judge_query']:
                    tdq = float('inf')      # fewer than 2 rows per coefficient: query rows are extrapolations along weakly identified directions
                if lim['d_train'] > tdist or lim['d_query'] > tdq:
                    lbad.append('fitted values at lam = %.3g differ from the null-space fit by %.3g / %.3g (training / query, relative) > %.3g / %.3g' % (lim['lam'], lim['d_train'], lim['d_query'], tdist, tdq))
                if 'd_line' in lim and (lim['d_line'] > tdist + 1e-6 or lim['d_line_q'] > tdq + 1e-6):
                    lbad.append('default spline term at lam = %.3g is not the weighted straight-line fit: %.3g / %.3g (relative)' % (lim['lam'], lim['d_line'], lim['d_line_q']))
                if 'd_line' in lim:
                    ctx.count('limit', 'default spline term vs np.polyfit straight line judged')
                ctx.count('limit: log10(distance / tolerance)', _lb(lim['d_train'] / tdist))
            else:
                ctx.count('limit', 'limit regime not reachable in double precision (squeeze inequalities only)')
            if lbad:
                ctx.fail(st_lim, dict(kind='limit', cls=case['cls'], varied=case['kind']), dict(path=case, lam=lim['lam'], varied=r['varied'], n=r['n'], m=r['m']),
                         observed=lbad, expected='the weighted least-squares fit within the null space of the varied penalty (+ fixed penalties)', oracle='NumPy null-space WLS / np.polyfit; squeeze inequalities')
        fl = r.get('far_line')
        if fl:
            ctx.case(st_lim, dict(path=case, far=1e11), nontrivial=True)
            tfl = 1e-4 + 10 * fl['d_theory']        # clean tree: <= 1e-6 over 189 problems; a ridge of 1e-2 moves the line by 1e-5 … 2e-3
            ctx.count('default spline at lam = 1e11 vs np.polyfit line: log10(distance / tolerance)', _lb(fl['d_line'] / tfl))
            if fl['d_line'] > tfl:
                ctx.fail(st_lim, dict(kind='far-limit', cls=case['cls']), dict(path=case, lam=fl['lam'], n=r['n'], m=r['m']),
                         observed='default spline term at lam = 1e11 (n >= 2m) differs from the weighted straight-line fit by %.3g (relative); the penalised WLS solution itself is within %.3g' % (fl['d_line'], fl['d_theory']),
                         expected='a straight line for a default spline term as lam grows without bound', oracle='np.polyfit; stacked-factor penalised WLS in NumPy')
        # ---- model side
        for kind, pi, o in mouts.get(ri, []):
            if pi >= len(pts):
                continue
            p = pts[pi]
            if kind == 'quad':
                ctx.case(st_quad, dict(path=case, pt=pi), nontrivial=nontriv)
                if o == 'bad-op':
                    ctx.disagree(st_quad, sig, 'n/a', 'bad-op', 'model rejected the term encoding')
                    continue
                Jm = common.fracf(o)
                if abs(Jm - p['J']) > 1e-9 * max(abs(Jm), abs(p['J'])) + 1e-9 * p['bnorm2'] * 16:
                    ctx.disagree(st_quad, sig, p['J'], Jm, 'penalty value of the varied penalty: real build_penalties vs the Lean Penalty/Terms model')
            else:
                ctx.case(st_neq, dict(path=case, pt=pi), nontrivial=nontriv)
                if o == 'bad-op':
                    ctx.disagree(st_neq, sig, 'n/a', 'bad-op', 'model could not evaluate the normal equations')
                    continue
                rssm, qam, resm, rhsm = [common.fracf(t.strip()) for t in o.split('|')]
                sF = max(abs(rssm), r['ynorm'] ** 2) + 1e-300
                t = 10 * p['acc']
                if abs(rssm - p['rss']) > max(1e-9, t) * sF:
                    ctx.disagree(st_neq, sig, p['rss'], rssm, 'weighted RSS: predict_mu vs model matrix times coef in the model')
                elif resm > 1e-6 * (p['nscale'] + 1e-300) and p['be'] <= 1e-7:     # normwise backward error, as in C01
                    ctx.disagree(st_neq, sig, dict(be_numpy=p['be']), dict(model_residual=resm, rhs=rhsm), 'model normal-equation residual at the real coefficients')
    ctx.partial.append('edof_antitone_partial / edof_diag_formula_partial: monotonicity of edof is proved from the representation sum a_j/(1+lam gamma_j), which assumes a simultaneous diagonalisation of G + R and P (standard linear algebra, not proved here)')
    ctx.partial.append('clause "increasing any smoothing parameter never decreases the weighted RSS": proved and enforced for RSS + fixed penalties (fidelity_monotone) and for the RSS alone when nothing else is penalised (rss_monotone; sqrt(eps)-ridge slack); for the RSS alone with another penalty held fixed at a non-zero value the clause is decided as the KNOWN FINDING %s (false of every exact solver: machine-checked counter-example rss_not_monotone_in_general, reproduced on the real code in every run); every other clause (edof, limits, lam = 0) is enforced' % KNOWN_RSS)
    ctx.partial.append('the limit lam -> infinity is proved in quantitative form (squeeze, limit_distance), not as a topological limit; IEEE rounding is covered by the tolerances only')
    ctx.assumptions.append('existence of a simultaneous diagonalisation of a positive definite and a PSD matrix (C13 edof monotonicity only)')
    run_extreme(ctx)
    _block_witness(ctx, 'path.extreme-ratio')
    run_requested(ctx)


def replay(ctx, rp):
    run(ctx)
