"""
C05 — shape constraints are honoured by every converged fit.

Theorems: lean/PyGam/Props/C05.lean (constraint matrices: quadratic form = sum of squared violating first / second
differences, symmetric, PSD, zero iff the coefficients satisfy the constraint; all n, all coefficient vectors).
Correspondence: exact rational model matrices vs pygam.penalties.monotonic_inc/dec, convex, concave and vs
Term / TensorTerm / TermList.build_constraints(coef, 1e9, 1e-3) (per-slice matrices of tensor marginals, x constraint_lam,
conditioning ridge) on random term programs and tie-containing coefficient vectors.
Oracle (real code): quadratic-form identity at x = coef, symmetry, PSD, zero iff satisfied; and at fit level the
requested shape of partial_dependence on sorted grids (inside the domain and on the linear continuation) for converged
constrained fits on data that contradict the constraint, with the violation bounded relative to the soft-constraint strength.
"""
import io
import contextlib
import multiprocessing as mp

import numpy as np

from harness import common
from harness.gen import termgen

KINDS = ['monotonic_inc', 'monotonic_dec', 'convex', 'concave']


def dense(M):
    return np.asarray(M.todense()) if hasattr(M, 'todense') else np.asarray(M)


def violating_sum(kind, c):
    c = np.asarray(c, dtype=float)
    if kind.startswith('monotonic'):
        d = np.diff(c)
        bad = d[d < 0] if kind.endswith('inc') else d[d > 0]
    else:
        d = np.diff(c, n=2) if len(c) >= 3 else np.array([])
        bad = d[d < 0] if kind == 'convex' else d[d > 0]
    return float(np.sum(bad ** 2)), len(bad)


def run_matrices(ctx):
    from pygam import penalties
    st = 'con.matrix'
    st_or = 'con.oracle'
    ctx.stream(st, 'penalties.monotonic_inc/dec, convex, concave (n, coef) vs model conMatrix, exact')
    ctx.stream(st_or, "c'Cc = sum of squared violating differences; symmetric; PSD; zero iff constraint satisfied (real code)")
    rng = ctx.subrng('mat')
    cases = []
    ns = list(range(1, 13)) + [20]
    reps = 4 if ctx.tier == 'quick' else 25
    for n in ns:
        for kind in KINDS:
            for r in range(reps):
                style = r % 4
                if style == 0:
                    c = [rng.randint(-5, 5) for _ in range(n)]          # ties likely
                elif style == 1:
                    c = sorted(rng.randint(-9, 9) for _ in range(n))    # satisfies monotone inc
                    if kind == 'monotonic_dec':
                        c = c[::-1]
                elif style == 2:
                    c = [(k - n / 2.0) ** 2 * (1 if kind != 'concave' else -1) for k in range(n)]   # convex / concave
                else:
                    c = [rng.choice([rng.uniform(-3, 3), float(rng.randint(-2, 2))]) for _ in range(n)]
                cases.append((kind, n, [float(v) for v in c]))
                # the same vector in other units (exact powers of two): the constraint is about the SIGN of differences,
                # whatever their magnitude (coefficients of a response measured in units of 1e-19, or 1e12)
                if r % 2 == 0:
                    u = [2.0 ** -70, 2.0 ** 40, 2.0 ** -200][(r // 2 + n) % 3]
                    cases.append((kind, n, [float(v) * u for v in c]))
    ops = ['C05 con %s %d | %s' % (kind, n, ' '.join(termgen.q(v) for v in c)) for kind, n, c in cases]
    outs = ctx.driver.run(ops)
    for (kind, n, c), out in zip(cases, outs):
        ca = np.array(c)
        sig = dict(kind=kind, n=n, c=c)
        ctx.count('constraint kind', kind)
        try:
            C = dense(getattr(penalties, kind)(n, ca))
            err = None
        except Exception as e:  # noqa
            C, err = None, type(e).__name__
        want, nviol = violating_sum(kind, ca)
        ctx.case(st, sig, nontrivial=n >= 2 and nviol > 0, sample=dict(kind=kind, n=n, c=c[:6]))
        ctx.case(st_or, sig, nontrivial=n >= 2)
        bad = None
        if err is not None:
            bad = 'exception ' + err
        else:
            if C.shape != (n, n):
                bad = 'shape %s' % (C.shape,)
            elif not np.array_equal(C, C.T):
                bad = 'not symmetric'
            else:
                got = float(ca @ C @ ca)
                if abs(got - want) > 1e-9 * abs(want):        # relative: want == 0 (no violation) demands exactly 0
                    bad = 'quadratic form %.12g != sum of squared violating differences %.12g' % (got, want)
                elif (got == 0) != (nviol == 0) and abs(want) > 1e-300:
                    bad = 'zero-iff-satisfied fails'
                elif n >= 2 and np.linalg.eigvalsh(C).min() < -1e-9 * max(1.0, np.abs(C).max()):
                    bad = 'not positive semi-definite'
        if bad:
            ctx.fail(st_or, dict(kind=kind, why=bad.split(' ')[0]), dict(call='pygam.penalties.%s(%d, coef)' % (kind, n), coef=c), observed=bad,
                     expected='symmetric PSD matrix with c^T C c = sum of squared violating differences', oracle='NumPy diff oracle')
            continue
        M = np.array([[float(v) for v in row] for row in common.parse_mat(out)]).reshape(n, n) if out != 'bad-op' else None
        if M is None or np.abs(M - C).max() > 1e-9 * max(1.0, np.abs(C).max()):
            ctx.disagree(st, sig, C.tolist(), None if M is None else M.tolist(), 'constraint matrix differs from the model')


def run_terms(ctx):
    pygam = common.import_pygam()
    st = 'con.terms'
    st_or = 'con.terms.oracle'
    ctx.stream(st, 'TermList / term.build_constraints(coef, 1e9, 1e-3) vs model constraintAll / Term.constraint (exact rationals)')
    ctx.stream(st_or, 'term constraint = sum_k constraint_k(n, coef) * lam (+ l2 I when non-zero); tensor = scatter of per-fibre marginal matrices; list = block diagonal (NumPy, real code)')
    nprog = 40 if ctx.tier == 'quick' else 300
    progs = []
    k = 0
    while len(progs) < nprog and k < 6 * nprog:
        rng = ctx.subrng('cprog', k)
        k += 1
        try:
            pr = termgen.gen_program(rng, pygam, allow_constraints=True, n_query=1, tensor_prob=0.45)
        except ValueError as e:
            ctx.count('generator-rejected', str(e)[:40])
            continue
        if not pr.terms.hasconstraint and rng.random() < 0.8:
            continue
        progs.append((pr, rng))
    ops, meta = [], []
    for pr, rng in progs:
        tl = pr.terms
        m = int(tl.n_coefs)
        style = rng.randint(0, 2)
        if style == 0:
            coef = np.array([float(rng.randint(-3, 3)) for _ in range(m)])
        elif style == 1:
            coef = np.array([rng.choice([0.5, 0.25, -1.0, 2.0, 0.0]) * rng.randint(-4, 4) for _ in range(m)])
        else:
            coef = np.arange(m, dtype=float) * rng.choice([1.0, -1.0])
        clam, cl2 = 1e9, rng.choice([1e-3, 1e-2, 0.5])
        toks = ' '.join(pr.tokens)
        ops.append('C05 tcon %s | %s | %s %s' % (toks, ' '.join(termgen.q(v) for v in coef), termgen.q(clam), termgen.q(cl2)))
        meta.append((pr, coef, clam, cl2))
    outs = ctx.driver.run(ops)
    import scipy.linalg
    from pygam import penalties

    def oracle_term(t, c, clam, cl2):
        if t.isintercept:
            return np.zeros((1, 1))
        if t.istensor:
            dims = [int(s.n_coefs) for s in t._terms]
            n = int(np.prod(dims))
            C = np.zeros((n, n))
            idx = np.arange(n).reshape(dims)
            for i, s in enumerate(t._terms):
                fib = np.moveaxis(idx, i, 0).reshape(dims[i], -1)
                for col in fib.T:
                    Cs = oracle_term(s, c[col], clam, cl2)
                    C[np.ix_(col, col)] += Cs
            return C
        n = int(t.n_coefs)
        C = np.zeros((n, n))
        for kind in t.constraints:
            kind = termgen.con_name(kind)      # registry name, also for constraints given as callables
            if kind == 'none':
                continue
            C += dense(getattr(penalties, kind)(n, c)) * clam
        if np.count_nonzero(C) > 0:
            C += cl2 * np.eye(n)
        return C

    for (pr, coef, clam, cl2), out in zip(meta, outs):
        tl = pr.terms
        sig = dict(tokens=' '.join(pr.tokens), coef=coef.tolist(), cl2=cl2)
        has_t = any(t.istensor and t.hasconstraint for t in tl)
        ctx.count('has constrained tensor', has_t)
        ctx.case(st_or, sig, nontrivial=bool(tl.hasconstraint))
        try:
            C = dense(tl.build_constraints(coef, clam, cl2))
        except Exception as e:  # noqa
            ctx.fail(st_or, dict(kind='exception', exc=type(e).__name__), dict(tokens=sig['tokens'], coef=coef.tolist()), observed='%s: %s' % (type(e).__name__, str(e)[:200]),
                     expected='a constraint matrix', oracle='build_constraints must not raise')
            continue
        blocks = []
        for i, t in enumerate(tl):
            ix = tl.get_coef_indices(i)
            blocks.append(oracle_term(t, coef[ix], clam, cl2))
        ref = scipy.linalg.block_diag(*blocks)
        bad = None
        if C.shape != ref.shape or np.abs(C - ref).max() > 1e-9 * max(1.0, np.abs(ref).max()):
            bad = 'build_constraints != block_diag of per-term / per-fibre constraint matrices'
        elif not np.allclose(C, C.T):
            bad = 'not symmetric'
        if bad:
            ctx.fail(st_or, dict(kind='term-constraint', why=bad.split(' ')[0]), dict(tokens=sig['tokens'], coef=coef.tolist(), cl2=cl2), observed=bad,
                     expected='documented assembly of constraint matrices', oracle='NumPy recomputation from pygam.penalties constraint primitives')
            continue
        ctx.case(st, sig, nontrivial=bool(tl.hasconstraint), sample=dict(tokens=sig['tokens'], coef=coef.tolist()[:8]))
        if out == 'bad-op':
            ctx.disagree(st, sig, 'n/a', 'bad-op', 'model rejected the encoding')
            continue
        M = np.array([[float(v) for v in row] for row in common.parse_mat(out)]).reshape(C.shape[0], -1)
        if M.shape != C.shape or np.abs(M - C).max() > 1e-9 * max(1.0, np.abs(M).max()):
            ctx.disagree(st, sig, dict(shape=list(C.shape)), dict(shape=list(M.shape), maxdiff=float(np.abs(M - C).max()) if M.shape == C.shape else None), 'model constraint matrix differs')


# ------------------------------------------------------------------------------------------------------
# fit level
# ------------------------------------------------------------------------------------------------------
def _fit_case(args):
    """one constrained fit on contradicting data; returns a dict describing the shape of the fitted term"""
    import warnings
    warnings.filterwarnings('ignore')
    import sys
    sys.path.insert(0, common.REPO)
    import numpy as np
    import pygam
    from pygam import LinearGAM, PoissonGAM, LogisticGAM, GammaGAM, ExpectileGAM, s, te
    (seed, cls_name, kind, order, n_splines, lam, tensor, n, variant) = args
    rng = np.random.default_rng(seed)
    x = np.sort(rng.uniform(0, 1, n))
    x2 = rng.uniform(0, 1, n)
    # a response that contradicts the requested shape
    sign = {'monotonic_inc': -1.0, 'monotonic_dec': 1.0, 'convex': -1.0, 'concave': 1.0}[kind]
    base = (3 * x + np.sin(9 * x)) if kind.startswith('mono') else (6 * (x - 0.5) ** 2 + 0.5 * np.sin(11 * x))
    eta = sign * base + 0.1 * rng.normal(size=n)
    X = np.c_[x, x2]
    unit = 1.0
    if cls_name in ('LinearGAM', 'ExpectileGAM'):
        # identity link: the response may be measured in any unit (energies in joule ~ 1e-19, counts of 1e6)
        unit = [1.0, 1.0, 1.602e-19, 1e6, 1e-9][(seed // 5) % 5]      # cycles with the case index whatever the run seed: every class meets every unit
        y = eta * unit
    elif cls_name == 'PoissonGAM':
        y = rng.poisson(np.exp(0.5 * eta - np.min(0.5 * eta) * 0 - 1)).astype(float)
    elif cls_name == 'LogisticGAM':
        y = (rng.uniform(size=n) < 1 / (1 + np.exp(-eta))).astype(float)
    else:
        y = np.exp(0.3 * eta) * rng.gamma(5, 1 / 5.0, size=n)
    # the same constraint given by its registry name or as the callable of pygam.penalties; the edge knots left to
    # the data or given by the user, in either order (a pair of edge knots is a range, whichever end comes first)
    con = getattr(pygam.penalties, kind) if variant in ('callable', 'callable+reversed-knots') else kind
    ek = [float(x.max()), float(x.min())] if variant in ('reversed-knots', 'callable+reversed-knots') else None
    if tensor:
        terms = te(s(0, n_splines=n_splines, spline_order=order, constraints=con, edge_knots=ek, lam=lam), s(1, n_splines=4, spline_order=1, lam=lam))
    else:
        terms = s(0, n_splines=n_splines, spline_order=order, constraints=con, lam=lam, edge_knots=ek) + s(1, n_splines=5)
    cls = getattr(pygam, cls_name)
    kw = dict(expectile=0.7) if cls_name == 'ExpectileGAM' else {}
    gam = cls(terms, tol=1e-8, max_iter=500, callbacks=['deviance', 'diffs', 'coef'], **kw)
    buf = io.StringIO()
    try:
        with contextlib.redirect_stdout(buf):
            gam.fit(X, y)
    except ValueError as e:
        return dict(args=args, status='ValueError', msg=str(e)[:80])
    except Exception as e:  # noqa
        return dict(args=args, status='error', msg='%s: %s' % (type(e).__name__, str(e)[:120]))
    converged = 'did not converge' not in buf.getvalue()
    grid = np.linspace(-0.5, 1.5, 401) if order >= 1 else np.linspace(0, 1, 401)
    res = dict(args=args, status='ok', converged=converged, n_iter=len(gam.logs_['diffs']))
    worst = 0.0
    span = 0.0
    # the other marginal of a tensor term is evaluated inside its own fitted domain (its linear continuation has
    # negative basis values, for which no shape is promised)
    for x2v in ([0.0] if not tensor else [float(x2.min()), float(np.median(x2)), float(x2.max())]):
        XX = np.c_[grid, np.full_like(grid, x2v)]
        pd = gam.partial_dependence(0, XX)
        span = max(span, float(pd.max() - pd.min()))
        if kind.startswith('mono'):
            d = np.diff(pd)
            v = float(max(0.0, (-d).max() if kind.endswith('inc') else d.max()))
        else:
            d2 = pd[2:] - 2 * pd[1:-1] + pd[:-2]
            v = float(max(0.0, (-d2).max() if kind == 'convex' else d2.max()))
        worst = max(worst, v)
    res['violation'] = worst
    res['span'] = span
    res['unit'] = unit
    idx = gam.terms.get_coef_indices(0)
    res['coef_scale'] = float(np.abs(gam.coef_[idx]).max())
    # the soft-constraint identity / bound of Props/C05 (violations_are_partial_sums, *_fixed_point_violation_bound):
    # the last linear solve satisfies lamC C(b_old) b_new + rho b_new = r on the rows of the constrained term, with
    # r = B' W^2 (z - B b_new) - (S + P) b_new evaluated from independent NumPy formulas; hence the masked differences of
    # b_new are the (double) partial sums of -(r - rho b_new) / lamC
    fam = {'LinearGAM': ('normal', 'identity'), 'PoissonGAM': ('poisson', 'log'), 'LogisticGAM': ('binomial', 'logit'),
           'GammaGAM': ('gamma', 'log')}.get(cls_name)
    if fam is not None and not tensor and len(gam.logs_.get('coef', [])) >= 1:
        try:
            res['viol'] = _violation_identity(gam, X, y, fam, kind, idx)
        except Exception as e:  # noqa
            res['viol'] = dict(status='error', msg='%s: %s' % (type(e).__name__, str(e)[:160]))
    return res


def _violation_identity(gam, X, y, fam, kind, idx):
    from harness.gen import fitgen
    dist, link = fam
    b_old = np.asarray(gam.logs_['coef'][-1], dtype=float)
    b_new = np.asarray(gam.coef_, dtype=float)
    B = dense(gam._modelmat(X))
    P = dense(gam.terms.build_penalties())
    m = B.shape[1]
    S = np.sqrt(np.finfo(np.float64).eps) * np.eye(m)
    eta = B @ b_old
    mu = fitgen.np_mu(link, 1, eta)
    g = fitgen.np_grad(link, 1, mu)
    V = fitgen.np_V(dist, 1, mu)
    w2 = 1.0 / (V * g * g)
    z = eta + (y - mu) * g
    if not (np.isfinite(w2).all() and np.isfinite(z).all()):
        return dict(status='not-judged', why='non-finite working weights')
    r_full = B.T @ (w2 * (z - B @ b_new)) - (S + P) @ b_new
    lamC = float(gam._constraint_lam)
    rho = float(gam._constraint_l2)
    c_old, c_new, r = b_old[idx], b_new[idx], r_full[idx]
    n = len(idx)
    # hypothesis `hfix`, validated with the real constraint matrix of the term at the entering coefficients
    Creal = dense(gam.terms[0].build_constraints(c_old, lamC, rho))
    scale_r = float(np.abs(B.T).dot(np.abs(w2 * z)).max() + np.abs(P).dot(np.abs(b_new)).max() + lamC * np.abs(c_new).max() * 0 + 1e-300)
    hfix_err = float(np.abs(Creal @ c_new - r).max())
    rr = r - rho * c_new
    bound = float((np.abs(r).sum() + rho * np.abs(c_new).sum()) / lamC)
    if kind.startswith('mono'):
        d_old, d_new = np.diff(c_old), np.diff(c_new)
        mask = (d_old < 0) if kind.endswith('inc') else (d_old > 0)
        u = mask * d_new
        pred = -np.cumsum(rr)[:-1] / lamC
        factor = 1.0
    else:
        d_old, d_new = np.diff(c_old, n=2), np.diff(c_new, n=2)
        mask = (d_old < 0) if kind == 'convex' else (d_old > 0)
        u = mask * d_new
        pred = np.cumsum(np.cumsum(rr))[:-2] / lamC
        factor = float(n)
    # does the constraint carry the conditioning ridge? (only when some difference violates: Cs.nnz > 0)
    return dict(status='ok', n=n, n_masked=int(mask.sum()), lamC=lamC, rho=rho, hfix_err=hfix_err, scale_r=scale_r,
                max_u=float(np.abs(u).max()) if len(u) else 0.0, identity_err=float(np.abs(u - pred).max()) if len(u) else 0.0,
                bound=bound, factor=factor, coef_max=float(np.abs(c_new).max()), cond_note=float(np.abs(r).sum()))


def run_fits(ctx):
    ctx.stream('con.violation', 'last linear solve of constrained fits (normal / Poisson / binomial / gamma, non-tensor): the rows of the penalised normal equations of the constrained term (hypothesis of the bound theorems) hold with the real constraint matrix at the entering coefficients, the masked differences of the produced coefficients are the (double) partial sums of -(r - rho b)/1e9, and are bounded by (n x)(sum|r| + rho sum|b|)/1e9')
    st = 'con.fit'
    ctx.stream(st, 'converged constrained fits on contradicting data: partial dependence has the requested shape on a 401-point grid over [-0.5, 1.5] x domain (violation <= 1e-6 x (1 + function range))')
    rng = ctx.subrng('fits')
    classes = ['LinearGAM', 'PoissonGAM', 'LogisticGAM', 'GammaGAM', 'ExpectileGAM']
    cases = []
    nfit = 30 if ctx.tier == 'quick' else 300
    for i in range(nfit):
        cls_name = classes[i % len(classes)]
        kind = KINDS[(i // len(classes)) % 4]
        order = rng.choice([1, 2, 3, 3, 4])
        n_splines = rng.choice([order + 2, 6, 10, 20, 40]) if ctx.tier == 'thorough' else rng.choice([order + 2, 6, 10, 20])
        n_splines = max(n_splines, order + 2, 3)
        lam = rng.choice([0.01, 0.6, 10.0])
        tensor = (i % 7 == 3)
        if tensor:
            n_splines = min(n_splines, 8)
        n = rng.choice([60, 150, 400])
        variant = ['name', 'name', 'callable', 'name', 'reversed-knots', 'callable+reversed-knots'][(i // 2) % 6]
        cases.append((ctx.seed * 100003 + i, cls_name, kind, order, n_splines, lam, tensor, n, variant))
    with mp.get_context('fork').Pool(min(16, len(cases))) as pool:
        results = pool.map(_fit_case, cases, chunksize=1)
    for r in results:
        (seed, cls_name, kind, order, n_splines, lam, tensor, n, variant) = r['args']
        sig = dict(cls=cls_name, kind=kind, order=order, n_splines=n_splines, lam=lam, tensor=tensor, n=n, variant=variant)
        ctx.count('constraint given as / edge knots', variant)
        ctx.count('fit status', r['status'] + ('' if r['status'] != 'ok' else ('/converged' if r['converged'] else '/not-converged')))
        ctx.count('fit class', cls_name)
        ctx.case(st, sig, nontrivial=True, sample=dict(sig, result={k: v for k, v in r.items() if k != 'args'}))
        if r['status'] == 'error':
            ctx.fail(st, dict(kind='exception'), dict(sig, seed=seed), observed=r['msg'], expected='a fit or a ValueError', oracle='constrained fit must not raise an unrelated exception')
            continue
        v = r.get('viol') if r['status'] == 'ok' else None
        if v is not None:
            st2 = 'con.violation'
            ctx.case(st2, sig, nontrivial=bool(v.get('n_masked', 0)), sample=dict(sig, result=v))
            ctx.count('violation identity', v['status'] + ('' if v['status'] != 'ok' else ('/%d masked' % min(v['n_masked'], 3) + ('+' if v['n_masked'] > 3 else ''))))
            if v['status'] == 'error':
                ctx.fail(st2, dict(kind='exception'), dict(sig, seed=seed), observed=v['msg'], expected='the constraint rows of the last solve', oracle='violation identity could not be evaluated')
            elif v['status'] == 'ok' and v['n_masked'] > 0:
                # rounding of the 1e9-weighted solve: backward error eps x (|C_total| |b| + |r| terms)
                tol_rows = 1e-6 * (v['scale_r'] + v['lamC'] * v['coef_max'] * 4) * 1e-3
                if v['hfix_err'] > max(tol_rows, 1e-9 * v['scale_r']):
                    ctx.fail(st2, dict(kind='fixed-point-rows', constraint=kind, cls=cls_name), dict(sig, seed=seed),
                             observed=dict(row_error=v['hfix_err'], scale=v['scale_r']), expected='lamC C(b_old) b_new + rho b_new = B\'W^2(z - B b_new) - (S + P) b_new on the rows of the constrained term',
                             oracle='rows of the penalised normal equations of the last iteration (independent NumPy working weights / pseudo-data)')
                tol_id = 1e-5 * v['factor'] * v['bound'] + 1e-13 * v['coef_max']
                if v['identity_err'] > tol_id:
                    ctx.fail(st2, dict(kind='identity', constraint=kind, cls=cls_name), dict(sig, seed=seed),
                             observed=dict(identity_error=v['identity_err'], tolerance=tol_id, max_violation=v['max_u']),
                             expected='masked differences = (double) partial sums of -(r - rho b)/lamC', oracle='Props/C05 violations_are_partial_sums on the real fit')
                if v['max_u'] > v['factor'] * v['bound'] * (1 + 1e-6) + 1e-13 * v['coef_max']:
                    ctx.fail(st2, dict(kind='bound', constraint=kind, cls=cls_name), dict(sig, seed=seed),
                             observed=dict(max_violation=v['max_u'], bound=v['factor'] * v['bound']),
                             expected='|violating difference| <= (n x) (sum|r| + rho sum|b|) / 1e9', oracle='Props/C05 *_fixed_point_violation_bound on the real fit')
        if r['status'] != 'ok' or not r['converged']:
            continue
        # identity-link classes: everything scales with the unit of the response; other links: link scale is absolute
        bound = 1e-6 * ((1.0 if r.get('unit', 1.0) == 1.0 else r['unit']) + r['span'])
        ctx.count('response unit (identity-link classes)', '%g' % r.get('unit', 1.0))
        if r['violation'] > bound:
            ctx.fail(st, dict(kind='shape', constraint=kind, cls=cls_name), dict(sig, seed=seed),
                     observed=dict(violation=r['violation'], function_range=r['span'], iterations=r['n_iter']),
                     expected='requested shape on the grid up to %.3g' % bound, oracle='sorted-grid differences of partial_dependence')


def run(ctx):
    common.import_pygam()
    ctx.extra['rule'] = ('matrix level: constraint kind x n x coefficient styles (ties, satisfied, contradicting, mixed); term level: random term programs with '
                         'constraints incl. tensor marginals x coefficient vectors; fit level: model class x constraint kind x order x size x lam on contradicting data; '
                         'non-trivial = the coefficient vector violates the constraint / the program has a constraint')
    run_matrices(ctx)
    run_terms(ctx)
    run_fits(ctx)


def replay(ctx, rp):
    run(ctx)
